#!/usr/bin/env python
"""Differential check for property C03 (unit expression == product of table entries).

usage: diff.py <unmodified tree root> <refactored tree root>

Runs the same probe (below) against each tree in its own subprocess, each with its
own sys.path, and exits 0 iff every observable output (conversion factors, dimension
vectors, rendered unit text, re-parsed units, raised exception types) is identical.
"""
import json
import os
import subprocess
import sys

PROBE = r'''
import sys, json
root = sys.argv[1]
sys.path.insert(0, root + "/src")
import scinumtools
assert scinumtools.__file__.startswith(root + "/"), (scinumtools.__file__, root)
from scinumtools.units import Quantity
from scinumtools.units.unit_solver import UnitSolver, AtomParser
from scinumtools.units.base_units import BaseUnits, get_unit_base
from scinumtools.units.fraction import Fraction
from scinumtools.units.dimensions import Dimensions

EXPRESSIONS = [
    # plain symbols, prefixes, constants
    "m", "kg", "cm", "us", "mrad", "kpc", "Gly", "mAo", "[c]", "[pi]", "[a_0]", "au", "dag", "dam",
    "Pa", "mPa", "hPa", "J", "eV", "keV", "N", "W", "Hz", "GHz", "min", "h", "l", "ml", "deg", "mol", "cd",
    # integer and fractional exponents
    "m2", "m-2", "km3", "s-1", "cm1:2", "kg3:2", "m-1:2", "g2:4", "s6:3", "m0", "m1", "m+2", "mm-3:2",
    # products / quotients / numeric factors / parentheses
    "kg*m2/s2", "kg*m2*s-2", "m/s", "m/s/s", "m/(s*s)", "(kg*m)/(s2)", "1/s", "2*m", "1e3*m", "1.5e-3*kg/m3",
    "km/h", "N*m", "J/(mol*K)", "W/(m2*K4)", "(m2)/(m)", "m*m-1", "kg*g", "km*m", "cm2*cm-2", "m2*m1:2",
    "[c]2*g", "[h]/(2*[pi])", "eV/[c]2", "1e-3*[c]*yr_j", "((m))", "(m/s)*(s/m)", "60*s", "m*s*kg*K*C*cd*mol*rad",
    "-2*m", "0.5*km2", "3*(2*m)", "kg1:3*kg2:3", "dm3", "uC", "nK", "Mt", "kt/Gt",
    # system units
    "#SACC", "#SACT*#SAOS-1", "#CDVI2", "#AACT1:2/#SCAP", "#SIL",
    # invalid: unknown symbol, forbidden prefix, leading junk, malformed
    "xyz", "foo", "kau", "mau", "krad", "Grad", "Tly", "kft", "kin", "k[c]", "m[pi]", "xm", "?m", "_kg", "xxm",
    "qkm", "kkm", "kmm", "m?", "m*", "*m", "m//s", "(m", "m)", "", " ", "m s", "km.", "2m", "m2:", "m:2",
    "m2:0", "K m", "$", "1e", "m**2", "m^2", "kg*xyz", "m/foo2", "Ym", "ym", "zs", "Eg", "das", "dak",
]

def fnum(x):
    try:
        import numpy as np
        if isinstance(x, np.ndarray):
            return [fnum(v) for v in x.tolist()]
    except Exception:
        pass
    if isinstance(x, (int, float)):
        return repr(float(x)) + ":" + type(x).__name__
    return repr(x)

def guard(fn):
    try:
        return ["ok", fn()]
    except BaseException as e:
        return ["raise", type(e).__name__]

def probe_quantity(expr):
    def run():
        q = Quantity(1, expr)
        text = q.units()
        out = {
            "mag": fnum(q.magnitude.value if hasattr(q.magnitude, "value") else q.magnitude),
            "factor": fnum(q.baseunits.magnitude),
            "dims": repr(q.baseunits.dimensions.value(dtype=list)),
            "dimstr": str(q.baseunits.dimensions),
            "nodim": q.baseunits.nodim, "nobase": q.baseunits.nobase,
            "units": repr(text), "str": str(q), "bu": str(q.baseunits),
            "buval": repr(q.baseunits.value()),
            "unitlist": repr(q.baseunits.units),
        }
        # render -> parse again
        if text is not None:
            q2 = Quantity(1, text)
            out["rt_units"] = repr(q2.units())
            out["rt_factor"] = fnum(q2.baseunits.magnitude)
            out["rt_dims"] = repr(q2.baseunits.dimensions.value(dtype=list))
            out["rt_eq"] = bool(q2.baseunits == q.baseunits)
        return out
    return guard(run)

def probe_solver(expr):
    def run():
        a = UnitSolver(expr)
        return {"mag": fnum(a.magnitude), "str": str(a), "repr": repr(a),
                "keys": list(a.baseunits.keys()),
                "exps": [(e.num, e.den) for e in a.baseunits.values()]}
    return guard(run)

def probe_atom(expr):
    def run():
        a = AtomParser(expr)
        return {"mag": fnum(a.magnitude), "keys": list(a.baseunits.keys()),
                "exps": [(e.num, e.den) for e in a.baseunits.values()]}
    return guard(run)

def probe_baseunits(expr):
    def run():
        b = BaseUnits(expr)
        return {"factor": fnum(b.magnitude), "dims": repr(b.dimensions.value(dtype=list)),
                "dimdict": repr(b.dimensions.value(dtype=dict)), "dimtuple": repr(b.dimensions.value(dtype=tuple)),
                "expr": repr(b.expression), "str": str(b), "repr": repr(b), "val": repr(b.value())}
    return guard(run)

UNITIDS = ["m", "k:m", "c:m", "m:rad", "k:pc", "[c]", "au", "m:Ao", "u:s", "da:g", "#SACC", "#CADO", "#AACT",
           "x:m", "k:foo", "foo", "#NOPE", "k:m:s", "", "k:"]
EXPS = [None, (1, 1), (2, 1), (-1, 1), (1, 2), (-3, 2), (2, 4), (0, 1), (3, -6), (-2, -4), (0, 5), (6, 3)]

def probe_base(unitid, exp):
    def run():
        frac = None if exp is None else Fraction(exp[0], exp[1])
        b = get_unit_base(unitid, frac)
        out = {"mag": fnum(b.magnitude), "dims": repr(b.dimensions.value(dtype=list)),
               "units": b.units, "expr": b.expression, "dimstr": str(b.dimensions), "nodim": b.dimensions.nodim}
        if frac is not None:
            out["exp_after"] = (frac.num, frac.den)
        return out
    return guard(run)

def probe_fraction():
    res = {}
    pairs = [(0, 1), (1, 1), (2, 4), (-2, 4), (2, -4), (-2, -4), (0, -3), (0, 7), (6, 3), (-9, 3), (7, 1),
             (10, -5), (3, 9), (-12, -18), (1, 1000), (17, 13)]
    for n, d in pairs:
        def run(n=n, d=d):
            f = Fraction(n, d)
            out = {"str": str(f), "after_str": (f.num, f.den)}
            g = Fraction(n, d); out["repr"] = repr(g); out["after_repr"] = (g.num, g.den)
            g = Fraction(n, d); g.rebase(); out["rebase"] = (g.num, g.den, type(g.num).__name__, type(g.den).__name__)
            g = Fraction(n, d); out["vt"] = repr(g.value()); out["vf"] = fnum(g.value(dtype=float))
            g = Fraction(n, d); out["neg"] = str(-g)
            for other in [Fraction(1, 2), (1, 3), 2, 0.5, 1.0, Fraction(-3, -4)]:
                g = Fraction(n, d)
                out["mul%r" % (other,)] = guard(lambda: str(g * other))
                out["div%r" % (other,)] = guard(lambda: str(g / other))
            for other in [Fraction(1, 2), (1, 3), 2, Fraction(-3, -4)]:
                g = Fraction(n, d)
                out["add%r" % (other,)] = guard(lambda: str(g + other))
                out["sub%r" % (other,)] = guard(lambda: str(g - other))
                out["eq%r" % (other,)] = guard(lambda: bool(g == (other if isinstance(other, Fraction) else Fraction(1, 1))))
            return out
        res["%d/%d" % (n, d)] = guard(run)
    for s in ["2", "-2", "1:2", "-3:2", "+2", "2:4", "", ":", "1:", ":2", "a", "1:2:3", "2:0"]:
        def run(s=s):
            f = Fraction.from_string(s)
            return (f.num, f.den, guard(lambda: str(f)))
        res["fs:" + s] = guard(run)
    return res

def probe_arith():
    res = {}
    def show(b):
        return {"factor": fnum(b.magnitude), "dims": repr(b.dimensions.value(dtype=list)), "expr": repr(b.expression), "str": str(b)}
    cases = [("kg*m2/s2", "s/m"), ("km", "m"), ("m1:2", "m1:2"), ("m", "m"), ("[c]", "s"), ("cm2", "cm-2")]
    for a, b in cases:
        res["add %s|%s" % (a, b)] = guard(lambda: show(BaseUnits(a) + BaseUnits(b)))
        res["sub %s|%s" % (a, b)] = guard(lambda: show(BaseUnits(a) - BaseUnits(b)))
        res["eq %s|%s" % (a, b)] = guard(lambda: bool(BaseUnits(a) == BaseUnits(b)))
        res["qmul %s|%s" % (a, b)] = guard(lambda: str(Quantity(2, a) * Quantity(3, b)))
        res["qdiv %s|%s" % (a, b)] = guard(lambda: str(Quantity(2, a) / Quantity(3, b)))
    for a in ["kg*m2/s2", "km", "m1:2", "cm-3"]:
        for p in [2, -1, 0.5, (1, 3), Fraction(3, 2), 0]:
            res["pow %s|%r" % (a, p)] = guard(lambda: show(BaseUnits(a) * p))
            res["root %s|%r" % (a, p)] = guard(lambda: show(BaseUnits(a) / p))
            res["qpow %s|%r" % (a, p)] = guard(lambda: str(Quantity(3, a) ** p))
    for a, b in [("km", "m"), ("J", "erg"), ("km/h", "m/s"), ("eV", "J"), ("m", "s"), ("deg", "rad"), ("l", "dm3"), ("kg1:2", "g1:2")]:
        res["conv %s|%s" % (a, b)] = guard(lambda: fnum(Quantity(1, a).to(b).value()))
    for dims in [[1, 0, -2, 0, 0, 0, 0, 0], [0, (1, 2), 0, 0, 0, 0, 0, 0], [0] * 8]:
        res["bulist %r" % (dims,)] = guard(lambda: show(BaseUnits(dims)))
        res["dimlist %r" % (dims,)] = guard(lambda: (str(Dimensions.from_list(dims)), Dimensions.from_list(dims).nodim))
    res["budict"] = guard(lambda: show(BaseUnits({"k:m": 2, "s": (-1, 2), "g": 0})))
    res["rebase"] = guard(lambda: str(Quantity(1, "km*m*cm-1").rebase()))
    return res

result = {
    "quantity": {e: probe_quantity(e) for e in EXPRESSIONS},
    "solver": {e: probe_solver(e) for e in EXPRESSIONS},
    "atom": {e: probe_atom(e) for e in EXPRESSIONS + ["1", "-1", "1.5", "2e3", "1e-3", ".", "1.2.3", "e5", "1e+5", "--1"]},
    "baseunits": {e: probe_baseunits(e) for e in EXPRESSIONS},
    "base": {"%s|%r" % (u, x): probe_base(u, x) for u in UNITIDS for x in EXPS},
    "fraction": probe_fraction(),
    "arith": probe_arith(),
}
json.dump(result, sys.stdout, sort_keys=True, default=repr)
'''


def run(root):
    env = {k: v for k, v in os.environ.items() if k not in ("PYTHONPATH", "PYTHONSTARTUP")}
    env["PYTHONDONTWRITEBYTECODE"] = "1"
    proc = subprocess.run([sys.executable, "-c", PROBE, root], capture_output=True, text=True, env=env, cwd="/")
    if proc.returncode != 0:
        sys.stderr.write("probe failed for %s:\n%s\n" % (root, proc.stderr[-4000:]))
        sys.exit(2)
    return json.loads(proc.stdout)


def flatten(obj, prefix=""):
    if isinstance(obj, dict):
        for k in sorted(obj):
            yield from flatten(obj[k], prefix + "/" + str(k))
    else:
        yield prefix, obj


def main():
    if len(sys.argv) != 3:
        sys.stderr.write(__doc__)
        sys.exit(2)
    base = os.path.abspath(sys.argv[1])
    new = os.path.abspath(sys.argv[2])
    a = dict(flatten(run(base)))
    b = dict(flatten(run(new)))
    bad = 0
    for key in sorted(set(a) | set(b)):
        if a.get(key, "<missing>") != b.get(key, "<missing>"):
            bad += 1
            if bad <= 25:
                print("DIFF %s\n   base: %r\n   new:  %r" % (key, a.get(key, "<missing>"), b.get(key, "<missing>")))
    ok_count = sum(1 for v in a.values() if isinstance(v, list) and v and v[0] == "ok")
    print("compared %d observations (%d from non-raising probes in base); %d differences" % (len(a), ok_count, bad))
    sys.exit(1 if bad else 0)


if __name__ == "__main__":
    main()
