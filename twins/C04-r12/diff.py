#!/venv/bin/python
"""Differential check: diff.py <unmodified tree root> <refactored tree root>

Runs the same conversion scenarios (property C04: linear conversion is exact,
reversible and dimension-safe) against each tree in its own subprocess and
exits 0 iff every observable (value repr, unit expression, error, raised
exception type) is identical.
"""
import json
import os
import subprocess
import sys

WORKER = r'''
import sys, json
root = sys.argv[1]
sys.path.insert(0, root + '/src')
import numpy as np
from decimal import Decimal
import scinumtools
from scinumtools.units import Quantity, Unit, Constant
from scinumtools.units.base_units import BaseUnits, get_unit_base
from scinumtools.units.fraction import Fraction
from scinumtools.units.dimensions import Dimensions
from scinumtools.units.magnitude import Magnitude
from scinumtools.units.unit_types import StandardUnitType, TemperatureUnitType, LogarithmicUnitType

assert scinumtools.__file__.startswith(root), scinumtools.__file__

def show(v):
    if isinstance(v, np.ndarray):
        return ['ndarray', str(v.dtype), [show(x) for x in v.tolist()]]
    if isinstance(v, Magnitude):
        return ['Magnitude', show(v.value), show(v.error)]
    if isinstance(v, Quantity):
        return ['Quantity', show(v.magnitude), v.baseunits.expression, str(v.baseunits), str(v)]
    if isinstance(v, (list, tuple)):
        return [type(v).__name__, [show(x) for x in v]]
    if isinstance(v, dict):
        return ['dict', [[show(k), show(x)] for k, x in v.items()]]
    return [type(v).__name__, repr(v)]

out = []
def case(label, fn):
    try:
        res = ['ok', show(fn())]
    except BaseException as e:
        res = ['raise', type(e).__name__, [repr(a) for a in e.args]]
    out.append([label, res])

# ---- same-dimension linear conversion: to(), value(), both in one go
PAIRS = [
    ('m', 'km'), ('km', 'm'), ('cm', 'nm'), ('m', 'cm'), ('m', 'pc'), ('ly', 'au'),
    ('g', 'kg'), ('kg', 'g'), ('kg', 'lb'), ('oz', 'mg'), ('s', 'h'), ('day', 'ms'), ('yr', 's'),
    ('J', 'erg'), ('eV', 'J'), ('keV', 'erg'), ('cal', 'J'), ('N', 'dyn'), ('Pa', 'bar'), ('atm', 'kPa'),
    ('W', 'erg/s'), ('km/s', 'm/s'), ('m/s', 'km/h'), ('kg*m2/s2', 'J'), ('kg*m2*s-2', 'erg'),
    ('m3', 'l'), ('l', 'cm3'), ('deg', 'rad'), ('rad', 'deg'), ('Hz', 's-1'), ('G', 'T'),
    ('g/cm3', 'kg/m3'), ('m1:2', 'cm1:2'), ('C', 'A*s'), ('V', 'kg*m2*s-3*A-1'),
    ('[c]', 'km/s'), ('[k]', 'J/K'), ('[m_e]', 'g'), ('K', 'degR'), ('mol', 'mmol'),
    ('Ym', 'ym'), ('ym', 'Ym'), ('%', 'ppm'), ('km2', 'ha'), ('dm3', 'l'),
]
VALUES = [0.0, 1.0, -1.0, 2.5, -3.75e-7, 1e300, -1e300, 5e-324, 1e-300, 123456789.123456789, 7, -0.0]
for u, v in PAIRS:
    for x in VALUES:
        case(f'to {x!r} {u}->{v}', lambda: Quantity(x, u).to(v))
        case(f'value {x!r} {u}->{v}', lambda: Quantity(x, u).value(v))
        case(f'roundtrip {x!r} {u}->{v}->{u}', lambda: Quantity(x, u).to(v).to(u))
    case(f'array {u}->{v}', lambda: Quantity(np.array([0.0, 1.0, -2.5, 1e10, 3e-12]), u).to(v))
    case(f'intarray {u}->{v}', lambda: Quantity(np.array([0, 1, -2, 40]), u).to(v))
    case(f'list {u}->{v}', lambda: Quantity([1.5, 2.5, -4.0], u).to(v))
    case(f'array value dtype {u}->{v}', lambda: Quantity(np.array([1.0, 20.0]), u).value(v, dtype=int))
    case(f'error {u}->{v}', lambda: Quantity(12.5, u, abse=0.25).to(v))
    case(f'error arr {u}->{v}', lambda: Quantity(np.array([12.5, 3.0]), u, abse=np.array([0.25, 0.5])).to(v))
    case(f'decimal {u}->{v}', lambda: Quantity(Decimal('1.25'), u).to(v))

# ---- conversion through an intermediate unit
TRIPLES = [('m', 'km', 'cm'), ('J', 'erg', 'eV'), ('kg', 'g', 'lb'), ('s', 'h', 'day'),
           ('Pa', 'bar', 'atm'), ('m/s', 'km/h', 'cm/s'), ('l', 'm3', 'cm3'), ('pc', 'ly', 'au')]
for a, b, c in TRIPLES:
    for x in (1.0, -7.25, 3e120, 4e-200):
        case(f'via {x!r} {a}->{b}->{c}', lambda: Quantity(x, a).to(b).to(c))
        case(f'direct {x!r} {a}->{c}', lambda: Quantity(x, a).to(c))

# ---- reciprocal dimensions, bare number to radians
for u, v in [('s', 'Hz'), ('Hz', 's'), ('ms', 'kHz'), ('m', 'm-1'), ('cm-1', 'm'), ('s-1', 'h'),
             ('m/s', 's/km'), ('kg', 'g-1')]:
    for x in (1.0, 4.0, -0.125, 0.0, 1e200, np.array([1.0, 2.0, 8.0])):
        case(f'inverse {x!r} {u}->{v}', lambda: Quantity(x, u).to(v))
        case(f'inverse value {x!r} {u}->{v}', lambda: Quantity(x, u).value(v))
for x in (0.0, 1.0, -3.5, 1e-310, np.array([1.0, 2.0])):
    case(f'bare->rad {x!r}', lambda: Quantity(x).to('rad'))
    case(f'bare->mrad {x!r}', lambda: Quantity(x).to('mrad'))
    case(f'bare->deg {x!r}', lambda: Quantity(x).to('deg'))
    case(f'bare->m {x!r}', lambda: Quantity(x).to('m'))
    case(f'rad->bare {x!r}', lambda: Quantity(x, 'rad').to(None))

# ---- refused conversions leave the quantity untouched
for u, v in [('m', 's'), ('kg', 'm'), ('J', 'W'), ('m', 'm2'), ('s', 'm-1'), ('Pa', 'N'), ('rad', 'm'),
             ('m', 'rad'), ('km/s', 'kg'), ('m', 'nosuchunit'), ('m', 'K'), ('m', 'Cel'), ('m*s', 'Cel'),
             ('m', 'dB'), ('kg', 'dBm'), ('m', None), (None, 'm')]:
    def refused():
        q = Quantity(3.5, u, abse=0.5)
        try:
            q.to(v)
            status = 'converted'
        except Exception as e:
            status = type(e).__name__
        return [status, q]
    case(f'refused to {u}->{v}', refused)
    case(f'refused value {u}->{v}', lambda: Quantity(3.5, u).value(v))
    case(f'refused raw {u}->{v}', lambda: Quantity(3.5, u).to(v))

# ---- other accepted argument kinds of to()
case('to Quantity', lambda: Quantity(5.0, 'km').to(Quantity(2.0, 'm')))
case('to Quantity bad', lambda: Quantity(5.0, 'km').to(Quantity(2.0, 's')))
case('to Unit', lambda: Quantity(5.0, 'km').to(Unit('cm')))
case('to BaseUnits', lambda: Quantity(5.0, 'km').to(BaseUnits('cm')))
case('to dict', lambda: Quantity(5.0, 'km').to({'c:m': 1}))
case('to dict2', lambda: Quantity(5.0, 'km/s').to({'m': 1, 's': -1}))
case('to list', lambda: Quantity(5.0, 'km').to([1, 0, 0, 0, 0, 0, 0, 0]))
case('to Dimensions', lambda: Quantity(5.0, 'km').to(Dimensions(m=1)))
case('to int', lambda: Quantity(5.0, 'km').to(3))
case('value dtype', lambda: Quantity(5.25, 'km').value('m', dtype=int))
case('value none', lambda: Quantity(5.25, 'km').value())
case('add', lambda: Quantity(1.0, 'km') + Quantity(5.0, 'm'))
case('sub', lambda: Quantity(1.0, 'km') - Quantity(5.0, 'cm'))
case('add bad', lambda: Quantity(1.0, 'km') + Quantity(5.0, 's'))
case('rebase', lambda: Quantity(2.0, 'km*cm*m/s').rebase())

# ---- offset / logarithmic conversions share the dispatcher (must be untouched too)
for u, v in [('K', 'Cel'), ('Cel', 'K'), ('degF', 'Cel'), ('Cel', 'degF'), ('degR', 'degF'), ('K', 'degF'),
             ('Cel', 'Cel'), ('Cel', 'm'), ('Cel/s', 'K/s'), ('W', 'dBm'), ('dBm', 'W'), ('dBm', 'dBW'),
             ('Np', 'dB'), ('dB', 'Np'), ('PR', 'dB'), ('AR', 'Np'), ('V', 'dBV'), ('dB', 'dB'), ('dBm', 'V')]:
    for x in (1.0, 23.0, 0.5):
        case(f'nonlinear {x!r} {u}->{v}', lambda: Quantity(x, u).to(v))
    case(f'nonlinear err {u}->{v}', lambda: Quantity(10.0, u, abse=0.5).to(v))

# ---- lower level pieces: factors, dimensions, dispatch
for uid in ['m', 'k:m', 'c:m', 'g', 'k:g', 'J', 'eV', 'erg', 'Hz', 'rad', 'deg', '[c]', '[m_e]', 'K', 'Cel', 'B',
            '#SLEN', '#SMAS', '#SENE', 'x:y:z', 'q:m', 'nosuch', '']:
    for e in (None, Fraction(1), Fraction(2), Fraction(-1), Fraction(1, 2), Fraction(-3, 2), Fraction(4, 2), Fraction(0)):
        def ub():
            b = get_unit_base(uid, e)
            return [b.magnitude, b.dimensions.value(dtype=dict), b.units, b.expression, str(e)]
        case(f'get_unit_base {uid} {e}', ub)
for expr in ['m', 'km', 'kg*m2/s2', 'erg', 'cm-1', 'km1:2', 'Hz', 'rad', None, 'J/K', '[c]2', 'mm3', 'm*m-1']:
    def bu():
        b = BaseUnits(expr)
        return [b.magnitude, b.dimensions.value(dtype=dict), b.units, b.expression, b.nobase, b.nodim, b.value()]
    case(f'BaseUnits {expr}', bu)
for cls in (StandardUnitType, TemperatureUnitType, LogarithmicUnitType):
    for u, v in [('m', 'km'), ('s', 'Hz'), (None, 'rad'), (None, 'mrad'), (None, 'deg'), ('m', 's'), ('rad', None),
                 ('K', 'Cel'), ('W', 'dBm'), ('m2', 'm-2'), (None, None), ('m*Cel', 'K')]:
        def disp():
            t = cls(BaseUnits(u), BaseUnits(v))
            if t is None:
                return None
            return [type(t).__name__, t.conversion, t.convert(Magnitude(2.0)), t.convert(Magnitude(2.0, 0.5)),
                    t.convert(Magnitude(np.array([2.0, 4.0]), np.array([0.5, 0.1]))),
                    sorted(k for k in vars(t))]
        case(f'dispatch {cls.__name__} {u}->{v}', disp)
def broken():
    t = StandardUnitType(BaseUnits('m'), BaseUnits('km'))
    t.conversion = ('_convert_missing',)
    return t.convert(Magnitude(1.0))
case('missing method', broken)
case('decimal factor', lambda: StandardUnitType(BaseUnits('m'), BaseUnits('km')).convert(Magnitude(Decimal('2.5'))))
case('decimal factor err', lambda: StandardUnitType(BaseUnits('m'), BaseUnits('km')).convert(Magnitude(Decimal('2.5'), 0.5)))
q = Quantity(1.0, 'm')
case('_convert ok', lambda: q._convert(Magnitude(3.0), BaseUnits('km'), BaseUnits('cm')))
case('_convert bad', lambda: q._convert(Magnitude(3.0), BaseUnits('km'), BaseUnits('s')))
case('_convert bad none', lambda: q._convert(Magnitude(3.0), BaseUnits('km'), BaseUnits()))

json.dump(out, sys.stdout)
'''


def run(root):
    p = subprocess.run([sys.executable, '-W', 'ignore', '-c', WORKER, root],
                       capture_output=True, text=True, cwd='/')
    if p.returncode != 0:
        print('worker failed for', root, file=sys.stderr)
        print(p.stderr, file=sys.stderr)
        sys.exit(2)
    return json.loads(p.stdout)


def main():
    a = run(os.path.abspath(sys.argv[1]))
    b = run(os.path.abspath(sys.argv[2]))
    bad = 0
    if len(a) != len(b):
        print('different number of cases', len(a), len(b))
        bad += 1
    for (la, ra), (lb, rb) in zip(a, b):
        if la != lb or ra != rb:
            bad += 1
            print('DIFF', la, '\n   base:', ra, '\n   new: ', rb)
    raised = sum(1 for _, r in a if r[0] == 'raise')
    print(f'{len(a)} cases ({raised} raising), {bad} differences')
    sys.exit(1 if bad else 0)


if __name__ == '__main__':
    main()
