#!/venv/bin/python
"""Differential check for C03 refactoring r3 (Fraction.rebase: duplicate sign branches merged, nested reduce hoisted).

usage: diff.py <unmodified tree root> <refactored tree root>
Runs the same unit expressions against both trees (each in its own subprocess with its
own sys.path) and exits 0 iff every observable (factor, dimension vector, rendered
expression, re-parsed units, raised exception type) is identical.
"""
import json
import subprocess
import sys

INPUTS = [
    # plain symbols, prefixes, exponents
    "m", "km", "kg", "mg", "ug", "s", "ms", "GHz", "J", "kJ", "eV", "MeV", "erg", "N",
    "m2", "cm-3", "s-1", "m1:2", "kg3:2", "s-1:2", "m+2",
    # exponents that need normalising (common divisors, negative denominators, zero)
    "m2:4", "m-6:4", "m6:-4", "m-6:-4", "s0", "s0:5", "m4:2", "kg-9:3", "m12:18*s-10:4", "m1:2*m1:2",
    "m1:3/m1:3", "(m1:2)/(s3:2)", "m2:1", "cm10:100", "m1:0", "m0:0", "kg1:2*kg-1:2*s", "m1:-2",
    # products / quotients / parentheses / numeric factors
    "kg*m2/s2", "kg*m2*s-2", "m/s", "m/s/s", "(m/s)/s", "m/(s*s)", "km/(h*s)",
    "1/s", "2*m", "1e3*g", "0.5*km", "10*(m/s)2", "(kg*m)/(s2*A)", "N*m/(J)",
    "cm*cm*cm", "m*m-1", "g/g", "mol/l", "cd*sr", "rad*deg", "K/s", "Cel", "degF",
    # constants and quantity-style symbols
    "[c]", "[h]/[k]", "[G]*kg2/m2", "[e]", "[m_e]*[c]2", "#m", "#m2*#s-1",
    # ambiguous suffix resolution (longest base wins)
    "min", "mmin", "cd", "mcd", "Pa", "hPa", "au", "AU", "dag", "dam", "pc", "kpc", "Mpc",
    # rejected: unknown symbol, inadmissible prefix, foreign characters
    "xyz", "foo*m", "m*bar2x", "kCel", "kmin", "kdeg", "k[c]", "Xm", "xkm", "!m", "m!",
    "?kg", "qqs", "9m", "k", "km*", "", " ", "m**2", "m^2", "kkm", "ddag", "m2:x", "m:2",
]

WORKER = r'''
import sys, json
sys.path.insert(0, sys.argv[1] + "/src")
import numpy as np
from scinumtools.units import Quantity
from scinumtools.units.unit_solver import UnitSolver, AtomParser
from scinumtools.units.base_units import BaseUnits, get_unit_base

def observe(expr):
    out = {}
    try:
        atom = UnitSolver(expr)
        out["atom"] = [repr(atom.magnitude), sorted((k, str(v)) for k, v in atom.baseunits.items())]
    except BaseException as e:
        out["atom"] = "EXC:" + type(e).__name__
    try:
        a = AtomParser(expr)
        out["parser"] = [repr(a.magnitude), sorted((k, str(v)) for k, v in a.baseunits.items())]
    except BaseException as e:
        out["parser"] = "EXC:" + type(e).__name__
    try:
        bu = BaseUnits(expr)
        out["base"] = [repr(bu.magnitude), str(bu.dimensions), bu.expression, bu.units, bu.nodim, bu.nobase, str(bu)]
    except BaseException as e:
        out["base"] = "EXC:" + type(e).__name__
    try:
        q = Quantity(1, expr)
        text = q.units()
        out["quantity"] = [repr(q.value()), text, str(q), str(q.baseunits.dimensions), repr(q.baseunits.magnitude)]
        q2 = Quantity(1, text) if text is not None else Quantity(1)
        out["roundtrip"] = [q2.units(), str(q2.baseunits), q2.baseunits == q.baseunits, repr(q2.value())]
    except BaseException as e:
        out["quantity"] = "EXC:" + type(e).__name__
    return out

from scinumtools.units.fraction import Fraction

PAIRS = [(0, 1), (0, -3), (0, 5), (1, 1), (-1, 1), (1, -1), (-1, -1), (2, 4), (-2, 4), (2, -4), (-2, -4),
         (6, 3), (-6, 3), (6, -3), (-6, -3), (12, 18), (-12, 18), (12, -18), (-12, -18), (7, 13), (7, -13),
         (100, 10), (3, 1), (3, -1), (1000000, 4000), (-1000000, -4000), (1, 0), (-1, 0), (0, 0), (5, 0)]

def observe_fraction(n, d):
    out = {}
    for name, fn in [
        ("rebase", lambda f: (f.rebase(), [f.num, f.den, type(f.num).__name__, type(f.den).__name__])[1]),
        ("str", lambda f: [str(f), f.num, f.den]),
        ("repr", lambda f: [repr(f), f.num, f.den]),
        ("tuple", lambda f: [repr(f.value()), f.num, f.den]),
        ("float", lambda f: repr(f.value(dtype=float))),
        ("neg", lambda f: str(-f)),
        ("add", lambda f: str(f + Fraction(1, 2))),
        ("sub", lambda f: str(f - (1, -3))),
        ("mul", lambda f: str(f * Fraction(-2, 4))),
        ("mulf", lambda f: str(f * 0.5)),
        ("div", lambda f: str(f / Fraction(3, -6))),
        ("divi", lambda f: str(f / -2)),
        ("eq", lambda f: [f == Fraction(1, 2), f == Fraction(-1, -2), f == Fraction(0, 7)]),
    ]:
        try:
            out[name] = fn(Fraction(n, d))
        except BaseException as e:
            out[name] = "EXC:" + type(e).__name__
    return out

inputs = json.loads(sys.stdin.read())
result = [observe(x) for x in inputs]
result.append({"fraction": {f"{n}/{d}": observe_fraction(n, d) for n, d in PAIRS}})
print(json.dumps(result, sort_keys=True))
'''


def run(root):
    p = subprocess.run([sys.executable, "-c", WORKER, root], input=json.dumps(INPUTS),
                       capture_output=True, text=True)
    if p.returncode != 0:
        print("worker failed for", root, "\n", p.stderr)
        sys.exit(2)
    return json.loads(p.stdout)


def main():
    a, b = run(sys.argv[1]), run(sys.argv[2])
    bad = 0
    if len(a) != len(b):
        print("result length differs"); sys.exit(1)
    for expr, x, y in zip(INPUTS + ["<direct Fraction calls>"], a, b):
        if x != y:
            bad += 1
            print("DIFF", repr(expr), "\n   base:", x, "\n   new :", y)
    print(f"{len(INPUTS)} expressions + 30x13 direct Fraction observations, {bad} differing")
    sys.exit(1 if bad else 0)


if __name__ == "__main__":
    main()
