#!/venv/bin/python
"""Differential check: run the same Quantity-arithmetic probes against two trees.

usage: diff.py <unmodified tree root> <refactored tree root>
exit 0 iff every observable output (values, units, exception types) is identical.
"""
import json
import subprocess
import sys

PROBE = r'''
import sys, json, warnings
warnings.filterwarnings("ignore")
sys.path.insert(0, sys.argv[1] + "/src")
import numpy as np
from scinumtools.units import Quantity, Unit
from scinumtools.units.fraction import Fraction
from scinumtools.units.base_units import BaseUnits
from scinumtools.units.dimensions import Dimensions
from scinumtools.units.unit_types import StandardUnitType

def show(q):
    if isinstance(q, Quantity):
        v = q.magnitude.value
        v = [repr(float(x)) for x in np.ravel(v)] if isinstance(v, np.ndarray) else repr(float(v))
        e = q.magnitude.error
        if e is not None:
            e = [repr(float(x)) for x in np.ravel(e)] if isinstance(e, np.ndarray) else repr(float(e))
        return {"value": v, "error": e, "units": q.units(),
                "base": {k: str(x) for k, x in q.baseunits.baseunits.items()},
                "dims": str(q.baseunits.dimensions), "str": str(q),
                "si": repr(np.ravel(q.baseunits.magnitude * np.asarray(q.magnitude.value, dtype=float)).tolist())}
    if isinstance(q, (Fraction, BaseUnits, Dimensions)):
        return str(q)
    return repr(q)

Q = Quantity
cases = {
  "add_mixed":        lambda: Q(2, "km") + Q(35, "cm"),
  "add_compound":     lambda: Q(3, "km/h") + Q(2, "m/s"),
  "sub_mixed":        lambda: Q(5, "kg") - Q(250, "g"),
  "sub_array":        lambda: Q([1., 2., 3.], "m") - Q([10., 20., 30.], "cm"),
  "radd_number":      lambda: 3 + Q(4),
  "rsub_number":      lambda: 3 - Q(0.5),
  "add_number_dim":   lambda: Q(1, "m") + 2,
  "add_wrong_dim":    lambda: Q(1, "m") + Q(1, "s"),
  "sub_wrong_dim":    lambda: Q(1, "kg*m") - Q(1, "J"),
  "mul_mixed":        lambda: Q(2, "km") * Q(3, "cm"),
  "mul_cancel":       lambda: Q(6, "km") * Q(2, "m-1"),
  "mul_cancel_cmpd":  lambda: Q(4, "J") * Q(2, "s2*kg-1*m-2"),
  "mul_hz_s":         lambda: Q(3, "kHz") * Q(2, "ms"),
  "rmul_number":      lambda: 2.5 * Q(4, "N*m"),
  "mul_array":        lambda: Q([1., 2.], "km") * Q([3., 4.], "h-1"),
  "div_mixed":        lambda: Q(6, "km") / Q(2, "h"),
  "div_cancel":       lambda: Q(6, "km") / Q(2, "km"),
  "div_cancel_mixed": lambda: Q(6, "km") / Q(2, "cm"),
  "div_partial":      lambda: Q(12, "km*s") / Q(4, "s"),
  "rdiv_number":      lambda: 1 / Q(4, "ms"),
  "neg":              lambda: -Q(3, "erg"),
  "neg_array":        lambda: -Q([1., -2.], "eV"),
  "pow_int":          lambda: Q(3, "cm") ** 3,
  "pow_negint":       lambda: Q(2, "km/s") ** -2,
  "pow_tuple":        lambda: Q(16, "m2") ** (1, 2),
  "pow_float":        lambda: Q(16, "m2") ** 0.5,
  "pow_float_third":  lambda: Q(27, "l") ** (1 / 3),
  "pow_tuple_third":  lambda: Q(27, "l") ** (1, 3),
  "pow_float_1p5":    lambda: Q(4, "cm2") ** 1.5,
  "pow_tuple_3_2":    lambda: Q(4, "cm2") ** (3, 2),
  "pow_fraction":     lambda: Q(8, "m3") ** Fraction(2, 3),
  "pow_zero":         lambda: Q(8, "m3") ** 0,
  "pow_array":        lambda: Q([4., 9.], "m2*s-2") ** 0.5,
  "pow_float_int":    lambda: Q(3, "m") ** 2.0,
  "sqrt_ufunc":       lambda: np.sqrt(Q(9, "m2")),
  "chain":            lambda: (Q(1, "kW*h") / Q(10, "min")) + Q(5, "W"),
  "chain_cancel":     lambda: (Q(2, "N") * Q(3, "m")) / Q(2, "J"),
  "rad_kept":         lambda: Q(2, "rad") * Q(3, "m"),
  "deg_nodim":        lambda: Q(180, "deg") / Q(1, "rad"),
  "percent":          lambda: Q(50, "%") * Q(4, "m") / Q(2, "m"),
  "errors_mul":       lambda: Q(2, "m", abse=0.1) * Q(3, "s", abse=0.2),
  "errors_add":       lambda: Q(2, "m", abse=0.1) + Q(30, "cm", abse=2),
  "to_conv":          lambda: (Q(3, "km") * Q(2, "h-1")).to("m/s"),
  "to_inverse":       lambda: Q(2, "s").to("Hz"),
  "to_bad":           lambda: Q(2, "s").to("m"),
  "unit_objs":        lambda: 5 * Unit("km") / Unit("h"),
  "frac_mul_frac":    lambda: Fraction(2, 3) * Fraction(3, 5),
  "frac_mul_tuple":   lambda: Fraction(2, 3) * (3, 4),
  "frac_mul_int":     lambda: Fraction(2, 3) * 4,
  "frac_mul_fint":    lambda: Fraction(2, 3) * -2.0,
  "frac_mul_float":   lambda: Fraction(2, 3) * 0.25,
  "frac_mul_npint":   lambda: Fraction(1, 2) * np.int64(3),
  "frac_mul_str":     lambda: Fraction(1, 2) * "x",
  "frac_mul_tuple3":  lambda: Fraction(1, 2) * (3, 4, 5),
  "frac_mul_tuple1":  lambda: Fraction(1, 2) * (3,),
  "frac_mul_nan":     lambda: Fraction(1, 2) * float("nan"),
  "bu_mul":           lambda: BaseUnits("kg*m2/s2") * (1, 2),
  "bu_mul_float":     lambda: BaseUnits("kg*m2/s2") * 0.5,
  "dims_mul":         lambda: Dimensions(m=Fraction(2), s=Fraction(-1)) * 1.5,
  "sut_linear":       lambda: StandardUnitType(BaseUnits("km"), BaseUnits("cm")).conversion,
  "sut_inversed":     lambda: StandardUnitType(BaseUnits("s"), BaseUnits("Hz")).conversion,
  "sut_rad":          lambda: StandardUnitType(BaseUnits(None), BaseUnits("rad")).conversion,
  "sut_none":         lambda: StandardUnitType(BaseUnits("m"), BaseUnits("s")),
  "sut_nodim_both":   lambda: StandardUnitType(BaseUnits(None), BaseUnits(None)).conversion,
  "q_from_dict":      lambda: Q(3, {"k:m": 1, "c:m": -1}),
  "q_from_dict_keep": lambda: Q(3, {"k:m": 1, "c:m": -1, "s": 2}),
  "q_from_list":      lambda: Q(3, [1, 0, -2, 0, 0, 0, 0, 0]),
  "q_from_quantity":  lambda: Q(3, Q(2, "km")),
  "q_bad_units":      lambda: Q(3, 4.5),
  "q_bad_mag":        lambda: Q("x", "m"),
  "q_rebase":         lambda: (Q(3, "km") * Q(2, "cm")).rebase(),
}
out = {}
for name, fn in cases.items():
    try:
        out[name] = show(fn())
    except BaseException as exc:
        out[name] = {"raised": type(exc).__name__}
print(json.dumps(out, sort_keys=True))
'''


def run(root):
    proc = subprocess.run([sys.executable, "-c", PROBE, root], capture_output=True, text=True)
    if proc.returncode != 0:
        print("probe failed for", root, "\n", proc.stderr)
        sys.exit(2)
    return json.loads(proc.stdout.strip().splitlines()[-1])


def main():
    base, refactored = sys.argv[1], sys.argv[2]
    a, b = run(base), run(refactored)
    bad = [k for k in sorted(set(a) | set(b)) if a.get(k) != b.get(k)]
    for k in bad:
        print("DIFF", k, "\n  base:", a.get(k), "\n  new: ", b.get(k))
    print(f"{len(a)} cases compared, {len(bad)} differ")
    sys.exit(1 if bad else 0)


if __name__ == "__main__":
    main()
