#!/usr/bin/env python
"""Differential check: run the same expression inputs against two trees.

usage: diff.py <unmodified tree root> <refactored tree root>
exit 0 iff all observable outputs (values, value types, units, raised
exception types) are identical in both trees.
"""
import json
import subprocess
import sys

RUNNER = r'''
import sys, json, warnings
warnings.filterwarnings("ignore")
sys.path.insert(0, sys.argv[1] + "/src")
import numpy as np
np.seterr(all="ignore")
from scinumtools.solver import ExpressionSolver
from scinumtools.solver.atom import AtomBase
from scinumtools.solver.operators import *

WELL = [
    "1", " 42 ", "1+2", "1 + 2", "1-2-3", "2*3+4", "2+3*4", "2*(3+4)",
    "8/4/2", "2**3**2", "-2**2", "2**-2", "-3+5", "- 3 + 5", "+3", "3--2",
    "3-+2", "3+-2", "3++2", "3---2", "2*-3", "6/-2", "-(2+3)", "(-2)**2",
    "((1+2)*(3+4))", "(((7)))", "exp(0)", "log(exp(2))", "log10(1000)",
    "sqrt(16)+1", "sin(0)+cos(0)", "tan(0)", "logb(8,2)", "pow(2,10)",
    "pow(2,pow(1+1,2))", "logb( 81 , 3 )", "exp(log(3)+log(4))",
    "sqrt((3+1)*4)", "1<2", "2<=2", "3>4", "4>=5", "1==1", "1!=1",
    "1+1==2", "2*3>5&&1<2", "0||1", "1&&0", "!0", "!1", "!!1", "! 0 && 1",
    "!1||1", "1||0&&0", "(1||0)&&0", "1<2==1", "!(1>2)", "!1==0",
    "1 + 2 * 3 ** 2 - 4 / 2 >= 10 && ! 0 || 0",
    "2*(3+(4-(5*(6-7))))", "-sqrt(4)", "-(-(-1))", "pow(-2,3)",
    "1.5e3+2", "1e-3*1e3", "3.25*4", "10/4", "1-(2-(3-4))",
    "  (  1  +  2  )  *  3  ", "log10(100)*logb(27,3)**2",
]
ILL = [
    "(1+2", "1+2)", "((1)", "sqrt(4", "exp(1,2)", "logb(8)", "pow(2)",
    "pow(1,2,3)", "1+", "*2", "1*/2", "1 2", "", "()", "2**", "&&1", "1||",
    "1<", "==1", "abc", "1+a", "sqrt()", "log(,)", "1,2", "(1,2)", "!", "1!",
    "1 + * 2", ")(", "1(2)", "(1)(2)", "2 3 +",
]

def show(v):
    if isinstance(v, AtomBase):
        val = v.value
        return ["atom", type(val).__name__, repr(val)]
    return ["other", type(v).__name__, repr(v)]

out = []
for e in WELL + ILL:
    try:
        with ExpressionSolver(AtomBase) as es:
            r = show(es.solve(e))
    except BaseException as exc:
        r = ["raise", type(exc).__name__]
    out.append([e, r])

# one solver instance reused for several solves (token buffers must reset)
es = ExpressionSolver(AtomBase)
for e in ["1+2", "(3", "4*5", "1+", "!0", "pow(2,3)-1"]:
    try:
        r = show(es.solve(e))
    except BaseException as exc:
        r = ["raise", type(exc).__name__]
    out.append(["reuse:" + e, r])

# restricted operator tables / custom step lists
ops = {'par': OperatorPar, 'mul': OperatorMul, 'truediv': OperatorTruediv, 'add': OperatorAdd}
for e in ["2*(3+4)/7", "1-2", "2**3", "(1+1)*(2+2)", "4/(1+1"]:
    try:
        with ExpressionSolver(AtomBase, ops) as es2:
            r = show(es2.solve(e))
    except BaseException as exc:
        r = ["raise", type(exc).__name__]
    out.append(["ops:" + e, r])
steps = [dict(operators=['par'], otype=Otype.ARGS),
         dict(operators=['add', 'sub'], otype=Otype.BINARY),
         dict(operators=['mul'], otype=Otype.BINARY),
         dict(operators=['mul'], otype=Otype.TERNARY)]
for e in ["2*3+4", "2+3*4", "(2+3)*4-1*2"]:
    try:
        with ExpressionSolver(AtomBase, None, steps) as es3:
            r = show(es3.solve(e))
    except BaseException as exc:
        r = ["raise", type(exc).__name__]
    out.append(["steps:" + e, r])

# units built on top of the solver (values and units)
from scinumtools.units import Quantity
for args in [(1, "m"), (2, "km/s"), (3, "kg*m2/s2"), (1, "(m/s)2"), (5, "N*m"), (1, "m*"), (1, "(m")]:
    try:
        r = ["quantity", str(Quantity(*args))]
    except BaseException as exc:
        r = ["raise", type(exc).__name__]
    out.append(["unit:" + args[1], r])
try:
    r = ["quantity", str(Quantity(2, "km").to("m"))]
except BaseException as exc:
    r = ["raise", type(exc).__name__]
out.append(["unit:convert", r])

# DIP numerical / logical solvers built on top of the solver (values and units)
from scinumtools.dip.solvers import NumericalSolver, LogicalSolver
with NumericalSolver() as ns:
    for e in ["2 + 4 - 3", "1 - -3 + -4", "34 cm + 4 mm", "10 m * 2 cm", "(2 m + 3 m) * 4",
              "10 m2 / 200 cm", "pow(2 m, 2)", "sqrt(16 m2)", "10 m + 1 J", "(1 m + 2", "3 m *"]:
        try:
            v = ns.solve(e)
            r = ["num", type(v).__name__, str(v)]
        except BaseException as exc:
            r = ["raise", type(exc).__name__]
        out.append(["dipnum:" + e, r])
with LogicalSolver() as ls:
    for e in ["true && false", "true || false", "!false", "1 < 2 && 3 >= 3", "(true || false) && !true",
              "1 cm == 10 mm", "true &&", "(true"]:
        try:
            v = ls.solve(e)
            r = ["log", type(v).__name__, str(getattr(v, "value", v))]
        except BaseException as exc:
            r = ["raise", type(exc).__name__]
        out.append(["diplog:" + e, r])

print(json.dumps(out))
'''


def run(root):
    p = subprocess.run([sys.executable, "-c", RUNNER, root],
                       capture_output=True, text=True, timeout=300)
    if p.returncode != 0:
        print("runner failed for", root, file=sys.stderr)
        print(p.stderr, file=sys.stderr)
        sys.exit(2)
    return json.loads(p.stdout.strip().splitlines()[-1])


def main():
    base, new = sys.argv[1], sys.argv[2]
    a, b = run(base), run(new)
    bad = 0
    if len(a) != len(b):
        print("different number of results", len(a), len(b))
        bad += 1
    for (ea, ra), (eb, rb) in zip(a, b):
        if ea != eb or ra != rb:
            bad += 1
            print("DIFF %r: base=%r new=%r" % (ea, ra, rb))
    print("%d inputs compared, %d differences" % (len(a), bad))
    sys.exit(1 if bad else 0)


if __name__ == "__main__":
    main()
