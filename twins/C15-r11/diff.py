#!/usr/bin/env python
"""Differential check for property C15 (nested @case/@else/@end selection).

usage: diff.py <unmodified tree root> <refactored tree root>

Runs the same DIP inputs against both trees (each in its own subprocess with its
own sys.path) and exits 0 iff every observable output (node names, values, units,
node flags, raised exception types and arguments) is identical.
"""
import sys, os, json, random, itertools, subprocess

RUNNER = r'''
import sys, json
root = sys.argv[1]
sys.path.insert(0, root + '/src')
import numpy as np
from scinumtools.dip import DIP
from scinumtools.dip.settings import Format
cases = json.load(sys.stdin)
out = []
def show(v):
    if isinstance(v, np.ndarray):
        return ['array', v.tolist()]
    return repr(v)
for code in cases:
    try:
        with DIP() as p:
            p.add_string(code)
            env = p.parse()
        nodes = []
        for n in env.nodes:
            val = n.value
            nodes.append([n.name, n.keyword, show(getattr(val, 'value', val)),
                          repr(getattr(val, 'unit', None)), bool(n.constant),
                          repr(n.branch_id), repr(n.case_id)])
        data = env.data(Format.TUPLE)
        data = {k: repr(v) for k, v in data.items()}
        br = env.branching
        struct = [list(br.state),
                  {b: [list(x.cases), list(x.types), dict(x.nodes)] for b, x in br.branches.items()},
                  {c: [x.path, repr(x.value), x.branch_id, x.branch_part, x.case_type, x.indent]
                   for c, x in br.cases.items()},
                  br.num_cases, br.num_branches]
        out.append(['ok', nodes, data, struct])
    except BaseException as e:
        out.append(['exc', type(e).__name__, [repr(a) for a in e.args]])
print(json.dumps(out))
'''

FIXED = [
    # misplaced clauses
    "@end\n",
    "@else\n  car str = 'BMW'\n",
    "@case true\n  @end\n",
    "a int = 1\n@case true\n  b int = 2\n@end\n@end\n",
    "a int = 1\n@case true\n  b int = 2\n@end\n@else\n  c int = 3\n",
    "@case true\n  b int = 2\n  @else\n    c int = 3\n",
    "grp\n  @case false\n    x int = 1\n@else\n  x int = 2\n",
    # nesting, explicit ends
    "@case false\n  f str = 'rose'\n@else\n  f str = 'dandelion'\n  @case false\n    c str = 'red'\n"
    "  @case false\n    c str = 'blue'\n  @else\n    @case true\n      l int = 234\n    c str = 'yellow'\nt str = 'maple'\n",
    # modifications in and after blocks
    "star str = 'Sun'\n\n@case false\n  star = 'Sirius'\n  neb str = 'Orion'\n@else\n  star = 'Wega'\n"
    "  neb str = 'Crab'\n\nneb = 'Eagle'\n",
    # closed by indentation inside a group
    "climate\n  @case true\n    warming bool = true\n      increase float = 2 Cel\n\n  temperature float = 10.2 Cel\n",
    "plant\n  @case true\n    leaves int = 1302\n  @case false\n    leaves int = 12304\n  @end\n",
    # compact names
    "plant.@case false\n    flower str = 'green'\nplant.@case true\n    flower str = 'yellow'\n"
    "plant.@else\n    flower str = 'red'\n",
    "plant.@case false\n    flower str = 'green'\nplant.@case false\n    flower str = 'yellow'\n"
    "plant.@case true\n    flower str = 'red'\nplant.@else\n    flower str = 'blue'\n",
    # expressions
    "t\n  limit float = 75 km/s\n  urban bool = true\n  @case (\"{?t.limit} <= 50 km/s || {?t.urban}\")\n"
    "    road str = 'town'\n  @case (\"{?t.limit} > 50 km/s && !{?t.urban}\")\n    road str = 'country'\n"
    "  @else\n    road str = 'motorway'\n  @end\n  cars int = 12\n",
    "sim\n  g bool = false\n  @case (\"{?sim.g}\")\n    stars int = 30\n  @end\n",
    # properties inside and after blocks
    "g bool = false\n@case (\"{?g}\")\n  stars int = 30\n    !constant\n@end\nrad bool = true\n  !constant\n",
    "g bool = true\n@case (\"{?g}\")\n  stars int = 30\n    !constant\n    !options [10,30]\n@else\n"
    "  stars int = 5\n@end\nrad float = 3 cm\n  !constant\n",
    # modification of a constant defined in a selected clause
    "@case true\n  k int = 1\n    !constant\n@end\nk = 2\n",
    "@case false\n  k int = 1\n    !constant\n@end\nk int = 2\n",
    # two true clauses, only the first counts; node after first block, second block
    "@case true\n  a int = 1\n@case true\n  a int = 2\n@else\n  a int = 3\n@end\nb int = 4\n"
    "@case false\n  c int = 5\n@else\n  c int = 6\n@end\n",
    # nested blocks closed by one de-indentation
    "top\n  @case true\n    mid\n      @case true\n        deep int = 1\n      @else\n        deep int = 2\nafter int = 3\n",
    "top\n  @case true\n    mid\n      @case false\n        deep int = 1\n          !constant\nafter int = 3\n  sub float = 2 m\n",
    # clause at the indent of an enclosing body node
    "@case true\n  a int = 1\n  @case false\n    b int = 2\n  c int = 3\n@else\n  a int = 4\n  c int = 5\nd int = 6\n",
    # undefined value inside an unselected clause vs selected clause
    "@case false\n  a int\n@end\nb int = 1\n",
    "@case true\n  a int\n@end\nb int = 1\n",
]


def gen_block(rng, depth, indent, counter, explicit_end):
    """Generate a random (possibly nested) case block as a list of lines."""
    pad = ' ' * indent
    lines = []
    nclauses = rng.randint(1, 3)
    has_else = rng.random() < 0.6
    for i in range(nclauses):
        lines.append(f"{pad}@case {rng.choice(['true', 'false'])}")
        lines += gen_body(rng, depth, indent + 2, counter)
    if has_else:
        lines.append(f"{pad}@else")
        lines += gen_body(rng, depth, indent + 2, counter)
    if explicit_end:
        lines.append(f"{pad}@end")
    return lines


def gen_body(rng, depth, indent, counter):
    pad = ' ' * indent
    lines = []
    for _ in range(rng.randint(1, 3)):
        kind = rng.random()
        if kind < 0.35 and depth > 0:
            lines += gen_block(rng, depth - 1, indent, counter, rng.random() < 0.5)
            # a node after the nested block terminates it when not ended explicitly
            counter[0] += 1
            lines.append(f"{pad}n{counter[0]} int = {counter[0]}")
        elif kind < 0.55:
            lines.append(f"{pad}shared = {rng.randint(10, 99)}")
        elif kind < 0.75:
            counter[0] += 1
            lines.append(f"{pad}n{counter[0]} float = {counter[0]} cm")
            lines.append(f"{pad}  !constant")
        else:
            counter[0] += 1
            lines.append(f"{pad}n{counter[0]} int = {counter[0]}")
    return lines


def generated(n=60, seed=1515):
    rng = random.Random(seed)
    progs = []
    for _ in range(n):
        counter = [0]
        lines = ["shared int = 1", "before str = 'b'"]
        for _ in range(rng.randint(1, 2)):
            lines += gen_block(rng, rng.randint(0, 3), 0, counter, rng.random() < 0.5)
            counter[0] += 1
            lines.append(f"between{counter[0]} int = {counter[0]}")
        lines.append("after float = 1.5 m")
        progs.append("\n".join(lines) + "\n")
    return progs


def truth_tables():
    """Every truth assignment of a fixed 2-level nesting, explicit and implicit closing."""
    progs = []
    for a, b, c, d in itertools.product(['true', 'false'], repeat=4):
        for end in (True, False):
            p = (f"pre int = 0\n@case {a}\n  x int = 1\n  @case {c}\n    y int = 11\n  @case {d}\n    y int = 12\n"
                 f"  @else\n    y int = 13\n" + ("  @end\n" if end else "") +
                 f"  z int = 1\n@case {b}\n  x int = 2\n  @case {d}\n    y int = 21\n" + ("  @end\n" if end else "") +
                 f"  z int = 2\n@else\n  x int = 3\n  z int = 3\n" + ("@end\n" if end else "") + "post int = 9\n")
            progs.append(p)
    return progs


def run(root, cases):
    r = subprocess.run([sys.executable, '-c', RUNNER, root], input=json.dumps(cases),
                       capture_output=True, text=True)
    if r.returncode != 0:
        print(r.stderr)
        raise SystemExit(2)
    return json.loads(r.stdout.strip().splitlines()[-1])


def main():
    base, new = os.path.abspath(sys.argv[1]), os.path.abspath(sys.argv[2])
    cases = FIXED + truth_tables() + generated()
    a = run(base, cases)
    b = run(new, cases)
    bad = 0
    for code, x, y in zip(cases, a, b):
        if x != y:
            bad += 1
            print("DIFFERENCE for input:\n" + code)
            print(" base:", x)
            print(" new :", y)
    nexc = sum(1 for x in a if x[0] == 'exc')
    print(f"{len(cases)} inputs, {nexc} raising, {bad} differences")
    sys.exit(1 if bad else 0)


if __name__ == '__main__':
    main()
