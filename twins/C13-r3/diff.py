#!/venv/bin/python
"""Differential check for property C13 (DIP node paths follow indentation,
values are the literals written).

usage: diff.py <unmodified tree root> <refactored tree root>

Every input below is parsed against each tree in its own subprocess (each with
its own sys.path).  The observable result of a parse is either the ordered list
of parameters (path, keyword, dtype, precision/sign, dimension, value, unit) or
the type of the raised exception.  Exit status is 0 iff both trees give
identical observations for every input.
"""
import json
import subprocess
import sys

DRIVER = r'''
import sys, json
root = sys.argv[1]
sys.path.insert(0, root + '/src')
import numpy as np
from scinumtools.dip import DIP
import scinumtools
assert scinumtools.__file__.startswith(root), scinumtools.__file__

def plain(v):
    if isinstance(v, np.ndarray):
        return ['ndarray', v.tolist()]
    if isinstance(v, (np.generic,)):
        return [type(v).__name__, v.item()]
    if isinstance(v, (list, tuple)):
        return [plain(x) for x in v]
    if isinstance(v, float):
        return ['float', repr(v)]
    if isinstance(v, bool):
        return ['bool', v]
    if isinstance(v, int):
        return ['int', v]
    if v is None:
        return None
    return [type(v).__name__, str(v)]

def observe(code):
    try:
        with DIP() as p:
            p.add_string(code)
            env = p.parse()
    except BaseException as e:
        return {'raised': type(e).__name__}
    out = []
    for node in env.nodes:
        val = node.value
        out.append({
            'path': node.name,
            'keyword': node.keyword,
            'dtype': getattr(node.dtype, '__name__', str(node.dtype)),
            'precision': plain(getattr(node, 'precision', None)),
            'unsigned': plain(getattr(node, 'unsigned', None)),
            'dimension': plain(node.dimension),
            'indent': node.indent,
            'vtype': type(val).__name__,
            'value': plain(getattr(val, 'value', val)),
            'unit': plain(getattr(val, 'unit', None)),
            'vprecision': plain(getattr(val, 'precision', None)),
            'vunsigned': plain(getattr(val, 'unsigned', None)),
        })
    return {'nodes': out}

inputs = json.loads(sys.stdin.read())
print(json.dumps([observe(code) for code in inputs]))
'''

INPUTS = [
    # 1 flat scalars of all types
    "a bool = true\nb bool = false\nc int = 23\nd float = 2.5\ne str = bare\nf str = 'quoted text'\ng str = \"double # quoted\"",
    # 2 number notations and width / sign suffixes
    "i16 int16 = -12\nu32 uint32 = 4000000000\ni64 int64 = 9007199254740993\nu uint = 7\nf32 float32 = 1.5e3\nf64 float64 = -2.34E-5\nf128 float128 = .5\nfe float = 1e+10\nfi float = 4",
    # 3 units
    "len float = 12.5 cm\nmass int = 3 kg\nspeed float64 = 3e8 m/s\nacc float = 9.81 m/s2",
    # 4 two space indentation tree
    "box\n  size float = 3 m\n  lid\n    open bool = false\n    colour str = red\n  count int = 4\nname str = crate",
    # 5 same tree, four spaces, interleaved comments and blank lines
    "# header\nbox   # group\n\n    size float = 3 m # comment\n    # note\n    lid\n\n        open bool = false\n        colour str = red\n\n    count int = 4\n\nname str = crate # end",
    # 6 same tree, mixed widths per level (1 and 5)
    "box\n size float = 3 m\n lid\n      open bool = false\n      colour str = red\n count int = 4\nname str = crate",
    # 7 dotted names at several levels and groups with dotted names
    "a.b.c int = 1\ng.h\n  i.j float = 2.0 s\n  k\n    l.m.n str = deep\ng.x bool = true",
    # 8 nodes as parents of nodes (typed lines acting as parents)
    "parent int = 1\n  child int = 2\n    grand int = 3\n  sibling int = 4\nuncle int = 5",
    # 9 dedent over several levels at once
    "l1\n  l2\n    l3\n      l4 int = 4\n  back2 int = 2\nback0 int = 0\n      far int = 9\n   mid int = 8",
    # 10 none values, with and without unit
    "n1 int = none\nn2 float = none km\nn3 str = none\nn4 bool = none\ngrp\n  n5 float64 = none",
    # 11 inline arrays, dimensions and ranges
    "v int[3] = [1,2,3]\nm float[2,3] = [[1,2,3],[4.5,5,6]] mm\ns str[2] = [\"a\",\"b\"]\nb bool[:] = [true,false,true]\nr int[1:] = [5]\nq float[:2,2] = [[1,2],[3,4]]",
    # 12 block arrays and block strings
    'arr int[2,2] = """\n[[1,2],\n [3,4]]\n""" cm\ntxt str = """\nline one\n  line two\n"""\nafter int = 1',
    # 13 tables
    'grp\n  tab table = """\n  x int\n  y float m\n  z bool\n  w str\n\n  1 1.5 true a\n  2 2.5 false b\n  3 3.5 true "c d"\n  """\n  tail int = 0',
    # 13b tables with unindented header (valid), inside a group, with array column
    'grp\n  tab table = """\nx int\ny float m\nz bool\nw str\n\n1 1.5 true a\n2 2.5 false b\n3 3.5 true "c d"\n  """\n  tail int = 0',
    'outputs table = """\nname str\nnumbers int[3]\n\n"John Smith" [2,3,4]\n"Jennyfer Milton" [5,6,7]\n  """  # endquotes can be indented',
    # 14 array dimension violation -> exception
    "v int[3] = [1,2]",
    # 15 unrecognised type -> exception
    "x double = 1.0",
    # 16 invalid name -> exception
    "bad$name int = 3",
    # 17 unterminated block -> exception
    'x str = """\nabc\n',
    # 18 group followed by deeper nodes, tabs-free, comment only lines at odd indents
    "outer\n      # deep comment\n  inner int = 1\n # shallow comment\n  inner2 float = 2 kg\n\n\nouter2\n   x str = 'a b  c'",
    # 19 strings with escaped quotes and hash
    "s1 str = 'it\\'s'\ns2 str = \"say \\\"hi\\\"\"\ns3 str = \"# not comment\" # comment",
    # 20 negative / signed / zero literals
    "z int = 0\nnz float = -0.0\nneg int = -42 m\npos int = +5\nfz float = 0 s",
    # 21 bool with unit -> exception, string with unit -> exception
    "b bool = true m",
    "s str = abc kg",
    # 22 large mixed tree
    "sim\n  grid\n    nx int = 128\n    ny int = 64\n    dx float = 0.5 cm\n  time\n    dt float32 = 1e-3 s\n    steps uint64 = 1000000\n  out.dir str = './out'\n  out.on bool = true\nphys\n  g float = 9.81 m/s2\n  names str[3] = [\"a\",\"b\",\"c\"]",
    # 23 declaration without value -> exception
    "only int",
    # 24 slice-like dimension with exact sizes for strings in a group
    "g\n    h\n        arr float[2:3] = [1.0,2.0,3.0] K\n    arr2 int[0:] = []",
]


def run(root):
    proc = subprocess.run(
        [sys.executable, '-c', DRIVER, root],
        input=json.dumps(INPUTS), capture_output=True, text=True,
    )
    if proc.returncode != 0:
        sys.stderr.write(proc.stderr)
        raise SystemExit(2)
    return json.loads(proc.stdout.strip().splitlines()[-1])


def main():
    base, new = sys.argv[1].rstrip('/'), sys.argv[2].rstrip('/')
    a, b = run(base), run(new)
    assert len(a) == len(b) == len(INPUTS)
    bad = 0
    for i, (x, y) in enumerate(zip(a, b)):
        if x != y:
            bad += 1
            print(f"DIFF input #{i+1}:\n  base: {x}\n  new:  {y}")
    nodes = sum(len(x.get('nodes', [])) for x in a)
    raised = sum(1 for x in a if 'raised' in x)
    print(f"{len(INPUTS)} inputs, {nodes} parameters compared, {raised} raising inputs, {bad} differences")
    sys.exit(1 if bad else 0)


if __name__ == '__main__':
    main()
