#!/usr/bin/env python
"""Differential check for property C11 (number / mass fractions of composites).

usage: diff.py <unmodified tree root> <refactored tree root>
Runs the same inputs against both trees (each in its own subprocess with its own
sys.path) and exits 0 iff every observable output is identical.
"""
import json
import subprocess
import sys

WORKER = r'''
import sys, json, io, contextlib, warnings
warnings.simplefilter("ignore")
sys.path.insert(0, sys.argv[1] + "/src")
import numpy as np
from scinumtools.units import Quantity
from scinumtools.materials import Material, Substance, Norm

def show(v):
    if isinstance(v, Quantity):
        return ["Q", repr(v.value()), str(v.units())]
    if isinstance(v, (float, np.floating)):
        return ["f", repr(float(v))]
    if isinstance(v, (int, np.integer)):
        return ["i", int(v)]
    return [type(v).__name__, str(v)]

def table(pt):
    if pt is None:
        return None
    out = {}
    for key, row in pt.items():
        out[str(key)] = {str(c): show(val) for c, val in row.items()}
    return out

def describe(obj):
    res = {}
    res["expr"] = obj.expr
    res["str"] = str(obj) if obj.components else None
    res["proportion_norm"] = show(obj.proportion_norm)
    res["composite_mass"] = show(obj.composite_mass)
    res["props"] = {k: show(c.proportion) for k, c in obj.components.items()}
    for q in (True, False):
        res["components_%s" % q] = table(obj.data_components(quantity=q))
        res["composite_%s" % q] = table(obj.data_composite(quantity=q))
    first = list(obj.components.keys())[:1]
    res["composite_sel"] = table(obj.data_composite(components=first, quantity=False))
    if obj.number_density:
        res["matter"] = table(obj.data_matter(quantity=False))
        res["rho"] = show(obj.mass_density)
        res["n"] = show(obj.number_density)
    buf = io.StringIO()
    with contextlib.redirect_stdout(buf):
        obj.print()
    res["print"] = buf.getvalue()
    return res

def back_to_number(expr_dict, natural):
    # mass fractions reported for a number-fraction material, fed back in
    a = Material(expr_dict, natural=natural, norm_type=Norm.NUMBER_FRACTION)
    X = a.data_composite(quantity=False)
    b = Material({k: X[k]["X"] for k in expr_dict}, natural=natural, norm_type=Norm.MASS_FRACTION)
    return {"a": describe(a), "b": describe(b)}

AIR = {"N2": 78.0840, "O2": 20.9460, "Ar": 0.93400, "CO2": 0.03600}

CASES = {
    "nf_str":        lambda: describe(Material("0.2 <H2O> 0.3 <NaCl>")),
    "mf_str":        lambda: describe(Material("0.2 <H2O> 0.3 <NaCl>", norm_type=Norm.MASS_FRACTION)),
    "nf_str_scaled": lambda: describe(Material("20 <H2O> 30 <NaCl>")),
    "mf_str_scaled": lambda: describe(Material("2e-3 <H2O> 3e-3 <NaCl>", norm_type=Norm.MASS_FRACTION)),
    "number_str":    lambda: describe(Material("2 <H2O> 3 <NaCl>", norm_type=Norm.NUMBER)),
    "air_nf":        lambda: describe(Material(AIR, norm_type=Norm.NUMBER_FRACTION)),
    "air_mf":        lambda: describe(Material(AIR, norm_type=Norm.MASS_FRACTION)),
    "air_nf_iso":    lambda: describe(Material(AIR, natural=False, norm_type=Norm.NUMBER_FRACTION)),
    "air_mf_iso":    lambda: describe(Material(AIR, natural=False, norm_type=Norm.MASS_FRACTION)),
    "single":        lambda: describe(Material({"H2O": 7.5})),
    "single_mf":     lambda: describe(Material({"B{11}2O3": 0.25}, norm_type=Norm.MASS_FRACTION)),
    "empty":         lambda: describe(Material()),
    "roundtrip_nat": lambda: back_to_number({"H2O": 0.683815, "NaCl": 0.316185, "C6H12O6": 0.4}, True),
    "roundtrip_iso": lambda: back_to_number({"H2O": 3, "NaCl": 1, "SiO2": 11}, False),
    "add_repeat":    lambda: describe(_add_repeat()),
    "mat_plus":      lambda: describe(Material({"H2O": 1.0}) + Material({"NaCl": 2.0, "H2O": 0.5})),
    "mat_plus_sub":  lambda: describe(Material({"H2O": 1.0}, norm_type=Norm.MASS_FRACTION) + Substance("CO2", proportion=3.0)),
    "mat_rmul":      lambda: describe(4 * Material(AIR, norm_type=Norm.MASS_FRACTION)),
    "density_rho":   lambda: describe(Material(AIR, mass_density=Quantity(1.2, "kg/m3"), volume=Quantity(2, "l"))),
    "density_n":     lambda: describe(Material("1 <H2O> 3 <NaCl>", norm_type=Norm.MASS_FRACTION, number_density=Quantity(1e22, "cm-3"))),
    "density_n_nf":  lambda: describe(Material("1 <H2O> 3 <NaCl>", number_density=Quantity(1e22, "cm-3"), volume=Quantity(1, "cm3"))),
    "substance":     lambda: describe(Substance("C6H12O6")),
    "substance_iso": lambda: describe(Substance("B{11}2O3", natural=False)),
    "substance_ops": lambda: describe(Substance("H2O") * 3 + Substance("NaCl")),
    "substance_dict":lambda: describe(Substance({"H": 2, "O": 1}, mass_density=Quantity(997, "kg/m3"))),
    "bad_expr":      lambda: describe(Material("0.2 <H2O> 0.3 <Xx>")),
    "bad_dict":      lambda: describe(Material({"Qq3": 1.0})),
    "bad_prop":      lambda: describe(Material({"H2O": "a"})),
    "zero_prop":     lambda: describe(Material({"H2O": 0.0})),
}

def _add_repeat():
    m = Material(norm_type=Norm.MASS_FRACTION)
    m.add("H2O", 0.1)
    m.add("NaCl", 0.3)
    m.add("H2O", 0.4)
    return m

out = {}
for name, fn in CASES.items():
    try:
        out[name] = {"ok": fn()}
    except BaseException as e:
        out[name] = {"exc": type(e).__name__}
print("@@RESULT@@" + json.dumps(out, sort_keys=True))
'''


def run(root):
    p = subprocess.run([sys.executable, "-c", WORKER, root], capture_output=True, text=True)
    for line in p.stdout.splitlines():
        if line.startswith("@@RESULT@@"):
            return json.loads(line[len("@@RESULT@@"):])
    sys.stderr.write(p.stdout + p.stderr)
    raise SystemExit(2)


def main():
    a, b = run(sys.argv[1]), run(sys.argv[2])
    bad = [k for k in sorted(set(a) | set(b)) if a.get(k) != b.get(k)]
    nok = sum(1 for v in a.values() if "ok" in v)
    print("cases: %d (%d without exception), differing: %s" % (len(a), nok, bad))
    for k in bad:
        print(k, "\n  base:", json.dumps(a.get(k))[:600], "\n  new: ", json.dumps(b.get(k))[:600])
    sys.exit(1 if bad else 0)


if __name__ == "__main__":
    main()
