#!/venv/bin/python
"""Differential check for property C06 (Quantity arithmetic agrees with
arithmetic on base-dimension values).

usage: diff.py <unmodified tree root> <refactored tree root>

Each tree is exercised in its own subprocess (own sys.path) with the same list
of inputs; every observable (magnitude value, error, units expression, unit
exponents, dimensions, base-dimension value, string form, raised exception
type) is serialised and the two serialisations must be identical.
Exit status 0 iff identical.
"""
import json
import os
import subprocess
import sys

RUNNER = r'''
import sys, json, warnings
warnings.simplefilter("ignore")
root = sys.argv[1]
sys.path.insert(0, root + "/src")
import numpy as np
from decimal import Decimal
from scinumtools.units import Quantity, Fraction, BaseUnits, Dimensions, Magnitude
import scinumtools
assert scinumtools.__file__.startswith(root), scinumtools.__file__

def fmt(v):
    if v is None:
        return None
    if isinstance(v, np.ndarray):
        return [str(v.dtype), list(v.shape)] + [repr(float(x)) for x in v.ravel()]
    if isinstance(v, Decimal):
        return "D" + str(v)
    if isinstance(v, (bool, np.bool_)):
        return bool(v)
    if isinstance(v, (int, float, np.integer, np.floating)):
        return type(v).__name__ + ":" + repr(float(v))
    return repr(v)

def rawfrac(f):
    return [int(f.num), int(f.den)]

def describe(q):
    if isinstance(q, Quantity):
        bu = q.baseunits
        out = {}
        out["type"] = "Quantity"
        out["raw_exponents"] = {k: rawfrac(v) for k, v in bu.baseunits.items()}
        out["raw_dims"] = {n: rawfrac(getattr(bu.dimensions, n)) for n in ("m","g","s","K","C","cd","mol","rad")}
        out["value"] = fmt(q.magnitude.value)
        out["error"] = fmt(q.magnitude.error)
        out["units"] = q.units()
        out["exponents"] = repr(bu.value())
        out["order"] = list(bu.baseunits.keys())
        out["baseunits"] = repr(bu)
        out["bu_units"] = list(bu.units)
        out["bu_magnitude"] = fmt(bu.magnitude)
        out["nodim"] = bool(bu.nodim)
        out["nobase"] = bool(bu.nobase)
        out["dims"] = repr(bu.dimensions)
        out["dims_list"] = repr(bu.dimensions.value())
        try:
            out["base_value"] = fmt(q.magnitude.value * bu.magnitude)
        except Exception as e:
            out["base_value"] = "EXC:" + type(e).__name__
        out["str"] = str(q)
        return out
    if isinstance(q, (list, tuple)):
        return [describe(x) for x in q]
    if isinstance(q, (BaseUnits, Dimensions, Fraction, Magnitude)):
        return type(q).__name__ + ":" + repr(q)
    return fmt(q)

Q = Quantity
CASES = []
def case(name):
    def deco(fn):
        CASES.append((name, fn))
        return fn
    return deco

# ---- sums and differences: left operand's units, mixed units -------------
case("add_same")(lambda: Q(2, "m") + Q(3, "m"))
case("add_mixed_prefix")(lambda: Q(2, "km") + Q(30, "cm"))
case("add_mixed_rev")(lambda: Q(30, "cm") + Q(2, "km"))
case("add_table_units")(lambda: Q(1.5, "ft") + Q(2, "in"))
case("add_compound")(lambda: Q(1, "km/h") + Q(2, "m/s"))
case("add_compound2")(lambda: Q(3, "N") + Q(2, "kg*m/s2"))
case("add_energy")(lambda: Q(3, "J") + Q(2, "erg"))
case("add_energy_ev")(lambda: Q(3, "eV") + Q(2, "J"))
case("sub_same")(lambda: Q(2, "m") - Q(3, "m"))
case("sub_mixed")(lambda: Q(2, "km") - Q(30, "cm"))
case("sub_mixed_rev")(lambda: Q(30, "cm") - Q(2, "km"))
case("sub_compound")(lambda: Q(1, "kW*h") - Q(2, "MJ"))
case("add_number_right")(lambda: Q(2) + 3)
case("add_number_left")(lambda: 3 + Q(2))
case("sub_number_right")(lambda: Q(2) - 3.5)
case("sub_number_left")(lambda: 3.5 - Q(2))
case("add_number_to_unit")(lambda: Q(2, "m") + 3)
case("radd_number_to_unit")(lambda: 3 + Q(2, "m"))
case("sub_number_from_unit")(lambda: Q(2, "m") - 3)
case("rsub_number_from_unit")(lambda: 3 - Q(2, "m"))
case("add_dim_mismatch")(lambda: Q(2, "m") + Q(3, "s"))
case("sub_dim_mismatch")(lambda: Q(2, "m") - Q(3, "kg"))
case("add_dim_mismatch_compound")(lambda: Q(2, "m/s") + Q(3, "m/s2"))
case("sub_dim_mismatch_inverse")(lambda: Q(2, "s") - Q(3, "Hz"))
case("add_inverse_dims")(lambda: Q(2, "Hz") + Q(3, "s"))
case("add_array")(lambda: Q([1, 2, 3], "m") + Q([10, 20, 30], "cm"))
case("sub_array")(lambda: Q(np.array([1., 2., 3.]), "km") - Q(5, "m"))
case("add_array_number")(lambda: Q([1, 2, 3]) + 4)
case("radd_array_number")(lambda: 4 + Q([1, 2, 3]))
case("add_nparray_left")(lambda: Q([1, 2, 3], "m").__radd__(2))
case("add_rad")(lambda: Q(1, "rad") + Q(90, "deg"))
case("add_nodim_rad")(lambda: Q(1) + Q(2, "rad"))
case("add_percent")(lambda: Q(1) + Q(50, "%"))
case("add_temp_K")(lambda: Q(1, "K") + Q(2, "K"))
case("add_temp_Cel")(lambda: Q(1, "Cel") + Q(2, "Cel"))
case("add_temp_mixed")(lambda: Q(1, "K") + Q(2, "Cel"))
case("sub_temp_mixed")(lambda: Q(300, "Cel") - Q(2, "K"))
case("add_temp_compound")(lambda: Q(1, "Cel/s") + Q(2, "K"))
case("add_log_same")(lambda: Q(1, "dB") + Q(2, "dB"))
case("sub_log_same")(lambda: Q(5, "dBm") - Q(2, "dBm"))
case("add_log_diff")(lambda: Q(1, "dBm") + Q(2, "dBW"))
case("add_log_nonlog")(lambda: Q(1, "dBm") + Q(2, "W"))
case("add_errors")(lambda: Q(2, "m", abse=0.1) + Q(30, "cm", abse=2))
case("sub_errors")(lambda: Q(2, "m", rele=10) - Q(30, "cm"))
# ---- products and quotients ----------------------------------------------
case("mul_simple")(lambda: Q(2, "m") * Q(3, "s"))
case("mul_same_unit")(lambda: Q(2, "m") * Q(3, "m"))
case("mul_mixed_len")(lambda: Q(2, "km") * Q(3, "cm"))
case("mul_cancel")(lambda: Q(2, "m") * Q(3, "m-1"))
case("mul_cancel_mixed")(lambda: Q(2, "km") * Q(3, "cm-1"))
case("mul_cancel_partial")(lambda: Q(2, "km/s") * Q(3, "s"))
case("mul_compound")(lambda: Q(2, "kg*m/s2") * Q(3, "m"))
case("mul_number_right")(lambda: Q(2, "m") * 3)
case("mul_number_left")(lambda: 3 * Q(2, "m"))
case("mul_float_left")(lambda: 0.25 * Q(2, "km/h"))
case("mul_array")(lambda: Q([1, 2, 3], "m") * Q([4, 5, 6], "s-1"))
case("mul_array_number")(lambda: Q([1, 2, 3], "m") * 2.5)
case("rmul_array_number")(lambda: Q([1, 2, 3], "m").__rmul__(2.5))
case("mul_derived")(lambda: Q(2, "N") * Q(3, "Pa-1"))
case("mul_errors")(lambda: Q(2, "m", abse=0.1) * Q(3, "s", abse=0.2))
case("div_simple")(lambda: Q(6, "m") / Q(3, "s"))
case("div_same")(lambda: Q(6, "m") / Q(3, "m"))
case("div_cancel_mixed")(lambda: Q(6, "km") / Q(3, "cm"))
case("div_cancel_time")(lambda: Q(6, "h") / Q(3, "min"))
case("div_compound")(lambda: Q(6, "J") / Q(3, "kg*m/s2"))
case("div_number_right")(lambda: Q(6, "m") / 4)
case("div_number_left")(lambda: 4 / Q(8, "m"))
case("div_number_left_compound")(lambda: 1 / Q(8, "m2/s"))
case("div_array")(lambda: Q([2, 4, 8], "m") / Q([1, 2, 4], "s2"))
case("rdiv_array")(lambda: Q([2, 4, 8], "m").__rtruediv__(4))
case("div_zero")(lambda: Q(6, "m") / Q(0, "s"))
case("div_errors")(lambda: Q(6, "m", abse=0.1) / Q(3, "s", abse=0.2))
case("div_dimless_units")(lambda: Q(6, "rad") / Q(3, "deg"))
case("mul_chain")(lambda: Q(2, "km") * Q(3, "h-1") / Q(4, "m/s"))
# ---- negation -------------------------------------------------------------
case("neg_scalar")(lambda: -Q(2, "km/h"))
case("neg_array")(lambda: -Q([1, -2, 3], "N"))
case("neg_nodim")(lambda: -Q(2))
case("neg_error")(lambda: -Q(2, "m", abse=0.5))
# ---- powers: int, tuple, float, Fraction -----------------------------------
case("pow_int")(lambda: Q(2, "m") ** 2)
case("pow_int3")(lambda: Q(2, "km/s") ** 3)
case("pow_neg")(lambda: Q(2, "m") ** -1)
case("pow_zero")(lambda: Q(2, "m") ** 0)
case("pow_tuple")(lambda: Q(4, "m2") ** (1, 2))
case("pow_tuple_13")(lambda: Q(8, "m3") ** (1, 3))
case("pow_tuple_23")(lambda: Q(8, "m3/s3") ** (2, 3))
case("pow_tuple_neg")(lambda: Q(8, "m3") ** (-2, 3))
case("pow_tuple_unreduced")(lambda: Q(16, "m2") ** (2, 4))
case("pow_float_half")(lambda: Q(4, "m2") ** 0.5)
case("pow_float_15")(lambda: Q(4, "m2") ** 1.5)
case("pow_float_int")(lambda: Q(4, "m") ** 2.0)
case("pow_float_third")(lambda: Q(8, "m3") ** (1/3))
case("pow_float_neg")(lambda: Q(4, "m2/s4") ** -0.25)
case("pow_fraction")(lambda: Q(4, "m2") ** Fraction(1, 2))
case("pow_fraction32")(lambda: Q(4, "km2") ** Fraction(3, 2))
case("pow_array")(lambda: Q([1, 4, 9], "m2") ** (1, 2))
case("pow_array_int")(lambda: Q([1, 4, 9], "cm") ** 2)
case("pow_frac_unit")(lambda: Q(4, "m1:2") ** 2)
case("pow_frac_unit_cancel")(lambda: Q(4, "m1:2") ** 2 / Q(2, "cm"))
case("pow_nodim")(lambda: Q(4) ** 0.5)
case("pow_error")(lambda: Q(4, "m", abse=0.1) ** 2)
case("pow_bad")(lambda: Q(4, "m") ** "2")
case("np_sqrt")(lambda: np.sqrt(Q(4, "m2")))
case("np_power")(lambda: np.power(Q(4, "m2"), 2))
# ---- cross checks in base dimensions -----------------------------------------
def base(q):
    return q.magnitude.value * q.baseunits.magnitude
case("base_add")(lambda: base(Q(2, "mi") + Q(3, "yd")))
case("base_sub")(lambda: base(Q(2, "lb") - Q(3, "oz")))
case("base_mul")(lambda: base(Q(2, "mi") * Q(3, "lb")))
case("base_div")(lambda: base(Q(2, "mi") / Q(3, "h")))
case("base_pow")(lambda: base(Q(2, "mi") ** (3, 2)))
case("to_after_mul")(lambda: (Q(2, "kg") * Q(3, "m/s2")).to("N"))
case("to_after_div")(lambda: (Q(2, "km") / Q(3, "h")).value("m/s"))
case("eq_after_add")(lambda: (Q(2, "km") + Q(30, "cm")) == Q(2000.3, "m"))
case("rebase_after_mul")(lambda: (Q(2, "km") * Q(3, "cm") * Q(1, "s")).rebase())
case("operands_untouched")(lambda: (lambda a, b: [a + b, a - b, a * b, a / b, a ** 2, a, b])(Q(2, "km"), Q(30, "cm")))
case("operands_untouched_cancel")(lambda: (lambda a, b: [a * b, b * a, a / b, b / a, a, b])(Q(2, "km"), Q(3, "cm-1")))
case("decimal_add")(lambda: Q(Decimal("1.5"), "m") + Q(Decimal("2.5"), "m"))
case("decimal_mul")(lambda: Q(Decimal("1.5"), "m") * Q(Decimal("2"), "s"))
case("bad_operand")(lambda: Q(2, "m") + "x")
case("bad_operand_mul")(lambda: Q(2, "m") * None)
case("quantity_as_unit")(lambda: Q(2, Q(3, "m")) * Q(2, "s"))
case("dict_units")(lambda: Q(2, {"k:m": 1, "s": -1}) * Q(3, {"s": 1}))
case("dims_list_units")(lambda: Q(2, [1, 0, -1, 0, 0, 0, 0, 0]) / Q(4, [1, 0, 0, 0, 0, 0, 0, 0]))
# lower level pieces used by the arithmetic
case("bu_add")(lambda: BaseUnits("km*s-1") + BaseUnits("s*m"))
case("bu_sub")(lambda: BaseUnits("km*s-1") - BaseUnits("km*g"))
case("bu_mul_tuple")(lambda: BaseUnits("km2*s-1") * (1, 2))
case("bu_mul_float")(lambda: BaseUnits("km2*s-1") * 0.5)
case("bu_div")(lambda: BaseUnits("km2*s-4") / 2)
case("frac_mul")(lambda: [Fraction(2, 3) * Fraction(3, 4), Fraction(2, 3) * (1, 2), Fraction(2, 3) * 3, Fraction(2, 3) * 0.25, Fraction(2, 3) * 2.0])
case("frac_div")(lambda: [Fraction(2, 3) / Fraction(3, 4), Fraction(2, 3) / (1, 2), Fraction(2, 3) / 3, Fraction(2, 3) / 0.25, Fraction(2, 3) / 2.0])
case("frac_addsub")(lambda: [Fraction(2, 3) + Fraction(3, 4), Fraction(2, 3) + (1, 2), Fraction(2, 3) + 3, Fraction(2, 3) - Fraction(3, 4), Fraction(2, 3) - (1, 2), Fraction(2, 3) - 3, -Fraction(2, -3)])
case("frac_raw")(lambda: [rawfrac(Fraction(2, 4) * Fraction(2, -4)), rawfrac(Fraction(2, 4) / 2), rawfrac(Fraction(2, 4) + 1), Fraction(4, -2).value(), Fraction(-4, -6).value(), Fraction(0, -3).value(), Fraction(3, 6).value(dtype=float)])
case("frac_bad")(lambda: Fraction(1, 2) + 0.5)
case("frac_bad_mul")(lambda: Fraction(1, 2) * "a")
case("dims_ops")(lambda: [Dimensions(m=Fraction(1), s=Fraction(-2)) + Dimensions(m=Fraction(1, 2)), Dimensions(m=Fraction(1)) - Dimensions(s=Fraction(1)), Dimensions(m=Fraction(2)) * (1, 2), Dimensions(m=Fraction(2)) / 4, -Dimensions(g=Fraction(3, 2)), Dimensions(m=Fraction(2)) + 1, Dimensions(m=Fraction(2)) - (1, 2)])

# ---- extra cases aimed at base_units.py (refactoring 2) -----------------------
from scinumtools.units.base_units import get_unit_base
def base_rec(b):
    return [fmt(b.magnitude), repr(b.dimensions), {n: rawfrac(getattr(b.dimensions, n)) for n in ("m","g","s","K","C","cd","mol","rad")}, b.units, b.expression]
case("gub_default")(lambda: base_rec(get_unit_base("m")))
case("gub_prefix")(lambda: base_rec(get_unit_base("k:m", Fraction(4, -2))))
case("gub_unreduced")(lambda: base_rec(get_unit_base("m:g", Fraction(2, 4))))
case("gub_system")(lambda: base_rec(get_unit_base("#SACT", Fraction(2, 4))))
case("gub_system_one")(lambda: base_rec(get_unit_base("#CACC")))
case("gub_derived")(lambda: base_rec(get_unit_base("N", Fraction(-3))))
case("gub_exp_mutated")(lambda: (lambda e: [base_rec(get_unit_base("c:m", e)), rawfrac(e)])(Fraction(-6, -4)))
case("gub_bad_prefix")(lambda: get_unit_base("x:m"))
case("gub_bad_base")(lambda: get_unit_base("k:zz"))
case("gub_bad_plain")(lambda: get_unit_base("zz"))
case("gub_bad_split")(lambda: get_unit_base("a:b:c"))
case("gub_bad_system")(lambda: get_unit_base("#ZZZ"))
case("gub_bad_exp")(lambda: get_unit_base("m", 2))
case("sys_mul")(lambda: Q(2, "#SACC") * Q(3, "s2"))
case("sys_div_cancel")(lambda: Q(2, "#CACC") / Q(4, "m/s2"))
case("sys_add")(lambda: Q(2, "#SACC") + Q(3, "#CACC"))
case("sys_pow")(lambda: Q(2, "m*#SACT-1") ** (1, 2))
case("bu_add_new_key_order")(lambda: BaseUnits({"s": -1, "k:m": 1}) + BaseUnits({"g": 2, "s": 1, "m": 1}))
case("bu_sub_new_key_order")(lambda: BaseUnits({"s": -1, "k:m": 1}) - BaseUnits({"g": 2, "s": -1, "m": 1}))
case("bu_operands_untouched")(lambda: (lambda a, b: [a + b, a - b, a * 2, a / 2, a * (1, 2), a * 0.5, a, b, repr(a.baseunits), repr(b.baseunits)])(BaseUnits("km2*s-1"), BaseUnits("s*g")))
case("bu_mul_fraction")(lambda: BaseUnits("km2*s-1") * Fraction(3, 2))
case("bu_div_tuple")(lambda: BaseUnits("km2*s-1") / (2, 3))
case("bu_mul_zero")(lambda: BaseUnits("km2*s-1") * 0)
case("bu_mul_bad")(lambda: BaseUnits("km2*s-1") * "a")
case("bu_add_bad")(lambda: BaseUnits("km2*s-1") + 1)
case("bu_empty_ops")(lambda: [BaseUnits() + BaseUnits(), BaseUnits() - BaseUnits("m"), BaseUnits() * 2, BaseUnits() / 2])

# ---- extra cases aimed at fraction.py / dimensions.py (refactoring 3) ----------
def fr(f):
    return rawfrac(f) if isinstance(f, Fraction) else fmt(f)
def rebased(n, d):
    f = Fraction(n, d); f.rebase(); return rawfrac(f)
PAIRS = [(0, 5), (0, -5), (6, 4), (-6, 4), (6, -4), (-6, -4), (7, 1), (7, -1), (1, 3), (12, 18), (5, 0), (-4, 0), (0, 0)]
case("frac_rebase_all")(lambda: [rebased(n, d) for n, d in PAIRS])
case("frac_str_all")(lambda: [[str(Fraction(n, d)), repr(Fraction(n, d))] for n, d in PAIRS[:-3]])
case("frac_value_all")(lambda: [[fmt(Fraction(n, d).value()), fmt(Fraction(n, d).value(dtype=float)), fmt(Fraction(n, d).value(dtype=tuple)), fmt(Fraction(n, d).value(dtype=dict))] for n, d in PAIRS[:-3]])
case("frac_value_mutates")(lambda: (lambda f: [f.value(dtype=float), rawfrac(f), f.value(), rawfrac(f)])(Fraction(-6, -4)))
OTHERS = [Fraction(3, -6), (3, 6), (-1, 2), 2, -3, 0, 2.0, 0.5, -0.75, 1/3, 1.5, True, np.float64(0.25), np.int64(3), (1.5, 2)]
case("frac_mul_all")(lambda: [fr(Fraction(4, 6) * o) for o in OTHERS])
case("frac_div_all")(lambda: [fr(Fraction(4, 6) / o) for o in OTHERS if not isinstance(o, (int, float)) or o != 0])
case("frac_add_all")(lambda: [fr(Fraction(4, 6) + o) for o in [Fraction(3, -6), (3, 6), (-1, 2), 2, -3, 0, True, (1.5, 2)]])
case("frac_sub_all")(lambda: [fr(Fraction(4, 6) - o) for o in [Fraction(3, -6), (3, 6), (-1, 2), 2, -3, 0, True, (1.5, 2)]])
case("frac_neg_all")(lambda: [fr(-Fraction(n, d)) for n, d in PAIRS])
case("frac_eq")(lambda: [Fraction(1, 2) == Fraction(2, 4), Fraction(1, 2) == Fraction(-1, -2), Fraction(1, 2) == Fraction(1, 3), Fraction(0, 3) == Fraction(0, 1)])
for i, bad in enumerate(["a", None, (1,), [1, 2], np.float64(0.5), np.int64(2), 0.5]):
    case("frac_add_bad_%d" % i)(lambda bad=bad: fr(Fraction(1, 2) + bad))
    case("frac_sub_bad_%d" % i)(lambda bad=bad: fr(Fraction(1, 2) - bad))
for i, bad in enumerate(["a", None, (1,), [1, 2], (), "2", float("nan"), float("inf"), 0, 0.0, (0, 1)]):
    case("frac_mul_bad_%d" % i)(lambda bad=bad: fr(Fraction(1, 2) * bad))
    case("frac_div_bad_%d" % i)(lambda bad=bad: fr(Fraction(1, 2) / bad))
case("frac_div_zero_rebase")(lambda: rebased(*rawfrac(Fraction(3, 2) / 0)))
def dm(d):
    raw = {n: rawfrac(getattr(d, n)) for n in ("m","g","s","K","C","cd","mol","rad")}   # before repr() normalises the fractions
    return [raw, repr(d), bool(d.nodim), repr(d.value()), repr(d.value(dtype=dict)), repr(d.value(dtype=tuple))]
D1 = lambda: Dimensions(m=Fraction(1), s=Fraction(-4, 2), rad=Fraction(0, 3))
D2 = lambda: Dimensions(m=Fraction(1, 2), g=Fraction(-3), s=Fraction(2))
case("dims_add")(lambda: dm(D1() + D2()))
case("dims_sub")(lambda: dm(D1() - D2()))
case("dims_sub_self")(lambda: dm(D1() - D1()))
case("dims_add_int")(lambda: dm(D1() + 2))
case("dims_add_tuple")(lambda: dm(D1() + (1, 2)))
case("dims_sub_int")(lambda: dm(D1() - 1))
case("dims_mul_all")(lambda: [dm(D1() * o) for o in [2, -1, 0, (1, 2), 0.5, 1.5, Fraction(2, 3), 2.0]])
case("dims_div_all")(lambda: [dm(D1() / o) for o in [2, -1, (1, 2), 0.5, 1.5, Fraction(2, 3), 2.0]])
case("dims_neg")(lambda: [dm(-D1()), dm(-D2()), dm(-Dimensions())])
case("dims_eq")(lambda: [D1() == D1(), D1() == D2(), D1() != D2(), -D1() == D1() * -1, Dimensions() == Dimensions(rad=Fraction(0, 5)), D1() == Dimensions(m=Fraction(2, 2), s=Fraction(-2))])
case("dims_nodim")(lambda: [Dimensions().nodim, Dimensions(nodim=False).nodim, Dimensions(rad=Fraction(1)).nodim, Dimensions(m=Fraction(0, 2)).nodim, Dimensions(m=Fraction(1), nodim=True).nodim])
case("dims_from_list")(lambda: dm(Dimensions.from_list([1, (1, 2), -2, 0, 0, 0, (0, 3), 0])))
case("dims_operands_untouched")(lambda: (lambda a, b: [dm(a + b), dm(a - b), dm(a * 2), dm(a / 2), dm(-a), dm(a), dm(b)])(D1(), D2()))
case("dims_bad_field")(lambda: Dimensions(m=Fraction(1), g=3))
case("dims_bad_field_first")(lambda: Dimensions(m=1, g=Fraction(3)))
case("dims_bad_add")(lambda: D1() + "a")
case("dims_bad_add_float")(lambda: D1() + 0.5)
case("dims_bad_mul")(lambda: D1() * "a")
case("dims_bad_div")(lambda: D1() / None)
case("dims_bad_eq")(lambda: D1() == 1)
case("dims_hash")(lambda: hash(D1()))

results = {}
for name, fn in CASES:
    try:
        results[name] = {"ok": describe(fn())}
    except BaseException as e:
        results[name] = {"exc": type(e).__name__}
print("@@RESULT@@" + json.dumps(results, sort_keys=True))
'''


def run(root):
    proc = subprocess.run([sys.executable, "-c", RUNNER, root], capture_output=True, text=True)
    if proc.returncode != 0:
        print("runner failed for", root, file=sys.stderr)
        print(proc.stderr, file=sys.stderr)
        sys.exit(2)
    for line in proc.stdout.splitlines():
        if line.startswith("@@RESULT@@"):
            return json.loads(line[len("@@RESULT@@"):])
    print("no result from", root, file=sys.stderr)
    sys.exit(2)


def main():
    if len(sys.argv) != 3:
        print(__doc__)
        sys.exit(2)
    a = run(os.path.abspath(sys.argv[1]))
    b = run(os.path.abspath(sys.argv[2]))
    bad = 0
    for name in sorted(set(a) | set(b)):
        if a.get(name) != b.get(name):
            bad += 1
            print("DIFF in case", name)
            print("   base:", json.dumps(a.get(name), sort_keys=True)[:600])
            print("   new :", json.dumps(b.get(name), sort_keys=True)[:600])
    nexc = sum(1 for v in a.values() if "exc" in v)
    print(f"{len(a)} cases ({nexc} raising), {bad} differences")
    sys.exit(1 if bad else 0)


if __name__ == "__main__":
    main()
