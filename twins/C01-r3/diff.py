#!/venv/bin/python
"""Differential check for property C01 (expression solver evaluates by the step table).

usage: diff.py <unmodified tree root> <refactored tree root>

Each tree is exercised in its own subprocess (own sys.path = <root>/src); the
observations (value repr, value type, unit string, or the raised exception type)
are printed as JSON and compared.  Exit code 0 iff all observations are identical.
"""
import json
import subprocess
import sys

PROBE = r'''
import sys, json, warnings
warnings.simplefilter("ignore")
sys.path.insert(0, sys.argv[1] + "/src")
import numpy as np
np.seterr(all="ignore")
from scinumtools.solver import *

EXPRESSIONS = [
    # well formed, every step of the table
    "1",
    "  42.5  ",
    "1+2*3",
    "(1+2)*3",
    "2**3**2",
    "-2**2",
    "2*-3",
    "2--3",
    "2-+3",
    "2+-+-3",
    "- 3 + 4",
    "+5",
    "8/4/2",
    "8-4-2",
    "2*3/4*5",
    "1 + 2 - 3 + 4",
    "exp(0)+log(1)",
    "log10(1000)*sqrt(16)",
    "logb(8,2)",
    "pow(2,10)",
    "pow( (1+1) , logb(8,2) )",
    "sin(0)+cos(0)+tan(0)",
    "sqrt((3*3)+(4*4))",
    "((((7))))",
    "1<2",
    "1<=1",
    "2>3",
    "2>=3",
    "1==1",
    "1!=1",
    "1+1==2",
    "2*3>5&&1<2",
    "!1",
    "!0",
    "!!1",
    "!1==0",
    "!(1==0)",
    "1&&0||1",
    "0||1&&0",
    "1||0&&0",
    "1 < 2 && 2 < 3 || 0",
    "1<2&&2<3||0",
    "-(2+3)*2",
    "-exp(1)",
    "2**-1",
    "3*(2+pow(2,3))/sqrt(4)-1",
    "1e3+1",
    "1.5e-3*2",
    # ill formed
    "(1+2",
    "1+2)",
    "((1)",
    "exp(1,2)",
    "logb(8)",
    "pow(1,2,3)",
    "pow()",
    "()",
    "1+",
    "*2",
    "1*/2",
    "1 2",
    "&&1",
    "1||",
    "1<",
    "!",
    "",
    "   ",
    "abc",
    "1+abc",
    "sin()",
]

def observe(fn):
    try:
        v = fn()
    except BaseException as e:
        return ["EXC", type(e).__name__]
    return v

out = []

def solve_default(expr):
    with ExpressionSolver(AtomBase) as es:
        a = es.solve(expr)
    return ["VAL", type(a).__name__, type(a.value).__name__, repr(a.value)]

for e in EXPRESSIONS:
    out.append([e, observe(lambda: solve_default(e))])

# the same solver object reused for several expressions (also after a failure)
def reuse():
    res = []
    with ExpressionSolver(AtomBase) as es:
        for e in ["1+2", "(3", "4*5", "1+", "2**3", "!0||0"]:
            try:
                res.append(repr(es.solve(e).value))
            except BaseException as x:
                res.append(type(x).__name__)
    return res
out.append(["reuse", observe(reuse)])

# custom operator table / steps (restricted sets, operators missing from a step)
def custom():
    res = []
    ops = {'par': OperatorPar, 'mul': OperatorMul, 'add': OperatorAdd}
    with ExpressionSolver(AtomBase, ops) as es:
        for e in ["2*(3+4)", "2+3*4", "+3", "2*3*4+1"]:
            try:
                res.append(repr(es.solve(e).value))
            except BaseException as x:
                res.append(type(x).__name__)
    steps = [
        dict(operators=['par'], otype=Otype.ARGS),
        dict(operators=['add'], otype=Otype.BINARY),
        dict(operators=['mul'], otype=Otype.BINARY),
        dict(operators=['mul'], otype=Otype.TERNARY),
    ]
    with ExpressionSolver(AtomBase, ops, steps) as es:
        for e in ["2+3*4", "2*(3+4)*2", "(2)"]:
            try:
                res.append(repr(es.solve(e).value))
            except BaseException as x:
                res.append(type(x).__name__)
    return res
out.append(["custom", observe(custom)])

# an Expression object instead of a string
from scinumtools.solver.expression import Expression
out.append(["exprobj", observe(lambda: solve_default(Expression("2*(1+1)")))])

# users of the solver that carry units
def units():
    from scinumtools.units import Quantity, Unit
    res = []
    for u in ["kg*m2/s2", "m/s", "(kg*m)/(s2*K)", "km-1", "cm3/(g*s2)", "kg*(m", "m//s"]:
        try:
            q = Quantity(2.0, u)
            res.append([str(q), repr(q.value().tolist() if hasattr(q.value(), "tolist") else q.value())])
        except BaseException as x:
            res.append(type(x).__name__)
    return res
out.append(["units", observe(units)])

def dipnum():
    from scinumtools.dip import DIP
    res = []
    for code in ['a float = 2\nb float = ("{?a} * (3 + 1) ** 2")',
                 'a int = 3\nb bool = ("{?a} > 2 && !({?a} == 4)")',
                 'a bool = true\nb float = 23.43 cm\nc bool = ("false || {?b} == 23.43 cm && {?a}")',
                 'a float = 14.24 mm\nb int = 220 cm\nc float = ("{?a} + {?b} + 10 m") cm',
                 'a float = ("10 dm + 1 m") J',
                 'a float = ("(10 dm + 1 m") m',
                 'a float = 2 m\nb float = ("{?a} * 3 + 1 cm") cm']:
        try:
            with DIP() as dip:
                dip.add_string(code)
                env = dip.parse()
            d = env.data()
            res.append(sorted((k, repr(v)) for k, v in d.items()))
        except BaseException as x:
            res.append(type(x).__name__)
    return res
out.append(["dip", observe(dipnum)])

print(json.dumps(out))
'''


def run(root):
    p = subprocess.run([sys.executable, "-c", PROBE, root],
                       capture_output=True, text=True, timeout=600)
    if p.returncode != 0:
        print("probe failed for", root, file=sys.stderr)
        print(p.stderr, file=sys.stderr)
        sys.exit(2)
    return json.loads(p.stdout.strip().splitlines()[-1])


def main():
    base, new = sys.argv[1], sys.argv[2]
    a, b = run(base), run(new)
    bad = 0
    if len(a) != len(b):
        print("different number of observations", len(a), len(b))
        bad += 1
    for (ka, va), (kb, vb) in zip(a, b):
        if ka != kb or va != vb:
            bad += 1
            print("DIFF %r:\n   base: %r\n   new:  %r" % (ka, va, vb))
    print("%d observations compared, %d differences" % (len(a), bad))
    sys.exit(0 if bad == 0 else 1)


if __name__ == "__main__":
    main()
