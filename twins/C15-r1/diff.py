#!/venv/bin/python
"""Differential check for property C15 (case/else/end clause selection).

usage: diff.py <unmodified tree root> <refactored tree root>
Runs the same DIP inputs against both trees (each in its own subprocess with its
own sys.path) and exits 0 iff all observable outputs are identical.
"""
import sys, json, subprocess, itertools

RUNNER = r'''
import sys, json
root = sys.argv[1]
sys.path.insert(0, root + '/src')
import numpy as np
from scinumtools.dip import DIP
from scinumtools.dip.settings import Format

def show(v):
    val = getattr(v, 'value', v)
    if isinstance(val, np.ndarray):
        val = val.tolist()
    return [type(v).__name__, repr(val), repr(getattr(v, 'unit', None))]

def run(code):
    try:
        with DIP() as p:
            p.add_string(code)
            env = p.parse()
            data = env.data(Format.TYPE, verbose=True)
        out = {k: show(v) for k, v in data.items()}
        order = [n.name for n in env.nodes]
        return {'ok': out, 'order': order}
    except Exception as e:
        return {'exc': type(e).__name__, 'args': [repr(a) for a in e.args]}

cases = json.loads(sys.stdin.read())
print(json.dumps([run(c) for c in cases], sort_keys=True))
'''

def tf(b):
    return 'true' if b else 'false'

def inputs():
    codes = []
    # 1-3: misplaced @else / @end
    codes.append("@end\n")
    codes.append("@else\n  car str = 'BMW'\n")
    codes.append("@case true\n  @end\n")
    codes.append("a int = 1\n@case true\n  a = 2\n@end\n@end\n")
    codes.append("a int = 1\n@case true\n  a = 2\n@end\n@else\n  a = 3\n")
    codes.append("@case true\n  a int = 2\n@else\n  a int = 3\n@else\n  a int = 4\n@end\nb int = 1\n")
    # first-true-wins chains, explicit end, all assignments of three conditions
    for a, b, c in itertools.product([False, True], repeat=3):
        codes.append(
            "pre int = 0\n"
            f"@case {tf(a)}\n  x int = 1\n"
            f"@case {tf(b)}\n  x int = 2\n"
            f"@case {tf(c)}\n  x int = 3\n"
            "@else\n  x int = 4\n"
            "@end\n"
            "post int = 9\n")
    # nested two levels, closed by indentation, all assignments
    for a, b, c in itertools.product([False, True], repeat=3):
        codes.append(
            "w float = 1.5 cm\n"
            f"@case {tf(a)}\n"
            "  o1 int = 1\n"
            f"  @case {tf(b)}\n"
            "    i1 int = 11\n"
            "    w = 2.5 cm\n"
            "  @else\n"
            "    i1 int = 12\n"
            f"    @case {tf(c)}\n"
            "      d1 str = 'deep'\n"
            "    w = 3.5 cm\n"
            "  o2 int = 2\n"
            "@else\n"
            "  o1 int = 3\n"
            f"  @case {tf(c)}\n"
            "    i2 int = 21\n"
            "  @end\n"
            "  o2 int = 4\n"
            "tail str = 'z'\n")
    # nested inside groups, compact names
    for a, b in itertools.product([False, True], repeat=2):
        codes.append(
            "plant\n"
            f"  @case {tf(a)}\n"
            "    kind str = 'tree'\n"
            f"  @case {tf(b)}\n"
            "    kind str = 'bush'\n"
            "  @else\n"
            "    kind str = 'grass'\n"
            "  @end\n"
            "  age int = 3 yr\n"
            f"animal.@case {tf(b)}\n"
            "animal.legs int = 4\n"
            f"animal.@case {tf(a)}\n"
            "animal.legs int = 2\n"
            "animal.@else\n"
            "animal.legs int = 0\n"
            "animal.@end\n"
            "animal.name str = 'x'\n")
    # properties inside clauses (options / condition / constant)
    for a in (False, True):
        codes.append(
            "n int = 2\n"
            f"@case {tf(a)}\n"
            "  m int = 3\n"
            "    = 3\n"
            "    = 4\n"
            "@else\n"
            "  m int = 5\n"
            "    !condition ('{?} > 4')\n"
            "@end\n"
            "n = 7\n")
        codes.append(
            "n int = 2\n"
            f"@case {tf(a)}\n"
            "  k int = 6\n"
            "    !condition ('{?} < 4')\n"
            "k2 int = 1\n")
        codes.append(
            "n int = 2\n"
            f"@case {tf(a)}\n"
            "  n = 10\n"
            "  undefined_mod = 3\n"
            "q bool = true\n")
    # conditions using references and expressions
    for lim in (30, 80, 200):
        codes.append(
            f"limit float = {lim} km\n"
            "urban bool = false\n"
            "@case (\"{?limit} <= 50 km || {?urban}\")\n"
            "  road str = 'street'\n"
            "@case (\"{?limit} <= 100 km && !{?urban}\")\n"
            "  road str = 'road'\n"
            "  @case (\"{?limit} > 70 km\")\n"
            "    fast bool = true\n"
            "@else\n"
            "  road str = 'highway'\n"
            "@end\n"
            "after int = 1\n")
    # three-level nesting with explicit ends
    for a, b, c in itertools.product([False, True], repeat=3):
        codes.append(
            f"@case {tf(a)}\n"
            f"  @case {tf(b)}\n"
            f"    @case {tf(c)}\n"
            "      v int = 1\n"
            "    @else\n"
            "      v int = 2\n"
            "    @end\n"
            "    u int = 5\n"
            "  @else\n"
            "    v int = 3\n"
            "  @end\n"
            "  t int = 6\n"
            "@else\n"
            "  v int = 4\n"
            "@end\n"
            "s int = 7\n")
    # clause closed by a node at the clause keyword indent, then a fresh block
    for a, b in itertools.product([False, True], repeat=2):
        codes.append(
            "grp\n"
            f"  @case {tf(a)}\n"
            "    a1 int = 1\n"
            "  mid int = 2\n"
            f"  @case {tf(b)}\n"
            "    b1 int = 3\n"
            "  @else\n"
            "    b1 int = 4\n"
            "out int = 5\n"
            f"@case {tf(not a)}\n"
            "  c1 int = 6\n")
    return codes

def run(root, codes):
    p = subprocess.run([sys.executable, '-c', RUNNER, root], input=json.dumps(codes),
                       capture_output=True, text=True, timeout=600)
    if p.returncode != 0:
        sys.stderr.write(p.stderr)
        raise SystemExit(2)
    return json.loads(p.stdout.strip().splitlines()[-1])

def main():
    base, new = sys.argv[1], sys.argv[2]
    codes = inputs()
    r1, r2 = run(base, codes), run(new, codes)
    bad = 0
    for i, (c, x, y) in enumerate(zip(codes, r1, r2)):
        if x != y:
            bad += 1
            print(f"DIFF in input {i}:\n{c}\n base: {x}\n new:  {y}")
    nexc = sum('exc' in x for x in r1)
    print(f"{len(codes)} inputs, {nexc} raising, {bad} differences")
    sys.exit(1 if bad else 0)

if __name__ == '__main__':
    main()
