#!/venv/bin/python
"""Differential check for property C12 (densities, volume and masses of matter).

usage: diff.py <unmodified tree root> <refactored tree root>
Runs the same inputs against both trees (each in its own subprocess with its
own sys.path) and exits 0 iff every observable output is identical.
"""
import sys, os, json, subprocess

WORKER = r'''
import sys, io, json, contextlib
sys.path.insert(0, sys.argv[1] + '/src')
import numpy as np
from scinumtools.units import Quantity
from scinumtools.materials import Element, Substance, Material, Norm

def ser(v):
    if v is None:
        return None
    if isinstance(v, Quantity):
        return ['Q', repr(v.value()), str(v.units())]
    if isinstance(v, (float, np.floating)):
        return ['f', repr(float(v))]
    if isinstance(v, (int, np.integer)):
        return ['i', int(v)]
    return ['s', str(v)]

def table(pt):
    if pt is None:
        return None
    df = pt.to_dataframe()
    out = {'columns': [str(c) for c in df.columns]}
    for idx, row in df.iterrows():
        out[str(idx)] = [ser(x) for x in row.tolist()]
    return out

def matter(m, comps=None):
    out = {
        'rho': ser(m.mass_density), 'n': ser(m.number_density),
        'V': ser(m.volume), 'M': ser(m.mass),
        'given': m.number_density_given,
        'composite_mass': ser(m.composite_mass),
        'component_mass': ser(getattr(m, 'component_mass', None)),
    }
    for q in (True, False):
        if comps is None:
            out['data_%s' % q] = table(m.data_matter(quantity=q))
        else:
            out['data_%s' % q] = table(m.data_matter(components=comps, quantity=q))
    buf = io.StringIO()
    with contextlib.redirect_stdout(buf):
        m.print()
        if comps is None:
            m.print_matter()
        else:
            m.print_matter(components=comps)
    out['print'] = buf.getvalue()
    out['str'] = str(m)
    return out

Q = Quantity
def c_sub_add():
    s = Substance('H2O', number_density=Q(3.3e22, 'cm-3'), volume=Q(2, 'l'))
    first = matter(s)
    s.add('C', 2)
    return [first, matter(s)]
def c_sub_add_rho():
    s = Substance('H2O', mass_density=Q(997, 'kg/m3'), volume=Q(2, 'l'))
    s.add('O', 1)
    return matter(s)
def c_mat_add():
    m = Material({'H2O': 0.4, 'NaCl': 0.6}, number_density=Q(1e28, 'm-3'), volume=Q(3, 'cm3'))
    m.add('CO2', 0.5)
    return matter(m)
def c_mat_sum():
    a = Material('0.2 <H2O> 0.3 <NaCl>', mass_density=Q(0.3, 'g/cm3'))
    b = 2 * a + Material('1 <CO2>')
    return [matter(a), str(b), ser(b.mass_density), table(b.data_matter())]

def tables(m, comps=None):
    out = {}
    for q in (True, False):
        out['components_%s' % q] = table(m.data_components(quantity=q))
        out['composite_%s' % q] = table(m.data_composite(components=comps, quantity=q))
        out['matter_%s' % q] = table(m.data_matter(components=comps, quantity=q))
    return out

CASES = {
  'tab_sub':         lambda: tables(Substance('C6H12O6', mass_density=Q(1.54,'g/cm3'), volume=Q(2,'cm3'))),
  'tab_sub_comps':   lambda: tables(Substance('DT{3}O{16-2}', natural=False, number_density=Q(3e28,'m-3'), volume=Q(1,'l')), comps=['D','O{16-2}']),
  'tab_mat':         lambda: tables(Material('0.2 <H2O> 0.3 <NaCl>', mass_density=Q(0.3,'g/cm3'), volume=Q(1,'l')), comps=['H2O']),
  'tab_mat_mass':    lambda: tables(Material({'N2':0.78,'O2':0.21,'Ar':0.01}, norm_type=Norm.MASS_FRACTION)),
  'tab_el':          lambda: table(Element('Au', 2, mass_density=Q(19.3,'g/cm3'), volume=Q(1,'in3')).data_matter(quantity=True)),
  'el_rho_V':        lambda: matter(Element('B', mass_density=Q(997,'kg/m3'), volume=Q(1,'l'))),
  'el_n':            lambda: matter(Element('O{16}', number_density=Q(5e22,'cm-3'))),
  'el_n_V_m3':       lambda: matter(Element('Fe', 3, number_density=Q(8.5e28,'m-3'), volume=Q(0.25,'m3'))),
  'el_ion_rho':      lambda: matter(Element('He{4+2}', natural=False, mass_density=Q(0.1786,'g/l'), volume=Q(22.4,'l'))),
  'el_proton':       lambda: matter(Element('[p]', number_density=Q(1,'cm-3'), volume=Q(1,'km3'))),
  'el_both':         lambda: matter(Element('C', number_density=Q(1e23,'cm-3'), mass_density=Q(2.2,'g/cm3'), volume=Q(10,'cm3'))),
  'el_none':         lambda: matter(Element('C')),
  'el_V_only':       lambda: matter(Element('C', volume=Q(1,'l'))),
  'sub_rho':         lambda: matter(Substance('B{11}N{14}H{1}6', mass_density=Q(780,'kg/m3'))),
  'sub_n':           lambda: matter(Substance('B{11}N{14}H{1}6', number_density=Q(1.5123538e+22,'cm-3'))),
  'sub_rho_V':       lambda: matter(Substance('H2O', natural=False, mass_density=Q(997,'kg/m3'), volume=Q(1,'l'))),
  'sub_rho_V_units': lambda: matter(Substance('H2O', natural=False, mass_density=Q(0.997,'g/cm3'), volume=Q(1000,'cm3'))),
  'sub_n_V_comps':   lambda: matter(Substance('C6H12O6', number_density=Q(5.1e27,'m-3'), volume=Q(0.5,'dm3')), comps=['C','O']),
  'sub_paren':       lambda: matter(Substance('Ca(OH)2', mass_density=Q(2.21,'g/cm3'), volume=Q(1,'mm3'))),
  'sub_dict':        lambda: matter(Substance({'U{235}':1,'O':2}, mass_density=Q(10970,'kg/m3'), volume=Q(1,'m3'))),
  'sub_prop':        lambda: matter(Substance('NaCl', proportion=2.5, number_density=Q(2.2e22,'cm-3'), volume=Q(1,'l'))),
  'sub_empty':       lambda: [ser(Substance(mass_density=Q(1,'g/cm3')).mass_density)],
  'sub_add_n':       c_sub_add,
  'sub_add_rho':     c_sub_add_rho,
  'mat_rho':         lambda: matter(Material('0.2 <H2O> 0.3 <NaCl>', mass_density=Q(0.3,'g/cm3'))),
  'mat_rho_V':       lambda: matter(Material('0.2 <H2O> 0.3 <NaCl>', mass_density=Q(300,'kg/m3'), volume=Q(1,'l'))),
  'mat_n_V':         lambda: matter(Material('0.2 <H2O> 0.3 <NaCl>', number_density=Q(8.5e21,'cm-3'), volume=Q(1e-3,'m3')), comps=['NaCl']),
  'mat_massfrac':    lambda: matter(Material({'N2':0.78,'O2':0.21,'Ar':0.01}, norm_type=Norm.MASS_FRACTION, mass_density=Q(1.225,'kg/m3'), volume=Q(1,'m3'))),
  'mat_massfrac_n':  lambda: matter(Material({'N2':0.78,'O2':0.21,'Ar':0.01}, norm_type=Norm.MASS_FRACTION, number_density=Q(2.5e19,'cm-3'))),
  'mat_number':      lambda: matter(Material({'H2O':3,'CO2':1}, norm_type=Norm.NUMBER, mass_density=Q(1.1,'g/cm3'), volume=Q(2,'l'))),
  'mat_add':         c_mat_add,
  'mat_sum':         c_mat_sum,
  'err_rho_unit':    lambda: matter(Substance('H2O', mass_density=Q(1,'m'))),
  'err_n_unit':      lambda: matter(Element('O', number_density=Q(1,'kg'))),
  'err_V_unit':      lambda: matter(Material('1 <H2O>', mass_density=Q(1,'g/cm3'), volume=Q(1,'s'))),
  'err_elem':        lambda: matter(Substance('Xx2', mass_density=Q(1,'g/cm3'))),
  'err_isotope':     lambda: matter(Element('H{9}', mass_density=Q(1,'g/cm3'))),
  'err_empty_data':  lambda: matter(Material(mass_density=Q(1,'g/cm3'))),
}

results = {}
for name, fn in CASES.items():
    try:
        results[name] = {'ok': fn()}
    except BaseException as e:
        results[name] = {'exc': type(e).__name__}
print(json.dumps(results, sort_keys=True))
'''

def run(root):
    p = subprocess.run([sys.executable, '-W', 'ignore', '-c', WORKER, os.path.abspath(root)],
                       capture_output=True, text=True, cwd='/tmp')
    if p.returncode != 0:
        print(p.stderr)
        raise SystemExit(2)
    return json.loads(p.stdout.strip().splitlines()[-1])

def main():
    a, b = run(sys.argv[1]), run(sys.argv[2])
    bad = [k for k in sorted(set(a) | set(b)) if a.get(k) != b.get(k)]
    nexc = sum(1 for v in a.values() if 'exc' in v)
    print(f"{len(a)} cases ({nexc} raising) compared, {len(bad)} differ")
    for k in bad:
        print("DIFF", k, "\n  base:", json.dumps(a.get(k))[:600], "\n  new: ", json.dumps(b.get(k))[:600])
    sys.exit(1 if bad else 0)

if __name__ == '__main__':
    main()
