#!/venv/bin/python
"""Differential check for property C12 (densities, volume and masses of matter).

usage: diff.py <unmodified tree root> <refactored tree root>

Runs the same set of inputs against both trees (each in its own subprocess with
its own sys.path) and exits 0 iff every observable output (values, units,
printed text, raised exception types) is identical.
"""
import json
import subprocess
import sys

DRIVER = r'''
import sys, io, json, contextlib, warnings
warnings.filterwarnings("ignore")
root = sys.argv[1]
sys.path.insert(0, root + "/src")
import numpy as np
from scinumtools.units import Quantity
from scinumtools.materials import Element, Substance, Material, Norm

def enc(v):
    if v is None or isinstance(v, (bool, str)):
        return v
    if isinstance(v, Quantity):
        return ["Q", enc(v.value()), v.units()]
    if isinstance(v, (int, float, np.integer, np.floating)):
        return ["num", type(v).__name__, repr(float(v))]
    if isinstance(v, np.ndarray):
        return ["arr", [enc(i) for i in v.tolist()]]
    if isinstance(v, (list, tuple)):
        return [enc(i) for i in v]
    if isinstance(v, dict):
        return {str(k): enc(i) for k, i in v.items()}
    if hasattr(v, "magnitude"):
        return ["mag", repr(v)]
    return ["obj", type(v).__name__, str(v)]

def table(pt):
    if pt is None:
        return None
    return {"keys": list(pt.keys()), "rows": {k: enc(r.data()) for k, r in pt.items()}}

def observe(obj, components=None):
    out = {}
    for name in ("mass_density", "number_density", "volume", "mass",
                 "composite_mass", "component_mass", "proportion_norm",
                 "number_density_given", "expr"):
        out[name] = enc(getattr(obj, name, "<missing>"))
    out["cols_matter"] = enc(obj.cols_matter)
    for quantity in (True, False):
        key = "matter_q" if quantity else "matter_s"
        try:
            out[key] = table(obj.data_matter(quantity=quantity))
        except Exception as e:
            out[key] = ["raised", type(e).__name__]
        if components is not None:
            try:
                out[key + "_sel"] = table(obj.data_matter(components=components, quantity=quantity))
            except Exception as e:
                out[key + "_sel"] = ["raised", type(e).__name__]
    if hasattr(obj, "data_composite"):
        try:
            out["composite_s"] = table(obj.data_composite(quantity=False))
            out["composite_q"] = table(obj.data_composite(quantity=True))
        except Exception as e:
            out["composite_s"] = ["raised", type(e).__name__]
    if hasattr(obj, "data_components"):
        try:
            out["components_s"] = table(obj.data_components(quantity=False))
            out["components_q"] = table(obj.data_components(quantity=True))
        except Exception as e:
            out["components_s"] = ["raised", type(e).__name__]
    buf = io.StringIO()
    try:
        with contextlib.redirect_stdout(buf):
            obj.print()
        out["print"] = buf.getvalue()
    except Exception as e:
        out["print"] = ["raised", type(e).__name__, buf.getvalue()]
    buf = io.StringIO()
    try:
        with contextlib.redirect_stdout(buf):
            obj.print_matter()
        out["print_matter"] = buf.getvalue()
    except Exception as e:
        out["print_matter"] = ["raised", type(e).__name__]
    return out

Q = Quantity
CASES = {}
def case(fn):
    CASES[fn.__name__] = fn
    return fn

@case
def element_rho_vol():
    return observe(Element('B', mass_density=Q(997, 'kg/m3'), volume=Q(1, 'l')))
@case
def element_n_only():
    return observe(Element('O{16}', number_density=Q(2.5e25, 'm-3')))
@case
def element_n_vol_prop():
    return observe(Element('Fe', proportion=3, natural=False, number_density=Q(8.4e22, 'cm-3'), volume=Q(2.5, 'dm3')))
@case
def element_ion_rho_units():
    return observe(Element('Ca{40+2}', mass_density=Q(1.55, 'g/cm3'), volume=Q(350, 'mm3')))
@case
def element_nucleon():
    return observe(Element('[p]', mass_density=Q(1e-3, 'kg/l'), volume=Q(1, 'm3')))
@case
def element_plain():
    return observe(Element('He'))
@case
def substance_rho():
    return observe(Substance('B{11}N{14}H{1}6', mass_density=Q(780, 'kg/m3')), components=['H{1}'])
@case
def substance_n():
    return observe(Substance('B{11}N{14}H{1}6', number_density=Q(1.5123538e+22, 'cm-3')), components=['B{11}', 'N{14}'])
@case
def substance_rho_vol():
    return observe(Substance('H2O', natural=False, mass_density=Q(997, 'kg/m3'), volume=Q(1, 'l')), components=['O'])
@case
def substance_n_vol_units():
    return observe(Substance('C6H12O6', number_density=Q(5.1e27, 'm-3'), volume=Q(0.75, 'cm3')), components=['C', 'O'])
@case
def substance_both_given():
    return observe(Substance('NaCl', mass_density=Q(2.17, 'g/cm3'), number_density=Q(1e20, 'cm-3'), volume=Q(3, 'ml')))
@case
def substance_dict_add():
    s = Substance({'H': 2, 'O': 1}, mass_density=Q(0.997, 'g/ml'), volume=Q(2, 'l'))
    first = observe(s)
    s.add('C', 3)
    s.add('H', 2)
    return [first, observe(s)]
@case
def substance_n_add():
    s = Substance('CO2', number_density=Q(2.7e19, 'cm-3'), volume=Q(22.4, 'l'))
    first = observe(s)
    s.add('O{18}', 1)
    return [first, observe(s)]
@case
def substance_plain():
    return observe(Substance('CH4'))
@case
def substance_vol_only():
    return observe(Substance('CH4', volume=Q(1, 'l')))
@case
def substance_bad_rho_unit():
    return observe(Substance('H2O', mass_density=Q(1, 'kg/m2')))
@case
def substance_bad_n_unit():
    return observe(Substance('H2O', number_density=Q(1, 'g/cm3')))
@case
def substance_bad_vol_unit():
    return observe(Substance('H2O', mass_density=Q(1, 'g/cm3'), volume=Q(1, 'm2')))
@case
def substance_scalar_rho():
    return observe(Substance('H2O', mass_density=1.0))
@case
def substance_zero_rho():
    return observe(Substance('H2O', mass_density=0, number_density=Q(3e22, 'cm-3')))
@case
def substance_mul_add():
    a = Substance('H2O', mass_density=Q(1, 'g/cm3'))
    b = Substance('NaCl')
    return [observe(a * 2), observe(a + b)]
@case
def material_rho():
    return observe(Material('0.2 <H2O> 0.3 <NaCl>', mass_density=Q(0.3, 'g/cm3')))
@case
def material_rho_vol():
    return observe(Material('0.2 <H2O> 0.3 <NaCl>', mass_density=Q(300, 'kg/m3'), volume=Q(1, 'l')), components=['NaCl'])
@case
def material_n_vol():
    return observe(Material('0.78 <N2> 0.21 <O2> 0.01 <Ar>', number_density=Q(2.5e19, 'cm-3'), volume=Q(1, 'm3')), components=['N2', 'Ar'])
@case
def material_mass_fraction_rho():
    return observe(Material({'N2': 0.755, 'O2': 0.2315, 'Ar': 0.0129}, norm_type=Norm.MASS_FRACTION,
                            mass_density=Q(1.225, 'kg/m3'), volume=Q(10, 'l')), components=['O2'])
@case
def material_mass_fraction_n():
    return observe(Material('0.9 <Fe> 0.1 <C>', norm_type=Norm.MASS_FRACTION, natural=False,
                            number_density=Q(8.0e28, 'm-3'), volume=Q(12, 'cm3')))
@case
def material_mass_fraction_plain():
    return observe(Material({'N2': 0.755, 'O2': 0.2315, 'Ar': 0.0129}, norm_type=Norm.MASS_FRACTION), components=['O2'])
@case
def material_add_after():
    m = Material({'H2O': 0.5}, mass_density=Q(1.1, 'g/cm3'), volume=Q(250, 'ml'))
    first = observe(m)
    m.add('NaCl', 0.5)
    return [first, observe(m)]
@case
def material_number_norm():
    return observe(Material({'H2O': 2, 'CO2': 1}, norm_type=Norm.NUMBER, mass_density=Q(1.3, 'g/cm3'), volume=Q(1, 'cm3')))
@case
def material_plain_and_ops():
    m = Material('0.4 <H2O> 0.6 <C2H5OH>')
    return [observe(m), observe(2 * m), observe(m + Material('1 <NaCl>'))]
@case
def material_bad_unit():
    return observe(Material('1 <H2O>', mass_density=Q(1, 's')))
@case
def shared_quantity_mutation():
    rho = Q(997, 'kg/m3'); vol = Q(1, 'l'); n = Q(1e28, 'm-3')
    a = Substance('H2O', mass_density=rho, volume=vol)
    b = Substance('H2O', number_density=n, volume=vol)
    return {"a": observe(a), "b": observe(b), "rho": enc(rho), "vol": enc(vol), "n": enc(n)}

result = {}
for name, fn in CASES.items():
    try:
        result[name] = ["ok", fn()]
    except Exception as e:
        result[name] = ["raised", type(e).__name__]
sys.stdout.write("@@JSON@@" + json.dumps(result, sort_keys=True))
'''


def run(root):
    proc = subprocess.run([sys.executable, "-c", DRIVER, root],
                          capture_output=True, text=True, cwd="/tmp")
    if proc.returncode != 0 or "@@JSON@@" not in proc.stdout:
        sys.stderr.write(f"driver failed for {root}\n{proc.stderr}\n")
        sys.exit(2)
    return json.loads(proc.stdout.split("@@JSON@@", 1)[1])


def main():
    base, new = sys.argv[1], sys.argv[2]
    a, b = run(base), run(new)
    bad = [k for k in sorted(set(a) | set(b)) if a.get(k) != b.get(k)]
    ncases = len(a)
    if ncases < 12:
        sys.stderr.write("too few cases\n")
        sys.exit(2)
    for k in bad:
        print(f"DIFF in case {k}:\n  base: {json.dumps(a.get(k))[:600]}\n  new:  {json.dumps(b.get(k))[:600]}")
    print(f"{ncases} cases, {len(bad)} differing")
    sys.exit(1 if bad else 0)


if __name__ == "__main__":
    main()
