#!/usr/bin/env python
"""Differential check for property C06 (quantity arithmetic vs. base-dimension arithmetic).

usage: diff.py <unmodified tree root> <refactored tree root>

Runs the same set of inputs against both trees (each in its own subprocess with
its own sys.path) and exits 0 iff every observable output (magnitude value,
error, unit expression, unit exponents, string form, value re-expressed in base
dimensions, raised exception type) is identical.
"""
import json
import subprocess
import sys

CHILD = r'''
import sys, json, warnings, copy
warnings.filterwarnings("ignore")
root = sys.argv[1]
sys.path.insert(0, root + "/src")
import numpy as np
from decimal import Decimal
from scinumtools.units import Quantity, Fraction

def num(v):
    return v.tolist() if isinstance(v, np.ndarray) else repr(v)

def show(q):
    if isinstance(q, Quantity):
        out = {
            "value": repr(num(q.magnitude.value)),
            "error": repr(None if q.magnitude.error is None else num(q.magnitude.error)),
            "units": q.units(),
            "exponents": repr(q.baseunits.value()),
            "dims": repr(q.baseunits.dimensions.value()),
            "str": str(q),
        }
        # the same result re-expressed in base dimensions
        try:
            base = copy.deepcopy(q).to(q.baseunits.dimensions)
            out["base"] = [repr(num(base.magnitude.value)), base.units()]
        except BaseException as exc:
            out["base"] = "raises " + type(exc).__name__
        return out
    if isinstance(q, np.ndarray):
        return {"array": repr(q.tolist())}
    return {"plain": repr(q)}

results = []
def case(label, fn):
    try:
        out = show(fn())
    except BaseException as exc:          # only the exception type is observable
        out = {"raises": type(exc).__name__}
    results.append([label, out])

Q = Quantity
operands = [
    ("1.5 m", lambda: Q(1.5, "m")), ("25 cm", lambda: Q(25, "cm")), ("3 km", lambda: Q(3, "km")),
    ("2 ft", lambda: Q(2, "ft")), ("7 s", lambda: Q(7, "s")), ("4 min", lambda: Q(4, "min")),
    ("2 kg", lambda: Q(2, "kg")), ("5 lb", lambda: Q(5, "lb")), ("3 J", lambda: Q(3, "J")),
    ("9 erg", lambda: Q(9, "erg")), ("12 N*m", lambda: Q(12, "N*m")), ("6 km/h", lambda: Q(6, "km/h")),
    ("2 m/s", lambda: Q(2, "m/s")), ("8 kg*m2/s2", lambda: Q(8, "kg*m2/s2")), ("5 Hz", lambda: Q(5, "Hz")),
    ("3 eV", lambda: Q(3, "eV")), ("2.5", lambda: Q(2.5)), ("4 m1:2", lambda: Q(4, "m1:2")),
    ("arr m", lambda: Q([1.0, 2.0, 4.0], "m")), ("arr cm", lambda: Q(np.array([10.0, 20.0, 40.0]), "cm")),
    ("-3 mm", lambda: Q(-3, "mm")), ("1e-9 Gm", lambda: Q(1e-9, "Gm")), ("2 %", lambda: Q(2, "%")),
    ("30 deg", lambda: Q(30, "deg")), ("1 W", lambda: Q(1, "W")), ("3 J/s", lambda: Q(3, "J/s")),
]
ops = [
    ("+", lambda a, b: a + b), ("-", lambda a, b: a - b),
    ("*", lambda a, b: a * b), ("/", lambda a, b: a / b),
]
# all ordered pairs, all four binary operations (incompatible sums must raise)
for la, fa in operands:
    for lb, fb in operands:
        for lo, fo in ops:
            case(f"{la} {lo} {lb}", lambda fa=fa, fb=fb, fo=fo: fo(fa(), fb()))
# plain numbers on either side
for la, fa in operands:
    for n in [2, 0.5, -3]:
        for lo, fo in ops:
            case(f"{la} {lo} {n}", lambda fa=fa, fo=fo, n=n: fo(fa(), n))
            case(f"{n} {lo} {la}", lambda fa=fa, fo=fo, n=n: fo(n, fa()))
    case(f"neg {la}", lambda fa=fa: -fa())
    case(f"{la} * arr", lambda fa=fa: fa() * Q([1.0, 2.0, 4.0]))
    case(f"arr / {la}", lambda fa=fa: Q([1.0, 2.0, 4.0], "kg") / fa())
# powers: integer, (num, den) pair, float, Fraction
powers = [2, 3, -1, 0, 1, (1, 2), (3, 2), (-2, 3), (2, 1), 0.5, 1.5, -0.25, 2.0, 0.3333333333333333,
          Fraction(1, 2), Fraction(-3, 2), Fraction(4, 2)]
for la, fa in operands:
    for p in powers:
        case(f"{la} ** {p!r}", lambda fa=fa, p=p: fa() ** p)
case("sqrt m2", lambda: np.sqrt(Q(9, "m2")))
case("cbrt m3", lambda: np.cbrt(Q(27, "cm3")))
case("np.power", lambda: np.power(Q(3, "cm"), 3))
case("(m2)**(1,2)**2", lambda: (Q(4, "m2") ** (1, 2)) ** 2)
# cancelling dimensions: units dropped, factors folded into the number
case("km/m", lambda: Q(3, "km") / Q(2, "m"))
case("m/km", lambda: Q(3, "m") / Q(2, "km"))
case("J/erg", lambda: Q(3, "J") / Q(9, "erg"))
case("min*Hz", lambda: Q(4, "min") * Q(5, "Hz"))
case("km*m-1 literal", lambda: Q(2, "km*m-1"))
case("km2/cm2 arr", lambda: Q([1.0, 2.0], "km2") / Q(4, "cm2"))
case("partial cancel", lambda: Q(3, "km*s") / Q(2, "m*kg"))
case("J*s/J", lambda: Q(3, "J*s") / Q(2, "J"))
case("(m/s)*s", lambda: Q(2, "m/s") * Q(7, "s"))
case("m**2/m2", lambda: Q(2, "m") ** 2 / Q(4, "m2"))
case("(km/m)**0.5", lambda: (Q(4, "km") / Q(1, "m")) ** 0.5)
# errors are propagated
case("err +", lambda: Q(1.5, "m", abse=0.1) + Q(25, "cm", abse=2))
case("err -", lambda: Q(1.5, "m", abse=0.1) - Q(25, "cm"))
case("err *", lambda: Q(1.5, "m", abse=0.1) * Q(7, "s", abse=0.5))
case("err /", lambda: Q(1.5, "m", rele=10) / Q(7, "s", abse=0.5))
case("err **", lambda: Q(1.5, "m", abse=0.1) ** 2)
case("err neg", lambda: -Q(1.5, "m", abse=0.1))
# Decimal magnitudes
case("dec +", lambda: Q(Decimal("1.5"), "m") + Q(Decimal("25"), "cm"))
case("dec *", lambda: Q(Decimal("1.5"), "m") * Q(Decimal("4"), "s"))
# refused sums and invalid operands
case("m + Hz-1?", lambda: Q(1, "s") + Q(2, "Hz"))
case("s - Hz", lambda: Q(1, "s") - Q(2, "Hz"))
case("m + str", lambda: Q(1, "m") + "a")
case("m * None", lambda: Q(1, "m") * None)
case("1 + m", lambda: 1 + Q(1, "m"))
case("m - 1", lambda: Q(1, "m") - 1)
case("1 + %", lambda: 1 + Q(50, "%"))
case("rad + 1", lambda: Q(1, "rad") + 1)
case("equality", lambda: (Q(1, "m") + Q(5, "cm")) == Q(105, "cm"))
case("rebase", lambda: (Q(2, "km") * Q(3, "m") * Q(5, "cm")).rebase())

print(json.dumps(results))
'''


def run(root):
    proc = subprocess.run([sys.executable, "-c", CHILD, root],
                          capture_output=True, text=True)
    if proc.returncode != 0:
        sys.stderr.write(proc.stderr)
        raise SystemExit(2)
    return json.loads(proc.stdout.strip().splitlines()[-1])


def main():
    if len(sys.argv) != 3:
        raise SystemExit("usage: diff.py <base tree> <refactored tree>")
    base, new = run(sys.argv[1]), run(sys.argv[2])
    bad = 0
    if len(base) != len(new):
        print("different number of cases", len(base), len(new))
        bad += 1
    for (l1, o1), (l2, o2) in zip(base, new):
        if l1 != l2 or o1 != o2:
            bad += 1
            print("DIFF", l1, o1, o2)
    nexc = sum(1 for _, o in base if "raises" in o)
    print(f"{len(base)} cases compared ({nexc} raising), {bad} differences")
    sys.exit(1 if bad else 0)


if __name__ == "__main__":
    main()
