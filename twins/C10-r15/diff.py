#!/venv/bin/python
"""Differential check for property C10 (formula -> atoms decomposition).

usage: diff.py <unmodified tree root> <refactored tree root>
Runs the same inputs against both trees (each in its own subprocess with its
own sys.path) and exits 0 iff all observable outputs are identical.
"""
import sys, subprocess, json

WORKER = r'''
import sys, json, io, contextlib, warnings
warnings.filterwarnings("ignore")
sys.path.insert(0, sys.argv[1] + "/src")
from scinumtools.materials import Substance, Element, SubstanceSolver, Material
from scinumtools.units import Quantity

def norm(v):
    if isinstance(v, Quantity):
        return ["Q", repr(float(v.value())) if not hasattr(v.value(), "__len__") else repr(v.value()), str(v.units())]
    try:
        import numpy as np
        if isinstance(v, (np.floating, np.integer)):
            return [type(v).__name__, repr(v.item())]
    except Exception:
        pass
    return [type(v).__name__, repr(v)]

def element_obs(e):
    return {
        "expr": e.expr, "element": norm(e.element), "isotope": norm(e.isotope),
        "ionisation": norm(e.ionisation), "Z": norm(e.Z), "N": norm(e.N), "e": norm(e.e),
        "mass": norm(e.mass), "proportion": norm(e.proportion),
        "component_mass": norm(e.component_mass), "composite_mass": norm(e.composite_mass),
        "str": str(e),
    }

def substance_obs(s):
    out = {"expr": s.expr, "keys": list(s.components.keys()), "str": str(s),
           "proportion_norm": norm(s.proportion_norm), "composite_mass": norm(s.composite_mass),
           "components": {k: element_obs(c) for k, c in s.components.items()}}
    for name, fn in (("dc", s.data_components), ("dC", s.data_composite)):
        for q in (True, False):
            t = fn(quantity=q)
            if t is None:
                out[f"{name}{q}"] = None
            else:
                out[f"{name}{q}"] = {str(k): {str(c): norm(x) for c, x in row.items()} for k, row in t.data().items()}
    buf = io.StringIO()
    with contextlib.redirect_stdout(buf):
        if s.components:
            s.print()
    out["print"] = buf.getvalue()
    return out

def guard(fn):
    try:
        return ["ok", fn()]
    except BaseException as exc:
        return ["exc", type(exc).__name__]

FORMULAS = [
    "H2O", "DT", "C2H5OH", "NaCl", "Ca(OH)2", "Al2(SO4)3", "(NH4)2SO4",
    "Mg3(Si2O5)(OH)4", "((CH3)2CH)2O", "H{1}2O{16}", "H{2+}O{-2}", "O{16-2}3",
    "U{235}O2", "U{238}", "Fe{56+3}2O{-2}3", "[p]2[n]2[e]2", "[p][e]", "[n]",
    "H2 O", "H2 + O", "H * 2 + O", "(H2O)3", "2", "He{3}", "D2O", "T{+}", "D{-}2",
    "H{+}", "H{-}", "Cl{-}", "Na{+}Cl{-}", "C{12}C{13}C{14}", "Og", "Xx", "H{99}",
    "H2O)", "(H2O", "", "h2o", "Ca (OH)2 Mg", "(Fe2O3)2(H2O)3", "K4Fe(CN)6",
    "C60", "Li{7+}", "B{10}", "(((H)2)3)4", "H2O + NaCl", "U{235+92}",
    "Pb{208}Pb{207}Pb{206}", "He4", "H1", "H0", "O{+2}2", "Sn", "Tc", "Pm", "(OH)Na", "Ca(OH)Cl", "(H2O)3NaCl", "(OH) Na", "(OH)2 Na", "Ca (OH)",
]
ELEMENTS = [
    ("H", 1), ("O", 2), ("D", 1), ("T", 3), ("D{+}", 1), ("T{-2}", 2), ("H{1}", 1), ("H{3}", 1),
    ("He{3+2}", 1), ("Fe{+3}", 2), ("Fe{56}", 1), ("Cl{-}", 1), ("Na{+}", 1), ("U{235-}", 1),
    ("[p]", 1), ("[n]", 4), ("[e]", 2), ("Xx", 1), ("H{99}", 1), ("1H", 1), ("", 1),
    ("C{14+}", 1), ("C{-}", 1), ("O{16+}", 1), ("O{18-2}", 3), ("Og", 1), ("Tc", 1),
    ("He{+}", 1), ("He{-1}", 1), ("D{3}", 1), ("D{3+}", 2), ("T{1-2}", 1), ("Dy", 1), ("Ti{48}", 1), ("He{4}", 0.5), ("H{+0}", 1), ("H{0}", 1), ("H{2-0}", 1),
]
SOLVER_INPUTS = ["H2O", "Ca(OH)2", "Al2(SO4)3", "H{1}2 O", "[p]2[n]", "(H2O)3NaCl", "H2O(NaCl)2Fe",
                 "U{235}O2", "A B C", "(OH)Na", "(OH) Na", "(OH)2 Na", "", ")(", "H2   O", "((H)2)3"]

results = {}
for nat in (True, False):
    for f in FORMULAS:
        results[f"S|{nat}|{f}"] = guard(lambda: substance_obs(Substance(f, natural=nat)))
    for ex, prop in ELEMENTS:
        results[f"E|{nat}|{ex}|{prop}"] = guard(lambda: element_obs(Element(ex, prop, natural=nat)))
    for ex in ("H", "O", "Fe", "U", "Sn", "Og", "Xx"):
        e0 = guard(lambda: Element("H", natural=nat))
        for meth, args in (("get_isotope", (ex, None, None)), ("get_isotope", (ex, 0, 2)),
                           ("get_isotope", (ex, 3, -1)), ("get_abundant", (ex, 1)),
                           ("get_abundant", (ex, None)), ("get_natural", (ex, 0)), ("get_natural", (ex, -2))):
            results[f"M|{nat}|{ex}|{meth}|{args}"] = guard(
                lambda: [norm(x) for x in getattr(Element("H", natural=nat), meth)(*args)])
    # arithmetic on substances / elements
    ops = {
        "add_ss": lambda: substance_obs(Substance("H2O", natural=nat) + Substance("NaCl", natural=nat)),
        "add_overlap": lambda: substance_obs(Substance("H2O", natural=nat) + Substance("H2O2", natural=nat)),
        "add_se": lambda: substance_obs(Substance("H2O", natural=nat) + Element("O", 2, natural=nat)),
        "add_se_new": lambda: substance_obs(Substance("H2O", natural=nat) + Element("C{13}", natural=nat)),
        "add_empty": lambda: substance_obs(Substance(natural=nat) + Substance("CO2", natural=nat)),
        "add_bad": lambda: substance_obs(Substance("H2O", natural=nat) + 3),
        "add_bad2": lambda: substance_obs(Substance("H2O", natural=nat) + "O"),
        "mul_3": lambda: substance_obs(Substance("Ca(OH)2", natural=nat) * 3),
        "mul_half": lambda: substance_obs(Substance("H2O", natural=nat) * 0.5),
        "mul_add": lambda: substance_obs((Substance("H2O", natural=nat) * 2 + Substance("D2O", natural=nat)) * 2),
        "dict": lambda: substance_obs(Substance({"H": 2, "O{16}": 1, "Fe{+3}": 2}, natural=nat)),
        "dict_bad": lambda: substance_obs(Substance({"H": 2, "Xx": 1}, natural=nat)),
        "el_mul": lambda: element_obs(Element("O{16-2}", 2, natural=nat) * 3),
        "el_add": lambda: element_obs(Element("O", 2, natural=nat) + Element("O", 1, natural=nat)),
        "el_add_bad": lambda: element_obs(Element("O", 2, natural=nat) + Element("H", 1, natural=nat)),
        "add_method": lambda: (lambda s: (s.add("H", 2), s.add("O"), s.add("H", 1), substance_obs(s))[-1])(Substance(natural=nat)),
        "density": lambda: (lambda s: [substance_obs(s), norm(s.mass_density), norm(s.number_density), norm(s.mass)])(
            Substance("H2O", natural=nat, mass_density=Quantity(997, "kg/m3"), volume=Quantity(1, "l"))),
    }
    def material_obs(m):
        return {"expr": m.expr, "str": str(m), "keys": list(m.components.keys()),
                "proportion_norm": norm(m.proportion_norm), "composite_mass": norm(m.composite_mass),
                "subs": {k: substance_obs(c) for k, c in m.components.items()},
                "props": {k: norm(c.proportion) for k, c in m.components.items()}}
    ops.update({
        "mat_add_mm": lambda: material_obs(Material({"H2O": 0.7, "NaCl": 0.3}, natural=nat) + Material({"H2O": 0.1, "CO2": 0.2}, natural=nat)),
        "mat_add_ms": lambda: material_obs(Material({"N2": 0.78, "O2": 0.21}, natural=nat) + Substance("Ar", proportion=0.01, natural=nat)),
        "mat_add_bad": lambda: material_obs(Material({"N2": 0.78}, natural=nat) + 1),
    })
    for k, fn in ops.items():
        results[f"O|{nat}|{k}"] = guard(fn)

for s in SOLVER_INPUTS:
    results[f"P|{s}"] = guard(lambda: SubstanceSolver(lambda x: x).preprocess(s))

print(json.dumps(results, sort_keys=True, default=repr))
'''

def run(root):
    p = subprocess.run([sys.executable, "-c", WORKER, root], capture_output=True, text=True)
    if p.returncode != 0:
        sys.stderr.write(p.stderr)
        raise SystemExit(2)
    return json.loads(p.stdout)

def main():
    a, b = run(sys.argv[1]), run(sys.argv[2])
    bad = [k for k in sorted(set(a) | set(b)) if a.get(k) != b.get(k)]
    nok = sum(1 for v in a.values() if v[0] == "ok")
    print(f"{len(a)} cases ({nok} returning, {len(a)-nok} raising) compared; {len(bad)} differ")
    for k in bad[:20]:
        print("DIFF", k, "\n  base:", json.dumps(a.get(k))[:400], "\n  new: ", json.dumps(b.get(k))[:400])
    sys.exit(1 if bad else 0)

if __name__ == "__main__":
    main()
