#!/venv/bin/python
"""Differential check for property C07 (operations never alter their operands).

usage: diff.py <unmodified tree root> <refactored tree root>

Runs the same battery of cases against both trees (each in its own
subprocess with its own sys.path) and exits 0 iff every observable output
(values, units, uncertainties, raised exception types) is identical.
"""
import json
import os
import subprocess
import sys

WORKER = r'''
import sys, json, warnings
root = sys.argv[1]
sys.path.insert(0, root + '/src')
warnings.simplefilter('ignore')
import numpy as np
from decimal import Decimal
import scinumtools
assert scinumtools.__file__.startswith(root + '/'), scinumtools.__file__
from scinumtools.units import Quantity, Unit

def val(v):
    if isinstance(v, np.ndarray):
        return ['arr', [repr(float(x)) for x in v.ravel()], list(v.shape)]
    if isinstance(v, Decimal):
        return ['dec', str(v)]
    if isinstance(v, (bool, np.bool_)):
        return ['bool', bool(v)]
    if isinstance(v, (int, float, np.floating, np.integer)):
        return ['num', repr(float(v))]
    if v is None:
        return None
    return ['other', repr(v)]

def snap(q):
    if isinstance(q, Quantity):
        try:
            text = str(q)
        except BaseException as e:   # e.g. array value with scalar error
            text = {'raised': type(e).__name__}
        return {'value': val(q.magnitude.value), 'units': q.units(),
                'error': val(q.magnitude.error), 'str': text,
                'base': repr(q.baseunits)}
    return val(q)

def Q(spec):
    mag, unit, kw = spec
    if isinstance(mag, tuple) and mag[0] == 'dec':
        mag = Decimal(mag[1])
    elif isinstance(mag, list):
        mag = np.array(mag, dtype=float)
    return Quantity(mag, unit, **kw)

out = []
def record(name, fn):
    try:
        res = fn()
    except BaseException as e:
        res = {'raised': type(e).__name__}
    out.append([name, res])

PAIRS = [
    ('same',     (3.0, 'm', {}),                 (2.0, 'm', {})),
    ('diffunit', (3.0, 'km', {}),                (250.0, 'cm', {})),
    ('abse',     (3.0, 'km', {'abse': 0.1}),     (250.0, 'm', {'abse': 5.0})),
    ('rele',     (4.0, 'kg', {'rele': 10}),      (500.0, 'g', {})),
    ('array',    ([1.0, 2.0, 4.0], 'm', {}),     ([10., 20., 30.], 'cm', {})),
    ('arrerr',   ([1.0, 2.0, 4.0], 'm', {'abse': 0.5}), (2.0, 'km', {'abse': 0.01})),
    ('decimal',  (('dec', '1.25'), 'm', {}),     (('dec', '0.75'), 'm', {})),
    ('decmix',   (('dec', '1.25'), 'km', {}),    (3.0, 'm', {})),
    ('log',      (20.0, 'dBm', {}),              (10.0, 'dBm', {})),
    ('logdiff',  (2.0, 'dBW', {}),               (30.0, 'dBm', {})),
    ('temp',     (20.0, 'Cel', {}),              (300.0, 'K', {})),
    ('incompat', (3.0, 'm', {}),                 (2.0, 's', {})),
    ('inverse',  (2.0, 's', {}),                 (4.0, 'Hz', {})),
    ('nodim',    (3.0, None, {}),                (0.5, None, {})),
]

OPS = {
    'add': lambda a, b: a + b,
    'sub': lambda a, b: a - b,
    'mul': lambda a, b: a * b,
    'div': lambda a, b: a / b,
    'eq':  lambda a, b: a == b,
    'radd': lambda a, b: 2 + b,
    'rsub': lambda a, b: 2 - b,
    'rmul': lambda a, b: 2 * a,
    'rdiv': lambda a, b: 2 / a,
    'neg': lambda a, b: -a,
    'pow2': lambda a, b: a ** 2,
    'powt': lambda a, b: a ** (1, 2),
}

CONV = {'same': ('km', 'cm'), 'diffunit': ('m', 'mm'), 'abse': ('m', 'cm'),
        'rele': ('g', 'mg'), 'array': ('mm', 'km'), 'arrerr': ('cm', 'mm'),
        'decimal': ('cm', 'km'), 'decmix': ('m', 'cm'), 'log': ('mW', 'dBW'),
        'logdiff': ('dBm', 'W'), 'temp': ('K', 'degF'), 'incompat': ('cm', 'ms'),
        'inverse': ('ms', 'kHz'), 'nodim': ('%', 'rad')}

for pname, sa, sb in PAIRS:
    for oname, op in OPS.items():
        def case():
            a, b = Q(sa), Q(sb)
            before = [snap(a), snap(b)]
            r = op(a, b)
            res = {'result': snap(r), 'before': before, 'after': [snap(a), snap(b)]}
            ua, ub = CONV[pname]
            # convert the result in place: operands must not follow
            if isinstance(r, Quantity):
                try:
                    r.to(r.units() if r.units() else None)
                    r.rebase()
                    r.abse(0.25)
                    res['result_inplace'] = snap(r)
                except BaseException as e:
                    res['result_inplace'] = {'raised': type(e).__name__}
                res['after_result_inplace'] = [snap(a), snap(b)]
            # convert the operands in place: result must not follow
            for tag, q, u in (('a', a, ua), ('b', b, ub)):
                try:
                    q.to(u)
                    res['to_' + tag] = snap(q)
                except BaseException as e:
                    res['to_' + tag] = {'raised': type(e).__name__}
            res['result_after_operand_to'] = snap(r)
            res['final'] = [snap(a), snap(b)]
            return res
        record('%s/%s' % (pname, oname), case)

# value-in-other-unit queries
for name, spec, targets in [
    ('len',  (3.0, 'km', {'abse': 0.1}), ['m', 'cm', 'km', 's']),
    ('arr',  ([1.0, 2.0], 'kg', {}),     ['g', 'mg', 'm']),
    ('dec',  (('dec', '2.5'), 'm', {}),  ['cm', 'km']),
    ('log',  (20.0, 'dBm', {}),          ['mW', 'W', 'dBW', 'm']),
    ('temp', (25.0, 'Cel', {}),          ['K', 'degF', 'degR']),
    ('freq', (2.0, 's', {}),             ['Hz', 'kHz']),
]:
    def case():
        q = Q(spec)
        before = snap(q)
        vals = []
        for t in targets:
            try:
                vals.append(val(q.value(t)))
            except BaseException as e:
                vals.append({'raised': type(e).__name__})
        try:
            vals.append(val(q.value(targets[0], dtype=int)))
        except BaseException as e:
            vals.append({'raised': type(e).__name__})
        vals.append(val(q.value()))
        return {'before': before, 'values': vals, 'after': snap(q)}
    record('value/' + name, case)

# NumPy functions
NPF = {
    'sqrt': lambda q: np.sqrt(q), 'cbrt': lambda q: np.cbrt(q),
    'power': lambda q: np.power(q, 3), 'sin': lambda q: np.sin(q),
    'cos': lambda q: np.cos(q), 'tan': lambda q: np.tan(q),
    'arcsin': lambda q: np.arcsin(q), 'arccos': lambda q: np.arccos(q),
    'arctan': lambda q: np.arctan(q), 'isnan': lambda q: np.isnan(q),
    'abs': lambda q: np.abs(q), 'absolute': lambda q: np.absolute(q),
    'round': lambda q: np.round(q), 'floor': lambda q: np.floor(q),
    'ceil': lambda q: np.ceil(q), 'sum': lambda q: np.sum(q),
    'exp': lambda q: np.exp(q), 'negative': lambda q: np.negative(q),
    'linspace': lambda q: np.linspace(q, Quantity(5, 'km'), 4),
    'linspace_num': lambda q: np.linspace(q, 7, 3),
    'logspace': lambda q: np.logspace(q, Quantity(2, 'm'), 3),
    'mean': lambda q: np.mean(q),
    'power_rev': lambda q: np.power(2, q),
}
for name, spec in [
    ('len',   (4.0, 'm2', {})),
    ('vol',   (27.0, 'cm3', {'abse': 0.5})),
    ('deg',   (30.0, 'deg', {})),
    ('rad',   (0.5, 'rad', {})),
    ('ratio', (0.5, None, {})),
    ('arr',   ([0.25, -0.5, 1.0], 'm', {})),
    ('arrdeg', ([0.0, 45.0, 90.0], 'deg', {})),
    ('pct',   (50.0, '%', {})),
    ('dist',  (1.5, 'm', {'rele': 2})),
]:
    for fname, fn in NPF.items():
        def case():
            q = Q(spec)
            before = snap(q)
            r = fn(q)
            res = {'result': snap(r), 'before': before, 'after': snap(q)}
            if isinstance(r, Quantity):
                try:
                    r.rebase()
                    r.abse(0.5)
                    res['result_inplace'] = snap(r)
                except BaseException as e:
                    res['result_inplace'] = {'raised': type(e).__name__}
                res['after_result_inplace'] = snap(q)
            try:
                q.rebase()
                q.rele(5)
                res['operand_inplace'] = snap(q)
            except BaseException as e:
                res['operand_inplace'] = {'raised': type(e).__name__}
            res['result_final'] = snap(r)
            return res
        record('np/%s/%s' % (name, fname), case)

# in-place methods: to / rebase / abse / rele (incl. conversion to a Quantity)
def inplace_case(spec, target):
    def case():
        q = Q(spec)
        other = Quantity(2.0, target) if target else None
        res = {'before': snap(q)}
        ret = q.to(other if other is not None else 'm')
        res['same_object'] = ret is q
        res['after_to'] = snap(q)
        res['other'] = snap(other)
        q.rele(10)
        res['rele'] = [snap(q), val(q.rele()), val(q.abse())]
        q.abse(0.3)
        res['abse'] = [snap(q), val(q.rele()), val(q.abse())]
        return res
    return case
record('inplace/km_to_m',   inplace_case((3.0, 'km', {}), None))
record('inplace/km_to_2cm', inplace_case((3.0, 'km', {'abse': 0.2}), 'cm'))
record('inplace/arr_to_2mm', inplace_case(([1.0, 2.0], 'm', {}), 'mm'))
record('inplace/s_to_m',    inplace_case((3.0, 's', {}), None))
for expr in ['km*m', 'cm2*m-1', 'kg*g*m', 'J*erg-1', 'm*s-1', 'km*cm*mm']:
    def case():
        q = Quantity(7.0, expr, abse=0.7)
        before = snap(q)
        ret = q.rebase()
        return {'before': before, 'same_object': ret is q, 'after': snap(q)}
    record('rebase/' + expr, case)

# magnitude sharing: error objects of arrays
def shared_err():
    a = Quantity(np.array([1.0, 2.0]), 'm', abse=0.5)
    b = Quantity(np.array([3.0, 4.0]), 'm')
    res = {}
    for oname in ('add', 'sub', 'mul', 'div'):
        r = OPS[oname](a, b)
        r2 = OPS[oname](b, a)
        res[oname] = [snap(r), snap(r2),
                      r.magnitude.error is a.magnitude.error,
                      r2.magnitude.error is a.magnitude.error,
                      r.magnitude.value is a.magnitude.value]
        if r.magnitude.error is not None:
            r.magnitude.error[0] = 99.0
        res[oname + '_operand_after'] = [snap(a), snap(b)]
    return res
record('shared_error_arrays', shared_err)

# error propagation through +/- for every combination of present/missing errors
from scinumtools.units.magnitude import Magnitude
def msnap(m):
    return {'value': val(m.value), 'error': val(m.error)}
MAGS = {
    'f':    lambda: Magnitude(3.0),
    'fe':   lambda: Magnitude(3.0, abse=0.2),
    'fr':   lambda: Magnitude(8.0, rele=5),
    'a':    lambda: Magnitude(np.array([1.0, 2.0])),
    'ae':   lambda: Magnitude(np.array([1.0, 2.0]), abse=0.1),
    'd':    lambda: Magnitude(Decimal('1.5')),
    'de':   lambda: Magnitude(Decimal('1.5'), abse=0.5),
}
for n1, m1 in MAGS.items():
    for n2, m2 in MAGS.items():
        for oname in ('add', 'sub', 'mul', 'div'):
            def case():
                a, b = m1(), m2()
                before = [msnap(a), msnap(b)]
                r = OPS[oname](a, b)
                res = {'result': msnap(r), 'before': before, 'after': [msnap(a), msnap(b)],
                       'shares': [r.error is a.error and a.error is not None and isinstance(a.error, np.ndarray),
                                  r.error is b.error and b.error is not None and isinstance(b.error, np.ndarray)]}
                r.abse(7.0)
                a.abse(9.0)
                res['independent'] = [msnap(r), msnap(a), msnap(b)]
                return res
            record('mag/%s/%s/%s' % (n1, oname, n2), case)
for n1, m1 in MAGS.items():
    def case():
        a = m1()
        return [msnap(2 + a), msnap(2 - a), msnap(a + 2), msnap(a - 2), msnap(a)]
    record('mag/scalar/' + n1, case)

json.dump(out, sys.stdout)
'''


def run(root):
    root = os.path.abspath(root)
    env = dict(os.environ)
    env.pop('PYTHONPATH', None)
    env['PYTHONDONTWRITEBYTECODE'] = '1'
    p = subprocess.run([sys.executable, '-c', WORKER, root], capture_output=True,
                       text=True, env=env, cwd='/')
    if p.returncode != 0:
        sys.stderr.write(p.stderr)
        raise SystemExit(2)
    return json.loads(p.stdout)


def main():
    base = run(sys.argv[1])
    new = run(sys.argv[2])
    bad = 0
    if len(base) != len(new):
        print('different number of cases', len(base), len(new))
        bad += 1
    for (n1, r1), (n2, r2) in zip(base, new):
        if n1 != n2 or r1 != r2:
            bad += 1
            print('DIFF', n1, '\n  base:', json.dumps(r1)[:400], '\n  new: ', json.dumps(r2)[:400])
    print('%d cases compared, %d differences' % (len(base), bad))
    sys.exit(0 if bad == 0 else 1)


if __name__ == '__main__':
    main()
