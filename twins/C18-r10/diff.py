#!/venv/bin/python
"""Differential check for C18 (DIP numerical / logical / template expressions).

usage: diff.py <unmodified tree root> <refactored tree root>
Runs the same inputs against each tree in its own subprocess and exits 0 iff
all observable outputs (values, units, raised exception types) are identical.
"""
import sys, json, subprocess

RUNNER = r'''
import sys, json, warnings
warnings.filterwarnings("ignore")
root = sys.argv[1]
sys.path.insert(0, root + "/src")
import numpy as np
from scinumtools.dip import DIP
from scinumtools.dip.solvers import NumericalSolver, LogicalSolver, TemplateSolver

SRC = """
$unit length = 2 cm
$unit mass = 3 g
a float = 10 m
b float = 300 cm
c int = 7
w float = 57.3 kg
e float = 4 J
lu float = 5 [length]
mu float = 2 [mass]
flag bool = true
off bool = false
name str = "William Smith"
id int = 345
dogs int = 23
birds int = 23
cats int = 44
arr float[2,3] = [[23.4,235.4,34],[1e10,2e23,5e20]]
vec int[3] = [1,2,3] cm
body
  weight float = 62.3 kg
  height float = 177 cm
"""

def make_env():
    with DIP() as dip:
        dip.add_unit("velocity", 13, "cm/s")
        dip.add_string(SRC)
        return dip.parse()

def show(x):
    if isinstance(x, (bool, np.bool_)):
        return ["bool", bool(x)]
    if isinstance(x, (int, float, str)) or x is None:
        return [type(x).__name__, repr(x)]
    out = [type(x).__name__]
    if hasattr(x, "magnitude"):      # Quantity: exact magnitude, base units, symbol
        try:
            out.append(repr(x.value()))
        except Exception as e:
            out.append("value-exc:" + type(e).__name__)
        out.append(repr(getattr(x.magnitude, "__dict__", x.magnitude)))
        out.append(str(getattr(x, "baseunits", None)))
        out.append(repr(getattr(x, "symbol", None)))
    if hasattr(x, "units") and callable(getattr(x, "units")):
        try:
            out.append(str(x.units()))
        except Exception as e:
            out.append("units-exc:" + type(e).__name__)
    if hasattr(x, "value") and not callable(getattr(x, "value")):
        out.append(repr(x.value))
        out.append(repr(getattr(x, "unit", None)))
    out.append(str(x))
    return out

def run(fn):
    try:
        return ["ok", show(fn())]
    except BaseException as e:
        return ["exc", type(e).__name__]

NUM = [
    ("2 + 4 - 3", None), ("1 - -3 + -4", None), ("34 cm + 4 mm", "cm"),
    ("10 m + 4 cm + 3 m + 1 mm", "m"), ("3 m - 5 cm", "cm"), ("10 m - 1 m + 3 cm - 3 mm", "mm"),
    ("8 / 4 * 3", None), ("2 * 3 * 4", None), ("8 / 2 / 4", None), ("-8 / 2 * -4", None),
    ("10 m * 2 cm", "m2"), ("4 cm2 + 10 m * 2 cm - 0.2 m2", "m2"), ("10 m2 / 200 cm", "dm"),
    ("3 kg * 4 m2 / 2 s2 + 1e7 erg", "J"), ("23 kg*m2/s2 / 2 J", None),
    ("2 + 3 * 4", None), ("2 * 3 + 4", None), ("20 - 6 / 3 - 1", None), ("2 - 3 - 4", None),
    ("(10 m - 1 m) + 3 cm - 3 mm", "m"), ("10 m - (1 m + 3 cm - 3 mm)", "m"),
    ("4 m2 + 10000 mm * (300 cm - 1 m)", "m2"), ("36 m2 / (20 dm * 300 cm) - 1", None),
    ("(2 + (3 - 4))", None), ("exp(10 m / 5 cm)", None), ("log(10 m / 5 cm)", None),
    ("log10(10 m / 5 cm)", None), ("sin(10 m / 5 cm)", None), ("cos(2)", None), ("tan(0.5)", None),
    ("sqrt(16 m2)", "m"), ("pow(10 m, 2)", "m2"), ("logb(8, 2)", None),
    ("3 m * log10({?a} / (7 cm - 20 mm)) + {?b}", "m"), ("{?a} + {?b}", "cm"), ("{?a} - {?b} * 2", "m"),
    ("{?c} * {?a} / {?b}", None), ("{?lu} + 1 cm", "cm"), ("{?mu} * 2", "g"), ("3 [length] + 1 cm", "cm"),
    ("2 [mass] + {?mu}", "g"), ("2 [velocity] * 2 s", "cm"), ("{?e} + 1e7 erg", "J"),
    ("1 + 2 m", None), ("2 m + 1", None),
    ("10 m + 1 J", None), ("10 m - 1 J", None), ("{?a} + {?w}", None), ("1 Hz + 1 s", None), ("1 s - 1 Hz", None),
    ("{?missing} + 1", None), ("(1 + 2", None), ("1 + ", None), ("", None), ("- 3 m + 5 m", "m"), ("+ 3 + 2", None),
    ("2 - + 3", None), ("2 + - 3", None), ("2 - - 3", None), ("3 m", "J"), (5, None), (2.5, "m"),
]

EQ = [
    ("2 + 4 - 3", "3"), ("34 cm + 4 mm", "34.4 cm"), ("10 m2 / 200 cm", "50 dm"), ("3 m", "4 m"),
    ("1 m", "1 J"), ("1", "1 m"), ("1 m", "1"), ("{?a}", "1000 cm"), ("{?lu}", "10 cm"), ("1 + 1e-9", "1"),
]

LOG = [
    "true || true || true", "false || true || false", "false || false || false", "true && false && true",
    "true && true && true || false || false", "false || true && false && true || true",
    "false || false || true && false && true", "(true || false) && true && true",
    "false || ((false||true) || false) && (true||false)", "true || false && false", "(true || false) && false",
    "{?dogs} == {?cats}", "{?dogs} == {?birds}", "{?dogs} != {?cats}", "{?dogs} <= {?cats}", "{?dogs} >= {?cats}",
    "{?dogs} <  {?cats}", "{?dogs} >  {?cats}", "{?flag}", "~{?flag}", "~~{?flag}", "~{?off} && {?flag}",
    "!{?dogs}", "!{?elefant}", "!{?elefant} == false", "~!{?elefant}", "{?elefant} == 1", "{?elefant}",
    "{?w} == 57.30 kg", "{?w} == 57.31 kg", "{?w} == 57.30001 kg", "{?w} == 57.3000001 kg", "{?w} != 57.30 kg",
    "{?w} >= 57300 g", "{?w} > 60000 g", "{?w} < 50", "{?w} < 60", "{?a} == 1000 cm", "{?a} == {?b}",
    "{?lu} == 10 cm", "{?lu} > 1 [length]", "{?mu} == 6 g", "{?a} == 10 J", "{?a} < 1 kg",
    "{?a} > 30 cm || ({?a} < 0.4 m || {?a} >= 34) && ({?c} == 1 && {?c}<={?dogs}) && {?flag} || ~!{?color}",
    "1 == 1", "1 == 1.0000001", "1 == 1.00001", "2 < 3 && 3 < 2", "~(2 < 3)", "", "   ", "true &&", "(true",
    "23 == 23 && ~false", "!{?flag} && {?flag}", "~ {?off}", "{?name} == 'William Smith'",
]

TPL = [
    "ID: {{?id}:05d}", "Name: {{?name}}", "Weight: {{?body.weight}:.3e}", "Height: {{?body.height}:.2f}",
    "Married: {{?flag}}", "Surname: {{?name}[8:]}", "Scalar: {{?arr}[1,1]:.2e}", "Array:\n{{?arr}[:,1:]}",
    "v = {{?vec}[0]:03d} and {{?vec}[2]}", "no refs here", "", "{", "}", "{ {?id} }", "{{?id}", "{{?id}:05d",
    "{{?missing}}", "a{b}c", "{{?id}:>8d}|{{?name}:^20s}|", "{{?id}}{{?id}}", "x {{?a}:.1f} y {{?w}} z",
    "{{?id}:zz}", "{{?name}:05d}", "{{?lu}}", "{{?arr}}", "{{{?id}}}", "{{?id}[0]}", "tail {",
]

res = []
env = make_env()
for expr, unit in NUM:
    with NumericalSolver(env) as s:
        res.append(["num", repr(expr), unit, run(lambda: s.solve(expr, unit) if unit else s.solve(expr))])
with NumericalSolver() as s0:
    for expr, unit in NUM[:12]:
        res.append(["num-noenv", repr(expr), unit, run(lambda: s0.solve(expr, unit) if unit else s0.solve(expr))])
for e1, e2 in EQ:
    with NumericalSolver(env) as s:
        res.append(["eq", e1, e2, run(lambda: s.equal(e1, e2))])
for expr in LOG:
    with LogicalSolver(env) as s:
        res.append(["log", expr, run(lambda: s.solve(expr))])
with LogicalSolver() as s0:
    for expr in LOG[:11] + ["1 m == 100 cm", "1 m < 1 cm"]:
        res.append(["log-noenv", expr, run(lambda: s0.solve(expr))])
for expr in TPL:
    with TemplateSolver(env) as s:
        res.append(["tpl", expr, run(lambda: s.solve(expr))])

# through the DIP front end (expression nodes inside a parsed text)
DIPS = [
    "a float = 14.24 mm\nb int = 220 cm\nc float = (\"{?a} + {?b} + 10 m\") cm\nd int = (\"{?b} + 1 cm + 10 m + 1 nm\") cm",
    "a float = (\"10 dm + 1 m\") J",
    "a bool = true\nb float = 23.43 cm\nc bool = (\"\"\"\n false || {?b} == 23.43 cm && {?a}\n\"\"\")",
    "a float[2] = [14.24,15.23] mm\nb str = (\"a = {{?a}[0]:.3e}\")",
    "$unit length = 2 cm\nx float = 3 [length]\ny float = (\"{?x} * 2 + 1 cm\") cm",
    "x int = 3\n@case (\"{?x} == 3 && ~!{?q}\")\n  y int = 1\n@else\n  y int = 2\n@end",
]
from scinumtools.dip.settings import Format
for code in DIPS:
    def f():
        with DIP() as p:
            p.add_string(code)
            data = p.parse().data(verbose=True, format=Format.TYPE)
        return {k: show(v) for k, v in data.items()}
    try:
        res.append(["dip", code, ["ok", f()]])
    except BaseException as e:
        res.append(["dip", code, ["exc", type(e).__name__]])

print(json.dumps(res))
'''

def collect(root):
    p = subprocess.run([sys.executable, "-c", RUNNER, root], capture_output=True, text=True)
    if p.returncode != 0:
        print("runner failed for", root); print(p.stderr[-3000:])
        sys.exit(2)
    return json.loads(p.stdout.strip().splitlines()[-1])

def main():
    base, new = collect(sys.argv[1]), collect(sys.argv[2])
    bad = 0
    if len(base) != len(new):
        print("different number of results"); bad += 1
    for x, y in zip(base, new):
        if x != y:
            bad += 1
            print("DIFF:\n  base:", x, "\n  new: ", y)
    print(f"{len(base)} inputs compared, {bad} differences")
    sys.exit(1 if bad else 0)

if __name__ == "__main__":
    main()
