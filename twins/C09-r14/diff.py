#!/venv/bin/python
"""Differential check for property C09 (temporary custom units never outlive their scope).

usage: diff.py <unmodified tree root> <refactored tree root>

Runs the same scenarios against each tree in a separate subprocess (each with its
own sys.path) and exits 0 iff every observable output (values, units, table
snapshots, raised exception types and arguments) is identical.
"""
import json
import subprocess
import sys

DRIVER = r'''
import sys, json, copy
root = sys.argv[1]
sys.path.insert(0, root + '/src')
import warnings
warnings.filterwarnings('ignore')
from scinumtools.units import *
from scinumtools.units.settings import UNIT_STANDARD, UNIT_PREFIXES, UNIT_TYPES
from scinumtools.units.unit_types import UnitType
from scinumtools.units.unit_environment import UnitEnvironment, check_unique_symbols
from scinumtools.parameter_table import ParameterTable
from scinumtools.dip import DIP
import os, scinumtools
assert os.path.realpath(scinumtools.__file__).startswith(os.path.realpath(root) + os.sep), scinumtools.__file__

def snap():
    """Full content of the process-wide tables."""
    return {
        'units': [(k, repr(v.data())) for k, v in UNIT_STANDARD.items()],
        'unit_keys': list(UNIT_STANDARD.keys()),
        'prefixes': [(k, repr(v.data())) for k, v in UNIT_PREFIXES.items()],
        'prefix_keys': list(UNIT_PREFIXES.keys()),
        'types': [t.__name__ for t in UNIT_TYPES],
        'lens': [len(UNIT_STANDARD), len(UNIT_PREFIXES), len(UNIT_TYPES)],
    }

BASE = snap()
OUT = []

def exc(e):
    return {'exc': type(e).__name__, 'args': [repr(a) for a in e.args]}

def scenario(fn):
    log = []
    try:
        fn(log)
    except BaseException as e:
        log.append(exc(e))
    after = snap()
    OUT.append({'name': fn.__name__, 'log': log, 'restored': after == BASE, 'after': after})
    return fn

DIMS = [3, 2, -1, 0, 0, 1, 0, 0]

class CustomUnitType(UnitType):
    def _istype(self):
        return False

class OtherUnitType(UnitType):
    def _istype(self):
        return False

@scenario
def s01_dict_unit(log):
    units = {'x': {'magnitude': 3, 'dimensions': list(DIMS)}}
    with UnitEnvironment(units) as env:
        q = Quantity(1, 'x')
        log.append([str(q), q.baseunits.magnitude, q.baseunits.dimensions.value()])
        log.append([env.new_units, [t.__name__ for t in env.new_types]])
        log.append(repr(UNIT_STANDARD['x'].data()))
        log.append(list(UNIT_STANDARD.keys())[-3:])
    log.append(repr(units))
    log.append('x' in UNIT_STANDARD)

@scenario
def s02_quantity_unit(log):
    units = {'y': Quantity(2, 'cm/g2'), 'z': Quantity(5, 'km')}
    with UnitEnvironment(units):
        q = Quantity(1, 'y')
        log.append([str(q), q.baseunits.magnitude, q.baseunits.dimensions.value()])
        log.append(str(Quantity(3, 'z').to('m')))
        log.append(str(Quantity(3, 'z*y')))
    log.append(sorted(units.keys()))
    log.append(['y' in UNIT_STANDARD, 'z' in UNIT_STANDARD])

@scenario
def s03_prefixes_true(log):
    units = {'xq': {'magnitude': 2, 'dimensions': [1, 0, 0, 0, 0, 0, 0, 0], 'prefixes': True, 'name': 'ex-queue'}}
    with UnitEnvironment(units):
        log.append(str(Quantity(1, 'kxq').to('m')))
        log.append(str(Quantity(1, 'xq').to('m')))
        log.append(repr(UNIT_STANDARD['xq'].data()))
    log.append(repr(units))

@scenario
def s04_prefixes_list(log):
    units = {'xq': {'magnitude': 2, 'dimensions': [1, 0, 0, 0, 0, 0, 0, 0], 'prefixes': ['k', 'M'], 'definition': '2*m'}}
    with UnitEnvironment(units):
        log.append(str(Quantity(1, 'Mxq').to('m')))
        try:
            Quantity(1, 'Gxq')
        except Exception as e:
            log.append(exc(e))
    log.append(repr(units))

@scenario
def s05_duplicate_symbol(log):
    units = {'wa': {'magnitude': 1, 'dimensions': list(DIMS)}, 'm': {'magnitude': 1, 'dimensions': list(DIMS)},
             'wb': {'magnitude': 1, 'dimensions': list(DIMS)}}
    try:
        with UnitEnvironment(units):
            log.append('body entered')
    except Exception as e:
        log.append(exc(e))
    log.append(repr(units))
    log.append(['wa' in UNIT_STANDARD, 'wb' in UNIT_STANDARD, 'm' in UNIT_STANDARD])
    log.append(str(Quantity(1, 'm')))

@scenario
def s06_prefixed_clash(log):
    # 'km' clashes with prefixed metre; 'qq' is registered first
    units = {'qq': {'magnitude': 1, 'dimensions': list(DIMS)}, 'km': {'magnitude': 7, 'dimensions': list(DIMS)}}
    try:
        with UnitEnvironment(units):
            log.append('body entered')
    except Exception as e:
        log.append(exc(e))
    log.append(['qq' in UNIT_STANDARD, 'km' in UNIT_STANDARD])
    log.append(str(Quantity(1, 'km').to('m')))
    # clash produced by the prefixes of the new unit itself
    units = {'ol': {'magnitude': 1, 'dimensions': list(DIMS), 'prefixes': ['m']}}  # 'mol' exists
    try:
        with UnitEnvironment(units):
            log.append('body entered 2')
    except Exception as e:
        log.append(exc(e))
    log.append('ol' in UNIT_STANDARD)

@scenario
def s07_malformed(log):
    for units in (
        {'aa': {'magnitude': 1, 'dimensions': list(DIMS)}, 'ab': {'dimensions': list(DIMS)}},
        {'aa': {'magnitude': 1, 'dimensions': list(DIMS)}, 'ab': {'magnitude': 2}},
        {'aa': {'magnitude': 1, 'dimensions': list(DIMS), 'definition': CustomUnitType}, 'ab': {'definition': OtherUnitType}},
        {'aa': {'magnitude': 1, 'dimensions': list(DIMS)}, 'ab': 17},
        {'aa': {'magnitude': 1, 'dimensions': list(DIMS)}, 'ab': None},
        {'aa': {'magnitude': 1, 'dimensions': list(DIMS), 'prefixes': ['k', 'nonsense']}},
        None,
        [('aa', {'magnitude': 1, 'dimensions': list(DIMS)})],
    ):
        try:
            with UnitEnvironment(units):
                log.append('body entered')
        except BaseException as e:
            log.append(exc(e))
        log.append(repr(units).replace('__main__.', ''))
        log.append(snap() == BASE)

@scenario
def s08_body_raises(log):
    units = {'x': {'magnitude': 3, 'dimensions': list(DIMS)}, 'y': Quantity(2, 'cm/g2')}
    try:
        with UnitEnvironment(units):
            log.append(str(Quantity(2, 'x*y')))
            raise KeyError('boom')
    except KeyError as e:
        log.append(exc(e))
    log.append(['x' in UNIT_STANDARD, 'y' in UNIT_STANDARD])
    try:
        Quantity(1, 'x')
    except Exception as e:
        log.append(exc(e))

@scenario
def s09_nested(log):
    u1 = {'na': {'magnitude': 3, 'dimensions': list(DIMS)}}
    u2 = {'nb': {'magnitude': 4, 'dimensions': list(DIMS), 'definition': CustomUnitType}}
    u3 = {'nc': {'magnitude': 5, 'dimensions': list(DIMS)}, 'na': {'magnitude': 6, 'dimensions': list(DIMS)}}
    with UnitEnvironment(u1):
        with UnitEnvironment(u2) as e2:
            log.append([t.__name__ for t in UNIT_TYPES])
            log.append(list(UNIT_STANDARD.keys())[-2:])
            try:
                with UnitEnvironment(u3):
                    log.append('inner body')
            except Exception as e:
                log.append(exc(e))
            log.append(list(UNIT_STANDARD.keys())[-2:])
            log.append(str(Quantity(2, 'na') + Quantity(1, 'na')))
        log.append([t.__name__ for t in UNIT_TYPES])
        log.append(list(UNIT_STANDARD.keys())[-2:])
        try:
            with UnitEnvironment({'nd': {'magnitude': 5, 'dimensions': list(DIMS)}}):
                raise ValueError('inner')
        except ValueError as e:
            log.append(exc(e))
        log.append(list(UNIT_STANDARD.keys())[-2:])
        log.append(str(Quantity(2, 'na')))
    log.append(list(UNIT_STANDARD.keys())[-2:])

@scenario
def s10_repeated(log):
    for i in range(4):
        units = {'r': {'magnitude': i + 1, 'dimensions': list(DIMS)}, 'rr': Quantity(i + 1, 'cm')}
        with UnitEnvironment(units):
            log.append([UNIT_STANDARD['r'].magnitude, UNIT_STANDARD['rr'].magnitude, str(Quantity(1, 'rr').to('m'))])
        log.append(snap() == BASE)

@scenario
def s11_custom_type(log):
    units = {'ta': {'magnitude': 3, 'dimensions': list(DIMS), 'definition': CustomUnitType},
             'tb': {'magnitude': 3, 'dimensions': list(DIMS), 'definition': CustomUnitType},
             'tc': {'magnitude': 3, 'dimensions': list(DIMS), 'definition': OtherUnitType},
             'td': {'magnitude': 3, 'dimensions': list(DIMS), 'definition': None},
             'te': {'magnitude': 3, 'dimensions': list(DIMS), 'definition': 'm3*g2'}}
    env = UnitEnvironment(units)
    log.append([t.__name__ for t in UNIT_TYPES])
    log.append([env.new_units, [t.__name__ for t in env.new_types]])
    log.append(str(Quantity(1, 'ta') + Quantity(2, 'ta')))
    env.close()
    log.append([t.__name__ for t in UNIT_TYPES])
    # an already registered type is not removed by an inner scope
    with UnitEnvironment({'ta': units['ta']}):
        with UnitEnvironment({'tb': units['tb']}) as inner:
            log.append([t.__name__ for t in inner.new_types])
        log.append([t.__name__ for t in UNIT_TYPES])
    log.append([t.__name__ for t in UNIT_TYPES])

@scenario
def s12_dip_units(log):
    with DIP() as p:
        p.add_unit("velocity", 13, 'cm/s')
        p.add_string("""
        $unit length = 2 cm
        $unit mass = 3 g
        a float = 4 [length]
        b float = 5 [mass]/[length]3
        c float = 6 [velocity]
        d float = ("{?a} + 2 [length]") cm
        """)
        env = p.parse()
    log.append(sorted(env.units.keys()))
    for name in ('a', 'b', 'c', 'd'):
        node = env.nodes.query(name)[0]
        log.append([name, repr(node.value.value), node.value.unit])
    log.append(snap() == BASE)
    nd = env.nodes.query('a')[0]
    try:
        log.append(str(nd.value.convert('m', env).value))
    except Exception as e:
        log.append(exc(e))
    log.append(snap() == BASE)

@scenario
def s13_dip_failures(log):
    codes = [
        "$unit length = 2 cm\n$unit length = 3 cm\n",
        "$unit length = 2 cmx\n",
        "$unit length = 2 cm\na float = 3 [nolength]\n",
        "$unit k = 2 cm\n$unit m = 1 g\na float = 1 [k]\n",
        "$unit length = 2 cm\na float = 3 [length]\nb int = 2 s\nb = 3 [length]\n",
        "$unit length = 2 cm\na float = (\"3 [length] + 1 s\") cm\n",
    ]
    for code in codes:
        try:
            with DIP() as p:
                p.add_string(code)
                env = p.parse()
            log.append([sorted(env.units.keys()), [(n.name, repr(n.value.value), n.value.unit) for n in env.nodes.query('*')]])
        except BaseException as e:
            log.append(exc(e))
        log.append(snap() == BASE)

@scenario
def s14_table_ops(log):
    t = ParameterTable(['a', 'b'], {'k1': (1, 2), 'k2': (3, 4)}, keys=True)
    t.append('k3', (5, 6))
    t['k1'] = (7, 8)
    log.append([list(t.keys()), repr(t.data()), len(t)])
    del t['k2']
    log.append([list(t.keys()), repr(t.data()), 'k2' in t, 'k3' in t])
    for bad in (lambda: t.__delitem__('missing'), lambda: t.append('only'), lambda: t.append('k9', 5),
                lambda: t.append('k8', (1,)), lambda: t.append()):
        try:
            bad()
        except BaseException as e:
            log.append(exc(e))
        log.append([list(t.keys()), repr(t.data())])
    l = ParameterTable(['a', 'b'], [(1, 2), (3, 4)])
    l.append((5, 6))
    del l[0]
    log.append([repr(l.data()), len(l)])
    for bad in (lambda: l.__delitem__(10), lambda: l.append(), lambda: l.append(3), lambda: l.append((1, 2), (3, 4))):
        try:
            bad()
        except BaseException as e:
            log.append(exc(e))
        log.append(repr(l.data()))

@scenario
def s15_check_unique(log):
    log.append(check_unique_symbols())
    UNIT_STANDARD.append('kg', (1, list(DIMS), None, 'kg', False))
    try:
        log.append(check_unique_symbols())
    except BaseException as e:
        log.append(exc(e))
    del UNIT_STANDARD['kg']
    UNIT_STANDARD.append('uu', (1, list(DIMS), None, 'uu', ['k', 'bad']))
    try:
        log.append(check_unique_symbols())
    except BaseException as e:
        log.append(exc(e))
    del UNIT_STANDARD['uu']
    UNIT_STANDARD.append('ol', (1, list(DIMS), None, 'ol', True))
    UNIT_STANDARD.append('yn', (1, list(DIMS), None, 'yn', ['d', 'k']))
    try:
        log.append(check_unique_symbols())
    except BaseException as e:
        log.append(exc(e))
    del UNIT_STANDARD['ol']
    del UNIT_STANDARD['yn']
    log.append(check_unique_symbols())

@scenario
def s16_close_twice_and_manual(log):
    env = UnitEnvironment({'ca': {'magnitude': 1, 'dimensions': list(DIMS), 'definition': CustomUnitType}})
    log.append(['ca' in UNIT_STANDARD, [t.__name__ for t in UNIT_TYPES]])
    env.close()
    log.append(snap() == BASE)
    try:
        env.close()
    except BaseException as e:
        log.append(exc(e))
    log.append(snap() == BASE)
    # scope used as context manager after manual construction
    env = UnitEnvironment({'cb': Quantity(1, 'erg')})
    with env as same:
        log.append([same is env, str(Quantity(1, 'cb').to('J'))])
    log.append(snap() == BASE)

print(json.dumps(OUT, default=repr))
'''


def run(root):
    import os
    root = os.path.abspath(root)
    p = subprocess.run([sys.executable, '-c', DRIVER, root], capture_output=True, text=True, cwd='/tmp')
    if p.returncode != 0:
        return {'crash': p.returncode, 'stderr': p.stderr[-3000:]}
    return json.loads(p.stdout.strip().splitlines()[-1])


def main():
    a = run(sys.argv[1])
    b = run(sys.argv[2])
    if isinstance(a, dict) or isinstance(b, dict):
        print('driver crashed', a if isinstance(a, dict) else '', b if isinstance(b, dict) else '')
        return 2
    ok = True
    if len(a) != len(b):
        print('different number of scenarios')
        ok = False
    for x, y in zip(a, b):
        if x != y:
            ok = False
            print('DIFF in', x['name'])
            print('  base:', json.dumps(x['log'])[:1500])
            print('  new :', json.dumps(y['log'])[:1500])
            if x['after'] != y['after']:
                print('  table snapshots after the scenario differ')
    print(f"{len(a)} scenarios compared:", 'identical' if ok else 'DIFFERENT')
    return 0 if ok else 1


if __name__ == '__main__':
    sys.exit(main())
