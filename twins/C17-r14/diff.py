#!/venv/bin/python
"""Differential check for property C17 (references deliver the referenced node's
current value and unit).

usage: diff.py <unmodified tree root> <refactored tree root>

The same inputs are run against each tree in a separate subprocess (each with
its own sys.path); exit code 0 iff every observable output (node names, types,
values, units, constraints, raised exception types/messages) is identical.
"""
import sys, os, json, subprocess, tempfile, textwrap

RUNNER = r'''
import sys, os, json
root = sys.argv[1]
sys.path.insert(0, os.path.join(root, 'src'))
import numpy as np
from scinumtools.dip import DIP
from scinumtools.dip.environment import Environment
from scinumtools.dip.settings import Format, Namespace
assert os.path.realpath(sys.modules['scinumtools'].__file__).startswith(os.path.realpath(root)), "wrong tree imported"

def plain(v):
    if isinstance(v, np.ndarray):
        return v.tolist()
    if isinstance(v, (np.generic,)):
        return v.item()
    if isinstance(v, (list, tuple)):
        return [plain(x) for x in v]
    return v

def dump_node(node):
    val = node.value
    return dict(
        name     = node.name,
        cls      = type(node).__name__,
        keyword  = node.keyword,
        vtype    = type(val).__name__,
        value    = repr(plain(getattr(val, 'value', val))),
        unit     = getattr(val, 'unit', None),
        units_raw= node.units_raw,
        value_raw= repr(plain(node.value_raw)),
        indent   = node.indent,
        constant = node.constant,
        condition= node.condition,
        options  = repr([ (repr(plain(getattr(o.value,'value',o.value))), getattr(o.value,'unit',None)) for o in (getattr(node,'options',None) or []) ]),
        tags     = repr(getattr(node,'tags',None)),
        fmt      = getattr(node,'format',None),
        descr    = getattr(node,'description',None),
        isource  = repr(node.isource)[-12:] if node.isource else repr(node.isource),
    )

def dump_env(env):
    return dict(
        nodes   = [dump_node(n) for n in env.nodes],
        units   = sorted((k, repr(v['magnitude']), repr(v['dimensions']), v['value'], v['units']) for k,v in env.units.items()),
        sources = sorted(k.split('_',1)[-1] for k in env.sources.keys()),
    )

def err(e):
    args = [a if isinstance(a,(str,int,float,bool,type(None))) else repr(plain(a)) for a in e.args]
    return dict(exception=type(e).__name__, args=args)

def parse(code, env=None, name='T'):
    with DIP(env, name=name) if env is not None else DIP(name=name) as p:
        p.add_string(code)
        return p.parse()

CASES = []
def case(fn):
    CASES.append(fn)
    return fn

# ---- value injections ------------------------------------------------------
@case
def inj_units_local():
    return dump_env(parse("""
size1 float = 34 cm
size2 float = {?size1} m
size3 float = {?size2}
size1 = {?size2}
size4 float = {?size1} mm
size5 int = {?size3}
"""))

@case
def inj_after_modification():
    return dump_env(parse("""
a float = 1 km
b float = {?a}
a = 2500 m
c float = {?a}
d float = {?a} m
a = 3
e float = {?a} cm
b = {?e}
"""))

@case
def inj_bool_str_none():
    return dump_env(parse("""
flag bool = true
other bool = {?flag}
flag = false
third bool = {?flag}
name str = 'abc def'
copy str = {?name}
name = "xyz"
copy2 str = {?name}
hole float = none kg
hole2 float = {?hole}
hole3 float = {?hole} g
"""))

@case
def inj_slices():
    return dump_env(parse("""
sizes float[3] = [34,23.34,1e34] cm
mysize float[2] = {?sizes}[:2]
one float = {?sizes}[1]
last float[2] = {?sizes}[1:] m
masses float[2,2] = [[34,23.34],[1,1e3]] g
mymass float[2] = {?masses}[:,1]
row int[2] = {?masses}[0] kg
elem float = {?masses}[0,1]
txt str[3] = ["a","b","c"]
t2 str[2] = {?txt}[:2]
"""))

@case
def inj_slice_scalar_error():
    return dump_env(parse("""
sizes float[3] = [34,23.34,1e34] cm
mysize float = {?sizes}[:2]
"""))

@case
def inj_nested_groups():
    return dump_env(parse("""
box
  width float = 2 m
  inner
    depth int = 3 cm
    w2 float = {?box.width} cm
top float = {?box.inner.depth}
top2 int = {?box.inner.w2} mm
"""))

@case
def inj_remote():
    return dump_env(parse("""
$source q = remote.dip
energy float = 34 erg
energy float = {q?energy}
energy = {q?energy} eV
energy = {q?energy}
mass float = {q?grp.mass}
mass2 float = {q?grp.mass} g
label str = {q?label}
ok bool = {q?ok}
vec float[2] = {q?vec}[1:]
"""))

@case
def inj_block_text():
    return dump_env(parse("""
$source txt = vec.txt
v1 int[3] = {txt}
v2 float[2] = {txt}[:2]
s str = {txt}
"""))

@case
def inj_none_selected():
    return dump_env(parse("""
a float = 1 m
b float = {?missing}
"""))

@case
def inj_many_selected():
    return dump_env(parse("""
g
  a float = 1 m
  b float = 2 m
c float = {?g.*}
"""))

@case
def inj_many_selected_all():
    return dump_env(parse("""
$source q = remote.dip
c float = {q?*}
"""))

@case
def inj_missing_source():
    return dump_env(parse("""
c float = {nosrc?a}
"""))

@case
def inj_no_local_nodes():
    return dump_env(parse("""
c float = {?a}
"""))

# ---- imports ---------------------------------------------------------------
@case
def imp_local():
    return dump_env(parse("""
icecream
  waffle str = 'standard'
    !options ["standard","gluten-free"]
  scoops
    strawberry int = 1 # comment
      !condition ("{?} > 0")
    chocolate float = 2 kg
      !constant
    deep
      nut float = 3 g
        !tags ["x","y"]
bowl
  {?icecream.scoops.*}
plate {?icecream.waffle}
all.of.it {?*}
"""))

@case
def imp_local_after_mod():
    return dump_env(parse("""
src
  a float = 1 km
  b int = 2
src.a = 500 m
src.b = 7
dst {?src.*}
one
  {?src.a}
src.a = 9
dst2 {?src.*}
"""))

@case
def imp_remote():
    return dump_env(parse("""
$source q = remote.dip
{q?*}
box
  {q?*}
basket.bag {q?grp.*}
bowl
  {q?energy}
  {q?grp.mass}
"""))

@case
def imp_none_selected_local():
    env = parse("""
a float = 1 m
g {?zzz.*}
h {?zzz}
""")
    out = dump_env(env)
    out['data'] = repr(sorted(env.data().keys()))
    return out

@case
def imp_none_selected_remote():
    env = parse("""
$source q = remote.dip
g {q?zzz.*}
h
  {q?zzz}
""")
    out = dump_env(env)
    out['data'] = repr(sorted(env.data().keys()))
    return out

@case
def imp_missing_source():
    return dump_env(parse("""
g {nosrc?*}
"""))

@case
def imp_prefix_only():
    # 'gr' is a prefix of 'grp' but no node: 'gr.*' must not select grp.* nodes
    return dump_env(parse("""
grp
  m float = 1 g
gr2 int = 2
x {?gr.*}
y {?grp.*}
"""))

# ---- base environments / remote sources stay unchanged -----------------------
@case
def base_env_unchanged():
    env1 = parse("""
$unit len = 2 m
a float = 3 [len]
g
  b int = 4 cm
  c str = 'q'
""")
    before = dump_env(env1)
    env2 = parse("""
a = 5
x float = {?a} m
g.b = {?g.b} m
imp {?g.*}
y float = {?imp.b} mm
""", env=env1, name='T2')
    after = dump_env(env1)
    return dict(before=before, after=after, same=(before==after), env2=dump_env(env2))

@case
def remote_source_unchanged():
    env = parse("""
$source q = remote.dip
mine {q?*}
mine.energy = 99 J
mine.grp.mass = 3 kg
z float = {q?energy}
z2 float = {q?grp.mass}
""")
    src = [k for k in env.sources.keys() if k=='q'][0]
    return dict(env=dump_env(env), remote=[dump_node(n) for n in env.sources[src].nodes])

@case
def source_and_unit_imports():
    out = {}
    for name, code in dict(
        src_one="""
$source q = remote.dip
$source {q?inner}
v float = {inner?depth}
""",
        src_all="""
$source q = remote.dip
$source {q?*}
{inner?*}
""",
        src_bad="""
$source q = remote.dip
$source {q?nothing}
""",
        unit_ns="""
$source q = remote.dip
$unit {q?*}
""").items():
        try:
            out[name] = dump_env(parse(code))
        except Exception as e:
            out[name] = err(e)
    return out

# ---- direct Environment.request / NodeList.query ------------------------------
@case
def request_direct():
    env = parse("""
$source q = remote.dip
a float = 1 m
  !tags ["t1"]
g
  b int = 2
    !tags ["t2"]
  c int = 3
""")
    out = {}
    def run(label, *args, **kw):
        try:
            r = env.request(*args, **kw)
            if isinstance(r, str):
                out[label] = r
            elif isinstance(r, dict):
                out[label] = sorted(r.keys())
            else:
                out[label] = [type(r).__name__] + [dump_node(n) for n in r]
        except Exception as e:
            out[label] = err(e)
    run('all', '?*')
    run('one', '?a', count=1)
    run('one_bad', '?g.*', count=1)
    run('list_ok', '?zz', count=[0,1])
    run('list_bad', '?g.*', count=[0,1])
    run('zero', '?zz', count=0)
    run('sub', '?g.*', count=2)
    run('tags', '?*', tags=['t2'])
    run('tags_sub', '?g.*', tags=['t2'])
    run('tags_two', '?*', tags=['t1','t2'])
    run('tags_one_exact', '?g.b', tags=['t2'], count=1)
    run('tags_miss', '?g.c', tags=['t2'], count=[0,1])
    run('remote', 'q?grp.*')
    run('remote_tags', 'q?*', tags=['r'])
    run('remote_code', 'q')
    run('remote_code_count', 'q', count=5)
    run('nosrc', 'zz?a')
    run('nosrc_soft', 'zz?a', errsrc=False)
    run('nosrc_soft_count', 'zz?a', errsrc=False, count=[0,1])
    run('nosrc_soft_count1', 'zz?a', errsrc=False, count=1)
    run('nosrc_code_soft', 'zz', errsrc=False)
    run('ns_sources', 'q?*', namespace=Namespace.SOURCES)
    run('ns_sources_one', 'q?inner', namespace=Namespace.SOURCES)
    run('ns_units', 'q?*', namespace=Namespace.UNITS)
    run('ns_other', 'q?*', namespace=99)
    run('two_q', 'q?a?b')
    run('autoref_off', '?')
    env.autoref = 'g.b'
    run('autoref', '?', count=1)
    env.autoref = None
    run('empty_env', '?a')
    e2 = Environment()
    try:
        e2.request('?a')
    except Exception as e:
        out['no_nodes'] = err(e)
    # NodeList.query directly, incl. order
    from scinumtools.dip.settings import Order
    for label, args, kw in [('q_all',('*',),{}), ('q_sub',('g.*',),{}), ('q_one',('g.c',),{}),
                            ('q_none',('g',),{}), ('q_order',('*',),dict(order=Order.NAME)),
                            ('q_tags',('*',),dict(tags=['t1'])), ('q_tags_none',('*',),dict(tags=['zz']))]:
        try:
            r = env.nodes.query(*args, **kw)
            out[label] = [type(r).__name__] + [dump_node(n) for n in r]
        except Exception as e:
            out[label] = err(e)
    # queried nodes are copies
    r = env.nodes.query('g.*')
    r[0].name = 'changed'; r[0].value.value = 77
    out['copies'] = [dump_node(n) for n in env.nodes]
    return out

@case
def docs_mode():
    with DIP(name='T') as p:
        p.add_string("""
$source q = remote.dip
a float = 1 m
b float = {?a} cm
c float = {q?energy}
d float = {?nothing}
e float = {nosrc?x}
grp {q?grp.*}
none {nosrc?*}
""")
        docs = p.parse_docs()
    return dump_env(docs.env) if hasattr(docs,'env') else repr(type(docs))

@case
def solvers_refs():
    return dump_env(parse("""
a float = 3 m
b float = 20 cm
c float = ("{?a} + {?b}") cm
t str = ("a={{?a}:.2f} b={{?b}}")
arr float[3] = [1,2,3] s
u str = ("x={{?arr}[1]:.1e}")
@case ("{?a} > 1 m && {?b} < 1 m")
  z int = 1
@else
  z int = 2
@end
lim float = 5 m
  !condition ("{?} > {?a}")
"""))

results = {}
for fn in CASES:
    try:
        results[fn.__name__] = fn()
    except Exception as e:
        results[fn.__name__] = err(e)
json.dump(results, sys.stdout, sort_keys=True, default=repr)
'''

REMOTE = """\
$source inner = inner.dip
energy float = 13 J
grp
  mass float = 2 kg
    !tags ["r"]
    !options [1,2,3] kg
  count int = 4
    !condition ("{?} > 1")
label str = 'remote text'
ok bool = true
vec float[3] = [1.5,2.5,3.5] cm
energy = 14
"""

INNER = """\
depth float = 12 mm
width int = 3
"""


def run(tree, workdir):
    p = subprocess.run(['/venv/bin/python', os.path.join(workdir, 'runner.py'), tree],
                       capture_output=True, text=True, cwd=workdir,
                       env={'PATH': os.environ.get('PATH', ''), 'PYTHONDONTWRITEBYTECODE': '1'})
    if p.returncode != 0:
        print(p.stderr)
        raise SystemExit(2)
    return json.loads(p.stdout)


def main():
    a, b = os.path.abspath(sys.argv[1]), os.path.abspath(sys.argv[2])
    with tempfile.TemporaryDirectory() as wd:
        for name, text in [('runner.py', RUNNER), ('remote.dip', REMOTE), ('inner.dip', INNER), ('vec.txt', '[7, 8, 9]')]:
            with open(os.path.join(wd, name), 'w') as f:
                f.write(text)
        ra, rb = run(a, wd), run(b, wd)
    bad = 0
    for key in sorted(set(ra) | set(rb)):
        if ra.get(key) != rb.get(key):
            bad += 1
            print('DIFF in', key)
            print('  base:', json.dumps(ra.get(key), sort_keys=True)[:2000])
            print('  new :', json.dumps(rb.get(key), sort_keys=True)[:2000])
    nexc = sum(1 for v in ra.values() if isinstance(v, dict) and 'exception' in v)
    print(f"{len(ra)} cases compared ({nexc} raise in base), {bad} differ")
    if '-v' in sys.argv:
        print(json.dumps(ra, indent=1, sort_keys=True))
    sys.exit(1 if bad else 0)


if __name__ == '__main__':
    main()
