#!/usr/bin/env python
"""Differential check: argv[1] = clean tree root, argv[2] = changed tree root.
Runs the same public-API inputs in one subprocess per tree and compares output."""
import subprocess
import sys

CHILD = r'''
import sys, io, contextlib
sys.path.insert(0, sys.argv[1] + "/src")
import numpy as np
from scinumtools.units import Quantity, Unit
from scinumtools.units.unit_types import (
    UnitType, StandardUnitType, TemperatureUnitType, LogarithmicUnitType)
from scinumtools.units.base_units import BaseUnits

def show(label, fn):
    try:
        r = fn()
        if isinstance(r, np.ndarray):
            out = "ndarray %s %s" % (r.dtype, r.tolist())
        else:
            out = "%s %r" % (type(r).__name__, r)
        print(label, "->", out)
    except BaseException as e:
        print(label, "!!", type(e).__name__, repr(e.args))

def conv(x, u, v):
    q = Quantity(x, u)
    try:
        r = q.to(v)
    except BaseException as e:
        # quantity must be left as it was
        print("   after failure:", repr(q.value()), str(q.units()))
        raise
    return (type(r).__name__, r.value(), str(r.units()), str(r))

def utype(cls, u, v):
    t = cls(BaseUnits(u), BaseUnits(v))
    if t is None:
        return None
    return (type(t).__name__, t.conversion)

# linear / inverse / rad / refused
show("m->cm", lambda: conv(3.5, "m", "cm"))
show("km->m", lambda: conv(12, "km", "m"))
show("cm->km->cm", lambda: Quantity(7.25, "cm").to("km").to("cm").value())
show("J->erg", lambda: conv(2, "J", "erg"))
show("arr m->mm", lambda: Quantity(np.array([1., 2.5, -4.]), "m").to("mm").value())
show("arr via", lambda: Quantity(np.array([1., 2.5]), "m").to("km").to("cm").value())
show("s->Hz", lambda: conv(4, "s", "Hz"))
show("Hz->ms", lambda: conv(50, "Hz", "ms"))
show("1->rad", lambda: Quantity(2.5).to("rad").value())
show("1->deg", lambda: Quantity(2.5).to("deg").value())
show("m->s refused", lambda: conv(1, "m", "s"))
show("m->kg*s refused", lambda: conv(1, "m2", "kg*s"))
show("rad->m refused", lambda: conv(1, "rad", "m"))
show("m->1 refused", lambda: conv(1, "m", "rad"))
# temperature
show("K->Cel", lambda: conv(300, "K", "Cel"))
show("Cel->degF", lambda: conv(25, "Cel", "degF"))
show("degF->K", lambda: conv(25, "degF", "K"))
show("degR->Cel", lambda: conv(500, "degR", "Cel"))
show("Cel->Cel", lambda: conv(5, "Cel", "Cel"))
show("K->degR", lambda: conv(5, "K", "degR"))
show("Cel/s->K/s", lambda: conv(5, "Cel/s", "K/s"))
show("Cel->m", lambda: conv(5, "Cel", "m"))
show("m->degF", lambda: conv(5, "m", "degF"))
# logarithmic
show("PR->dB", lambda: conv(100, "PR", "dB"))
show("dB->AR", lambda: conv(20, "dB", "AR"))
show("W->dBm", lambda: conv(1, "W", "dBm"))
show("dBW->dBm", lambda: conv(3, "dBW", "dBm"))
show("Np->B", lambda: conv(3, "Np", "B"))
show("B->Np", lambda: conv(3, "B", "Np"))
show("dBV->dBuV", lambda: conv(3, "dBV", "dBuV"))
show("dB->dB", lambda: conv(3, "dB", "dB"))
show("dBm->V bad", lambda: conv(3, "dBm", "V"))
show("dB->m bad", lambda: conv(3, "dB", "m"))
show("dB*m*s*kg", lambda: conv(3, "dB*m*s", "m"))
show("Pa->dBSPL", lambda: conv(2, "Pa", "dBSPL"))
show("dBm/Hz", lambda: conv(3, "dBm/Hz", "W/Hz"))
show("dB add", lambda: str(Quantity(10, "dB") + Quantity(10, "dB")))
# unit type objects directly
for cls in (StandardUnitType, TemperatureUnitType, LogarithmicUnitType):
    for u, v in [("m", "cm"), ("s", "Hz"), (None, "rad"), ("m", "s"), ("K", "Cel"),
                 ("Cel", "degF"), ("Cel*m", "K"), ("W", "dBm"), ("dB", "Np"),
                 ("dB*m*s", "m"), ("PR", "dB"), ("rad", None), ("K", "degR")]:
        show("%s(%s,%s)" % (cls.__name__, u, v), lambda: utype(cls, u, v))
# Unit class
show("Unit('m')", lambda: (type(Unit("m")).__name__, str(Unit("m"))))
show("Unit('')", lambda: type(Unit("")).__name__)
show("Unit()", lambda: type(Unit()).__name__)
show("Unit(None)", lambda: type(Unit(None)).__name__)
show("Unit(0)", lambda: type(Unit(0)).__name__)
show("Unit('xyz')", lambda: Unit("xyz"))
show("Unit().km", lambda: (type(Unit().km).__name__, str(Unit().km)))
show("Unit().bogus", lambda: Unit().bogus)
show("with Unit", lambda: str((lambda u: 3 * u.m / u.s)(Unit().__enter__())))
show("str(Unit())", lambda: str(Unit()))
show("Unit._list", lambda: Unit._list())
show("Unit().__rep__", lambda: Unit().__rep__() == Unit._list())
def _lst():
    buf = io.StringIO()
    with contextlib.redirect_stdout(buf):
        r = Unit.list()
    return (r, buf.getvalue())
show("Unit.list", _lst)
'''


def run(root):
    p = subprocess.run([sys.executable, "-c", CHILD, root], capture_output=True, text=True)
    return p.stdout + "\n--rc %d\n" % p.returncode + ("" if p.returncode == 0 else p.stderr)


def main():
    a = run(sys.argv[1])
    b = run(sys.argv[2])
    if "--rc 0" not in a or a.count("->") < 12:
        print("child failed on clean tree:\n" + a)
        return 1
    if a != b:
        la, lb = a.splitlines(), b.splitlines()
        for i in range(max(len(la), len(lb))):
            x = la[i] if i < len(la) else "<missing>"
            y = lb[i] if i < len(lb) else "<missing>"
            if x != y:
                print("DIFF line %d:\n  clean  : %s\n  changed: %s" % (i, x, y))
        return 1
    print("identical (%d result lines)" % len(a.splitlines()))
    return 0


if __name__ == "__main__":
    sys.exit(main())
