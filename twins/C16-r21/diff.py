#!/usr/bin/env python
"""Differential check for property C16 (constraints: options / condition / format / dimensions / defined).

usage: diff.py <unmodified tree root> <refactored tree root>
Runs the same DIP inputs against each tree in a separate subprocess (own sys.path)
and exits 0 iff all observable outputs (values, units, options, exception types + args) agree.
"""
import sys, os, json, subprocess

CASES = [
    # --- per-line options
    "a int = 1\n  = 1\n  = 2\n  = 3",
    "a int = 4\n  = 1\n  = 2\n  = 3",
    "a int = 1\n  = 1\n  = 2\na = 2",
    "a int = 1\n  = 1\n  = 2\na = 3",
    "w float = 2 m\n  = 2 m\n  = 3 m\nw = 3000 mm",
    "w float = 2 m\n  = 2 m\n  = 3 m\nw = 3001 mm",
    "w float = 2 m\n  = 2 m\n  = 3 m\nw = 3000.0000001 mm",
    "l float cm\n  = 12 cm\n  = 34 cm",
    "l float cm\n  = 12 cm\n  = 34 cm\nl = 0.34 m",
    "b bool = true\n  = true\n  = false",
    "s str = red\n  = red\n  = green",
    "s str = blue\n  = red\n  = green",
    "s str = red\n  = red\n  = green\ns = green",
    "s str = red\n  = red\n  = green\ns = Green",
    # --- list-form options
    "size float cm\n  !options [12,13,14,15,16] cm\n  !options [22,23,24,25] m\nsize = 23 m",
    "size float cm\n  !options [12,13,14,15,16] cm\nsize = 11",
    "size float cm\n  !options [12,13,14,15,16] cm\nsize = 160 mm",
    "size float cm\n  !options [12,13,14,15,16] cm\nsize = 161 mm",
    "n int = 3\n  !options [1,2,3]",
    "n int = 0\n  !options [1,2,3]",
    'c str = "b"\n  !options ["a","b","c"]',
    'c str = "d"\n  !options ["a","b","c"]',
    "n int = 3\n  !options [1,2,3]\n  = 7\nn = 7",
    "n int = 3 kg\n  !options [1,2,3] kg\n  = 7000 g\nn = 7 kg",
    "n int = 3 kg\n  !options [1,2,3] s",
    "b bool = true\n  !options [true,false]",
    "v float[2] = [1,2]\n  = 1",
    # --- conditions
    "size float = 23 cm\n  !condition ('200 mm < {?} && {?} < 30 cm')",
    "size float = 23 cm\n  !condition ('250 mm < {?} && {?} < 30 cm')",
    "size float = 30 cm\n  !condition ('{?} <= 30 cm')",
    "size float = 30 cm\n  !condition ('{?} < 30 cm')",
    "size float = 30.0001 cm\n  !condition ('{?} <= 300 mm')",
    "n int = 5\n  !condition ('{?} == 5')",
    "n int = 5\n  !condition ('{?} != 5')",
    "n int = 5\n  !condition ('{?} > 1 || {?} < 0')\nn = -1",
    "n int = 5\n  !condition ('{?} > 1 || {?} < 0')\nn = 1",
    "b bool = true\n  !condition ('{?}')",
    "b bool = false\n  !condition ('{?}')",
    "b bool = false\n  !condition ('~{?}')",
    "b bool = false\n  !condition ('{?} == false')",
    "s str = abc\n  !condition ('{?} == abc')",
    "s str = abc\n  !condition ('{?} == abd')",
    "a int = 3\nb int = 4\n  !condition ('{?} > {?a}')",
    "a int = 5\nb int = 4\n  !condition ('{?} > {?a}')",
    "b int = 4\n  !condition ('{?} > {?missing}')",
    "b int = 4\n  !condition ('!{?missing} || {?} == 4')",
    "b int = 4\n  !condition ('true')",
    "b int = 4\n  !condition ('false')",
    # --- formats
    'name str = John\n  !format "[a-zA-Z]+"',
    "name str = 7-up\n  !format '[a-zA-Z]+'",
    "name str = John7\n  !format '^[a-zA-Z]+$'",
    "name str = John\n  !format '^[a-zA-Z]+$'",
    "name str = John\n  !format '^[a-zA-Z]+$'\nname = J0hn",
    "name str = ''\n  !format '^[a-z]*$'",
    "size float = 23 cm\n  !format '[a-zA-Z]+'",
    "name str = John\n  !format '[a-z'",
    # --- dimensions
    "v int[3] = [1,2,3]",
    "v int[3] = [1,2]",
    "v int[3] = [1,2,3,4]",
    "v int[2:] = [1]",
    "v int[2:] = [1,2]",
    "v int[:2] = [1,2,3]",
    "v int[:2] = [1,2]",
    "v int[1:3] = [1,2,3]",
    "v int[1:3] = [1,2,3,4]",
    "m float[2,3] = [[1,2,3],[4,5,6]] cm",
    "m float[2,3] = [[1,2],[4,5]] cm",
    "m float[2,:2] = [[1,2],[4,5]]",
    "m float[2,:2] = [[1,2,3],[4,5,6]]",
    "v int[3] = [1,2,3]\nv = [4,5]",
    "v int[2:] = [1,2,3]\nv = [4,5]",
    "v int = [1,2]",
    "v bool[2] = [true,false]",
    "v str[2] = [\"a\",\"b\"]",
    "v str[2] = [\"a\"]",
    "v int[2] = [1,2]\n  !condition ('{?} == 3')",
    # --- defined
    "a int",
    "a int\na = 3",
    "a float cm\na = none",
    "a float = none",
    "a str\n  !format 'x'",
    "a bool\n  !condition ('{?}')",
    "a int\n  = 1\n  = 2\na = 2",
    "a int\n  = 1\n  = 2\na = 3",
    # --- combined
    "x float = 5 m\n  !options [5,6] m\n  !condition ('{?} < 550 cm')\nx = 600 cm",
    "x float = 5 m\n  !options [5,6] m\n  !condition ('{?} < 550 cm')",
    "x float = 5 m\n  !constant\n  = 5 m",
    "x float = 5 m\n  !constant\nx = 6 m",
    "grp\n  x int = 2\n    !condition ('{?} == 2')\n  y str = ab\n    !format '^a'\ngrp.x = 3",
    "t bool = true\n@case ('{?t}')\n  x int = 2\n    = 1\n    = 2\n@else\n  x int = 9\n    = 1\n@end",
    "t bool = false\n@case ('{?t}')\n  x int = 2\n    = 1\n    = 2\n@else\n  x int = 9\n    = 1\n@end",
    "$unit len = 2 m\nx float = 1 [len]\n  = 200 cm\n  = 3 m",
    "x int = 3\n  !tags [\"a\"]\n  !description \"d\"\n  !condition ('{?} >= 3')",
    "x int = 2\n  !tags [\"a\"]\n  !description \"d\"\n  !condition ('{?} >= 3')",
]

RUNNER = r'''
import sys, json, io, contextlib
root = sys.argv[1]
sys.path.insert(0, root + '/src')
import numpy as np
import scinumtools
assert scinumtools.__file__.startswith(root), scinumtools.__file__
from scinumtools.dip import DIP
from scinumtools.dip.settings import Format
from scinumtools.dip.solvers import LogicalSolver
from scinumtools.dip.environment import Environment

def norm(v):
    if isinstance(v, np.ndarray):
        return ['ndarray', str(v.dtype), v.tolist()]
    if isinstance(v, (np.generic,)):
        return [type(v).__name__, v.item()]
    if isinstance(v, (list, tuple)):
        return [type(v).__name__] + [norm(x) for x in v]
    if isinstance(v, (int, float, str, bool)) or v is None:
        return [type(v).__name__, v]
    return [type(v).__name__, repr(v)]

def run(code):
    out = {}
    try:
        buf = io.StringIO()
        with contextlib.redirect_stdout(buf):
            with DIP(name='T') as p:
                p.add_string(code)
                env = p.parse()
                data = env.data(format=Format.TYPE, verbose=True)
        res = {}
        for k, v in data.items():
            res[k] = [type(v).__name__, norm(v.value), norm(getattr(v, 'unit', None))]
        out['data'] = res
        out['printed'] = buf.getvalue()
        out['autoref'] = norm(env.autoref)
        out['cursor'] = env.nodes.cursor
        nodes = []
        for n in env.nodes:
            opts = None
            if getattr(n, 'options', None) is not None:
                opts = [[type(o.value).__name__, norm(o.value.value), norm(o.value.unit), norm(o.value_raw), norm(o.units_raw)] for o in n.options]
            nodes.append([n.name, n.keyword, str(n), norm(n.value_raw), norm(n.units_raw), opts,
                          norm(n.condition), norm(getattr(n, 'format', None)), n.constant, n.defined,
                          norm(n.dimension)])
        out['nodes'] = nodes
    except BaseException as e:
        out['exc'] = [type(e).__name__, [norm(a) for a in e.args]]
    return out

def run_docs(code):
    try:
        with DIP(name='T') as p:
            p.add_string(code)
            docs = p.parse_docs()
        return ['ok', type(docs).__name__]
    except BaseException as e:
        return ['exc', type(e).__name__, [norm(a) for a in e.args]]

def run_logic(expr):
    try:
        with LogicalSolver() as s:
            r = s.solve(expr)
        return [type(r).__name__, norm(getattr(r, 'value', r))]
    except BaseException as e:
        return ['exc', type(e).__name__, [norm(a) for a in e.args]]

cases = json.loads(sys.stdin.read())
result = {'parse': [run(c) for c in cases['parse']],
          'docs': [run_docs(c) for c in cases['parse'][:40]],
          'logic': [run_logic(e) for e in cases['logic']]}
sys.stdout.write(json.dumps(result, sort_keys=True))
'''

LOGIC = ["true", "false", "~true", "true && false", "true || false", "2 == 2", "2 cm < 30 mm",
         "3 >= 3 && 1 != 2", "~(1 > 2)", "(1 > 2) || (2 > 1)", ""]

def run_tree(root):
    root = os.path.realpath(root)
    env = {k: v for k, v in os.environ.items() if k != 'PYTHONPATH'}
    p = subprocess.run([sys.executable, '-c', RUNNER, root],
                       input=json.dumps({'parse': CASES, 'logic': LOGIC}),
                       capture_output=True, text=True, env=env, cwd='/tmp')
    if p.returncode != 0:
        print(p.stderr)
        raise SystemExit(2)
    return json.loads(p.stdout)

def main():
    a = run_tree(sys.argv[1])
    b = run_tree(sys.argv[2])
    bad = 0
    for section in a:
        for i, (x, y) in enumerate(zip(a[section], b[section])):
            if x != y:
                bad += 1
                print("DIFF in", section, i)
                print("  base:", x)
                print("  new :", y)
    nexc = sum(1 for r in a['parse'] if 'exc' in r)
    print(f"{len(CASES)} parse cases ({nexc} raising, {len(CASES)-nexc} accepted), {len(LOGIC)} logic cases; differences: {bad}")
    sys.exit(1 if bad else 0)

if __name__ == '__main__':
    main()
