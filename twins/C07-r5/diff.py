#!/usr/bin/env python
"""Differential check for property C07 (operations never alter their operands).

usage: diff.py <unmodified tree root> <refactored tree root>

Runs the same set of probes against both trees (each in its own subprocess with
its own sys.path) and exits 0 iff every observable output (values, units,
uncertainties, operand snapshots before/after, raised exception types) is
identical.
"""
import json
import subprocess
import sys

PROBE = r'''
import sys, json, warnings
warnings.filterwarnings("ignore")
sys.path.insert(0, sys.argv[1] + "/src")
import numpy as np
from decimal import Decimal
from scinumtools.units import Quantity, Magnitude, BaseUnits, Unit, Constant

def r(x):
    if isinstance(x, np.ndarray):
        return ["nd", str(x.dtype), [repr(float(v)) for v in x.ravel()], list(x.shape)]
    if isinstance(x, (bool, np.bool_)):
        return ["b", bool(x)]
    if isinstance(x, Decimal):
        return ["D", str(x)]
    if x is None:
        return None
    if isinstance(x, (int, float, np.floating, np.integer)):
        return [type(x).__name__, repr(float(x))]
    return ["o", type(x).__name__, repr(x)]

def snap(q):
    try:
        return _snap(q)
    except Exception as e:
        return ["snap-exc", type(e).__name__]

def sstr(q):
    try:
        return str(q)
    except Exception as e:
        return ["str-exc", type(e).__name__]

def _snap(q):
    if isinstance(q, Quantity):
        return {"v": r(q.magnitude.value), "u": q.units(), "e": r(q.magnitude.error),
                "bu": {k: str(v) for k, v in q.baseunits.baseunits.items()},
                "s": sstr(q)}
    if isinstance(q, Magnitude):
        return {"v": r(q.value), "e": r(q.error)}
    return r(q)

def make(spec):
    kind = spec[0]
    if kind == "q":
        args = list(spec[1:])
        kw = {}
        if args and isinstance(args[-1], dict):
            kw = args.pop()
        if isinstance(args[0], str) and args[0].startswith("D:"):
            args[0] = Decimal(args[0][2:])
        if isinstance(args[0], list) and args[0] and args[0][0] == "nd":
            args[0] = np.array(args[0][1], dtype=float)
        return Quantity(*args, **kw)
    if kind == "n":
        return spec[1]
    if kind == "nd":
        return np.array(spec[1], dtype=float)
    raise ValueError(spec)

OPS = {
    "add": lambda a, b: a + b,
    "sub": lambda a, b: a - b,
    "mul": lambda a, b: a * b,
    "div": lambda a, b: a / b,
    "eq":  lambda a, b: a == b,
    "ne":  lambda a, b: a != b,
}

PAIRS = [
    (["q", 2.0, "m"], ["q", 3.0, "m"]),
    (["q", 2.0, "m"], ["q", 30.0, "cm"]),
    (["q", 1.5, "km"], ["q", 12.0, "m", {"abse": 0.5}]),
    (["q", 4.0, "m", {"abse": 0.1}], ["q", 2.0, "s", {"rele": 10}]),
    (["q", 20.0, "dB"], ["q", 23.0, "dB"]),
    (["q", 1.0, "dBm"], ["q", 3.0, "dBm"]),
    (["q", 1.0, "dB"], ["q", 1.0, "Np"]),
    (["q", "D:1.25", "m"], ["q", "D:0.5", "m"]),
    (["q", "D:1.25", "m"], ["q", 2.0, "cm"]),
    (["q", ["nd", [1.0, 2.0, 3.0]], "m"], ["q", ["nd", [10.0, 20.0, 30.0]], "cm"]),
    (["q", ["nd", [1.0, 2.0, 3.0]], "m", {"abse": 0.1}], ["q", 2.0, "km", {"abse": 0.01}]),
    (["q", [1.0, 4.0], "kg"], ["q", 2.0, "g"]),
    (["q", 3.0, "m"], ["n", 2]),
    (["n", 2.5], ["q", 3.0]),
    (["q", 3.0], ["n", 1.5]),
    (["q", 3.0, "m"], ["q", 3.0, "s"]),
    (["q", 20.0, "Cel"], ["q", 5.0, "K"]),
    (["q", 300.0, "K"], ["q", 20.0, "Cel"]),
    (["q", 1.0, "m/s"], ["q", 3.6, "km/h"]),
    (["q", 2.0, "Hz"], ["q", 0.5, "s"]),
    (["q", 0.0, "m"], ["q", 0.0, "cm"]),
    (["q", 1.0, "rad"], ["q", 90.0, "deg"]),
    # extra unit-type specific inputs (logarithmic / temperature / inverse conversions)
    (["q", 10.0, "dBm"], ["q", 1.0, "dBW"]),
    (["q", 10.0, "dBm", {"abse": 0.5}], ["q", 7.0, "dBm", {"abse": 0.25}]),
    (["q", ["nd", [10.0, 20.0]], "dB"], ["q", ["nd", [13.0, 23.0]], "dB"]),
    (["q", 10.0, "dBm"], ["q", 2.0, "mW"]),
    (["q", 2.0, "W"], ["q", 30.0, "dBm"]),
    (["q", 60.0, "dBuV"], ["q", 1.0, "dBV"]),
    (["q", 70.0, "degF"], ["q", 20.0, "Cel"]),
    (["q", 500.0, "degR"], ["q", 70.0, "degF"]),
    (["q", 20.0, "Cel", {"abse": 0.5}], ["q", 22.0, "Cel"]),
    (["q", 20.0, "Cel*m"], ["q", 22.0, "Cel"]),
    (["q", 3.0, "dB*m*s"], ["q", 3.0, "dB"]),
    (["q", 4.0, "s", {"abse": 0.5}], ["q", 0.25, "Hz", {"abse": 0.01}]),
    (["q", 45.0, "deg", {"abse": 1.0}], ["q", 0.5]),
    (["q", "D:20", "dB"], ["q", "D:23", "dB"]),
    (["q", "D:20", "Cel"], ["q", "D:23", "K"]),
]

CONVS = {"dBm": "mW", "mW": "dBm", "W": "dBW", "dBW": "dBm", "dBuV": "dBV", "dBV": "V", "degF": "Cel", "degR": "K",
         "deg": "rad", "Hz": "s", "m": "cm", "cm": "km", "km": "mm", "dB": "Np", "Np": "dB", "dBm": "dBW", "s": "ms",
         "kg": "g", "g": "kg", "Cel": "K", "K": "Cel", "m*s-1": "km/h", "km*h-1": "m/s",
         "Hz": "kHz", "rad": "deg", "deg": "rad", "m2": "cm2", "m*s": "cm*ms"}

out = []
def rec(label, fn):
    try:
        out.append([label, "ok", fn()])
    except Exception as e:
        out.append([label, "exc", type(e).__name__])

def run_pair(sa, sb, opname):
    a, b = make(sa), make(sb)
    before = [snap(a), snap(b)]
    try:
        res = OPS[opname](a, b)
        rs = snap(res)
    except Exception as e:
        res = None
        rs = ["exc", type(e).__name__]
    after_op = [snap(a), snap(b)]
    steps = []
    # convert the result in place, then the operands, and watch everybody
    for who in ("res", "a", "b", "res"):
        obj = {"res": res, "a": a, "b": b}[who]
        if not isinstance(obj, Quantity):
            steps.append([who, "skip"])
            continue
        tgt = CONVS.get(obj.units())
        try:
            if tgt is None:
                obj.rebase()
            else:
                obj.to(tgt)
            st = "ok"
        except Exception as e:
            st = type(e).__name__
        steps.append([who, st, snap(a), snap(b), snap(res)])
    # set uncertainty on the result, operands must not see it
    if isinstance(res, Quantity):
        try:
            res.abse(0.25)
            steps.append(["abse", snap(a), snap(b), snap(res)])
        except Exception as e:
            steps.append(["abse", type(e).__name__])
    return {"before": before, "after_op": after_op, "res": rs, "steps": steps}

for i, (sa, sb) in enumerate(PAIRS):
    for opname in OPS:
        rec("pair%02d:%s" % (i, opname), lambda: run_pair(sa, sb, opname))

# unary / power / indexing / value queries
UNARY = [
    ["q", 2.0, "m"], ["q", 4.0, "m2", {"abse": 0.2}], ["q", "D:2.5", "km"],
    ["q", ["nd", [1.0, 4.0, 9.0]], "m2"], ["q", ["nd", [1.0, 4.0, 9.0]], "m2", {"rele": 5}],
    ["q", 20.0, "dB"], ["q", 25.0, "Cel"], ["q", 0.5, "rad"], ["q", 30.0, "deg"], ["q", 0.5],
]
def run_unary(spec):
    res = {}
    def one(label, fn):
        try:
            a = make(spec)
            b0 = snap(a)
        except Exception as e:
            res[label] = ["ctor-exc", type(e).__name__]
            return
        try:
            v = fn(a)
            try:
                st = snap(v)
            except Exception as e:
                st = ["snap-exc", type(e).__name__]
            # mutate the result where possible
            if isinstance(v, Quantity) and v is not a:
                try:
                    v.rebase(); v.abse(0.5)
                except Exception as e:
                    st = [st, type(e).__name__]
            elif isinstance(v, np.ndarray):
                v += 1
        except Exception as e:
            st = ["exc", type(e).__name__]
        res[label] = [b0, st, snap(a)]
    one("neg", lambda a: -a)
    one("pow2", lambda a: a**2)
    one("pow_t", lambda a: a**(1, 2))
    one("pow_f", lambda a: a**0.5)
    one("sqrt", np.sqrt)
    one("cbrt", np.cbrt)
    one("nppow", lambda a: np.power(a, 3))
    one("sin", np.sin)
    one("cos", np.cos)
    one("tan", np.tan)
    one("arcsin", np.arcsin)
    one("arctan", np.arctan)
    one("isnan", np.isnan)
    one("exp", np.exp)
    one("abs", np.abs)
    one("absolute", np.absolute)
    one("round", np.round)
    one("floor", np.floor)
    one("ceil", np.ceil)
    one("sum", np.sum)
    one("iscomplexobj", np.iscomplexobj)
    one("mean", np.mean)
    one("getitem", lambda a: a[0])
    one("value", lambda a: a.value())
    one("value_u", lambda a: a.value(CONVS.get(a.units(), "m")))
    one("value_dt", lambda a: a.value(dtype=int))
    one("units", lambda a: a.units())
    one("abse_get", lambda a: a.abse())
    one("rele_get", lambda a: a.rele())
    one("str", lambda a: str(a))
    one("repr", lambda a: repr(a))
    one("to", lambda a: a.to(CONVS.get(a.units(), "m")))
    one("to_q", lambda a: a.to(Quantity(2, CONVS.get(a.units(), "m"))))
    one("rebase", lambda a: a.rebase())
    one("abse_set", lambda a: a.abse(0.125))
    one("rele_set", lambda a: a.rele(12.5))
    one("rmul", lambda a: 2 * a)
    one("rdiv", lambda a: 2 / a)
    one("radd", lambda a: 2 + a)
    one("rsub", lambda a: 2 - a)
    one("ndmul", lambda a: a * np.array([1.0, 2.0, 3.0]))
    return res

for i, spec in enumerate(UNARY):
    rec("unary%02d" % i, lambda: run_unary(spec))

# linspace / logspace
def run_space(fn, sa, sb, n):
    a, b = make(sa), make(sb)
    b0 = [snap(a), snap(b)]
    v = fn(a, b, n)
    s1 = snap(v)
    v.to(CONVS.get(v.units(), "m"))
    return [b0, s1, snap(v), snap(a), snap(b)]
SP = [(["q", 1.0, "m"], ["q", 300.0, "cm"]), (["q", 1.0, "m"], ["n", 3.0]), (["n", 1.0], ["q", 3.0, "km"]),
      (["q", 1.0, "m"], ["q", 3.0, "s"])]
for i, (sa, sb) in enumerate(SP):
    rec("linspace%d" % i, lambda: run_space(np.linspace, sa, sb, 4))
    rec("logspace%d" % i, lambda: run_space(np.logspace, sa, sb, 3))

# Magnitude level: operands untouched, result independent
def run_mag(sa, sb):
    res = {}
    for name, fn in [("add", lambda x, y: x + y), ("sub", lambda x, y: x - y),
                     ("mul", lambda x, y: x * y), ("div", lambda x, y: x / y),
                     ("pow", lambda x, y: x ** 2), ("neg", lambda x, y: -x)]:
        x, y = sa(), sb()
        b0 = [snap(x), snap(y)]
        try:
            z = fn(x, y)
            sz = snap(z)
            if isinstance(z, Magnitude):
                z.abse(0.75)
                if isinstance(z.value, np.ndarray):
                    z.value += 1
        except Exception as e:
            sz = ["exc", type(e).__name__]
        res[name] = [b0, sz, snap(x), snap(y)]
    return res
MAGS = [
    (lambda: Magnitude(2.0), lambda: Magnitude(3.0)),
    (lambda: Magnitude(2.0, abse=0.1), lambda: Magnitude(3.0)),
    (lambda: Magnitude(2.0), lambda: Magnitude(3.0, rele=10)),
    (lambda: Magnitude(2.0, abse=0.1), lambda: Magnitude(3.0, abse=0.2)),
    (lambda: Magnitude(Decimal("2.5")), lambda: Magnitude(3.0)),
    (lambda: Magnitude(Decimal("2.5")), lambda: Magnitude(Decimal("0.5"))),
    (lambda: Magnitude(np.array([1.0, 2.0]), abse=0.1), lambda: Magnitude(np.array([3.0, 4.0]))),
    (lambda: Magnitude([1.0, 2.0]), lambda: Magnitude([3.0, 4.0], abse=0.5)),
    (lambda: Magnitude(2.0, abse=0.1), lambda: 4),
    (lambda: 4.0, lambda: Magnitude(2.0, abse=0.1)),
    (lambda: Magnitude(2.0, abse=0.1), lambda: "x"),
]
for i, (sa, sb) in enumerate(MAGS):
    rec("mag%02d" % i, lambda: run_mag(sa, sb))

# constructor aliasing: Quantity built from Magnitude / Quantity / BaseUnits
def run_ctor():
    m = Magnitude(2.0)
    q = Quantity(m, "m", abse=0.1)
    s1 = [snap(m), snap(q)]
    q.to("cm")
    s2 = [snap(m), snap(q)]
    u = Quantity(3.0, "km")
    w = Quantity(2.0, u)
    w.to("m")
    bu = BaseUnits("m*s-1")
    z = Quantity(5.0, bu)
    z.to("km/h")
    return [s1, s2, snap(u), snap(w), str(bu), bu.expression, snap(z)]
rec("ctor", run_ctor)
for bad in (["q", "x", "m"], ["q", 1.0, 5], ["q", 1.0, "m", {"abse": 1, "rele": 1}], ["q", 1.0, "foo"]):
    rec("bad:" + json.dumps(bad), lambda: snap(make(bad)))
def run_unit_const():
    a = Unit("m"); c = Constant("c")
    b0 = [snap(a), snap(c)]
    r_ = a * c
    r_.to("m2/s")
    return [b0, snap(r_), snap(a), snap(c)]
rec("unit_const", run_unit_const)

print(json.dumps(out, sort_keys=True))
'''


def run(root):
    p = subprocess.run([sys.executable, "-c", PROBE, root], capture_output=True, text=True)
    if p.returncode != 0:
        sys.stderr.write("probe failed for %s:\n%s\n" % (root, p.stderr))
        sys.exit(2)
    return json.loads(p.stdout)


def main():
    base, new = sys.argv[1], sys.argv[2]
    a, b = run(base), run(new)
    bad = 0
    if len(a) != len(b):
        print("different number of probes", len(a), len(b))
        bad += 1
    for x, y in zip(a, b):
        if x != y:
            bad += 1
            print("DIFF", x[0])
            print("   base:", json.dumps(x[1:])[:600])
            print("   new :", json.dumps(y[1:])[:600])
    nok = sum(1 for x in a if x[1] == "ok")
    print("probes: %d (ok in base: %d, exceptions in base: %d), differences: %d"
          % (len(a), nok, len(a) - nok, bad))
    sys.exit(1 if bad else 0)


if __name__ == "__main__":
    main()
