#!/venv/bin/python
"""Differential check for property C13 (DIP node paths / literal values).

usage: diff.py <unmodified tree root> <refactored tree root>
Runs the same DIP inputs against both trees (each in its own subprocess with
its own sys.path) and exits 0 iff all observable outputs are identical.
"""
import json
import subprocess
import sys

WORKER = r'''
import sys, json
sys.path.insert(0, sys.argv[1] + '/src')
import numpy as np
from scinumtools.dip import DIP

INPUTS = json.loads(sys.stdin.read())

def plain(v):
    if isinstance(v, np.ndarray):
        return ['ndarray', str(v.dtype), list(v.shape), v.tolist()]
    if isinstance(v, np.generic):
        return [type(v).__name__, v.item()]
    if isinstance(v, (list, tuple)):
        return [plain(x) for x in v]
    return [type(v).__name__, v] if not isinstance(v, (str, int, float, bool, type(None))) else [type(v).__name__, v]

def describe(node):
    val = node.value
    d = dict(
        name=node.name,
        cls=type(node).__name__,
        keyword=node.keyword,
        indent=node.indent,
        dtype_prop=list(node.dtype_prop),
        dimension=node.dimension,
        value_raw=plain(node.value_raw),
        units_raw=node.units_raw,
        code=node.code,
        source=list(node.source) if node.source else None,
        defined=node.defined,
        repr=repr(node),
    )
    if val is None:
        d['value'] = None
    else:
        d['vtype'] = type(val).__name__
        d['value'] = plain(getattr(val, 'value', val))
        d['unit'] = getattr(val, 'unit', None)
        d['precision'] = getattr(val, 'precision', None)
        d['unsigned'] = getattr(val, 'unsigned', None)
    return d

out = []
for text in INPUTS:
    try:
        with DIP(name='d') as dip:
            dip.add_string(text)
            env = dip.parse()
        res = dict(ok=[describe(n) for n in env.nodes],
                   data=repr(env.data(verbose=False)) if hasattr(env, 'data') else None)
    except BaseException as e:
        res = dict(err=type(e).__name__, args=[repr(a) for a in e.args])
    out.append(res)
print(json.dumps(out, sort_keys=True, default=repr))
'''

INPUTS = [
    # 1 flat scalars of every type
    "a bool = true\nb bool = false\nc int = 3\nd float = 2.5\ne str = hello\nf str = 'quoted text'\ng str = \"double # quoted\"",
    # 2 nested tree, 2-blank indentation, groups
    "box\n  width float = 2.5 cm\n  inner\n    depth int = -4 m\n  height float = 1e3 mm\nout int = 1",
    # 3 same tree, 5-blank indentation, comments and blank lines
    "# head comment\nbox   # group comment\n     width float = 2.5 cm   # w\n\n     inner\n          depth int = -4 m\n     # interleaved\n     height float = 1e3 mm\n\nout int = 1",
    # 4 dotted names and mixed indent widths
    "a.b\n   c.d int = 1\n   e\n    f.g.h float = 0.5\nx.y str = z",
    # 5 typed widths/signs and float notations
    "i1 int16 = -12\ni2 uint32 = 12\ni3 int64 = 123456789012\ni4 uint = 7\nf1 float32 = 1.5\nf2 float64 = -2.5e-3\nf3 float128 = 1E+2\nf4 float = .5\nf5 float = 5.\nf6 float = 1e5 kg",
    # 6 none values
    "n1 int = none\nn2 float = none m\nn3 str = none\nn4 bool = none",
    # 7 inline arrays
    "arr int[3] = [1,2,3] m\nm float[2,2] = [[1.0,2.5],[3e1,4]]\ns str[2] = [\"a\",\"b\"]\nb bool[:] = [true,false,true]\nr int[1:] = [5]",
    # 8 block arrays / block strings
    "blk int[2,2] = \"\"\"\n[[1,2],\n[3,4]]\n\"\"\" cm\ntxt str = \"\"\"\nline one\n  line two\n\"\"\"\nafter int = 1",
    # 9 table
    "grp\n  tab table = \"\"\"\nx float m\ny int\nz bool\nw str\n\n1.5 2 true foo\n2.5 3 false \"bar baz\"\n\"\"\"\n  tail int = 9",
    # 10 redefinition / modification keeps order of first appearance
    "a int = 1\nb\n  c float = 1 m\na = 2\nb.c = 3 cm\nb\n  c = 4 m\nd str = x",
    # 11 escaped quotes and hash within strings
    "q1 str = 'it\\'s'\nq2 str = \"say \\\"hi\\\" # not comment\"   # comment\nq3 str = bare#tail",
    # 12 sibling after deep nesting returns to proper parent
    "a\n  b\n    c\n      d int = 1\n  e int = 2\nf int = 3\na\n  g int = 4",
    # 13 errors: bad type
    "a foo = 1",
    # 14 errors: bad name
    "a$b int = 1",
    # 15 errors: unterminated block
    "a str = \"\"\"\nabc",
    # 16 errors: value missing / array to scalar / wrong dimension
    "a int = ",
    "a int = [1,2]",
    "a int[3] = [1,2]",
    # 19 errors: string with units, table column mismatch
    "s str = a m",
    "t table = \"\"\"\nx int\ny int\n\n1 2 3\n\"\"\"",
    # 21 declaration without value
    "a int\nb float = 1",
    # 22 tabs/odd whitespace, trailing blanks, CR
    "g   \n   v int = 1   \n\n   \n   # c\n   w float = 2   m  # c",
    # 23 bool bad literal, int bad literal
    "a bool = yes",
    "a int = 1.5x",
    # 25 unparsable leftover
    "a int = 1 m extra",
    # 26 empty and comment only
    "# only a comment\n\n",
    # 27 expression / reference values
    "a float = 2 m\nb float = {?a}\nc float = (\"{?a} * 2\") m\n",
    # hierarchy: property lines and cases do not become parents; multi-level dedent
    "a\n    b\n        c int = 1\n        !options [1,2]\n        d float = 2 m\n          !constant\n    e\n        f str = x\n          !tags [\"t\"]\ng bool = true",
    "sw bool = true\ngrp\n  @case false\n    x int = 1\n  @else\n    x int = 2\n  @end\n  y int = 3\nz int = 4",
    "a\n b\n  c\n   d\n    e int = 1\n   f int = 2\n  g int = 3\n h int = 4\ni int = 5\n j int = 6",
    "a int = 1\n  b int = 2\n    c int = 3\n  d int = 4",
    "t str = \"\"\"one\ntwo\"\"\"\nu str = \"\"\"\n  a\n\n  b\n  \"\"\"   # tail\nv int = 1",
    "$unit len = 2 m\nw float = 3 [len]\ngrp\n  $unit q = 1 s\n  k int = 1",
    # dimension specifications: ranges, open ranges, malformed
    "a int[2:] = [1,2,3]\nb float[:2,1:3] = [[1,2]] s\nc str[1:1] = [\"x\"]",
    "a int[:2] = [1,2,3]",
    "a int[1:2:3] = [1]",
    "a int[,] = [1]",
    "a int[2 = [1,2]",
    # function value without registered function, expression value
    "a int = (fn)",
    "a float = 3 m\nb float = (\"{?a}*2\") cm\nc str = ('x{{?a}}y')",
    "arr int[3] = [1,2,3]\nd int[2] = {?arr}[0:2]\ne int = {?arr}[1]\ns str = (\"v={{?e}:d}\")",
]


def run(root):
    p = subprocess.run([sys.executable, '-c', WORKER, root], input=json.dumps(INPUTS),
                       capture_output=True, text=True)
    if p.returncode != 0:
        print("worker failed for", root, "\n", p.stderr[-3000:])
        sys.exit(2)
    return json.loads(p.stdout.strip().splitlines()[-1])


def main():
    a = run(sys.argv[1])
    b = run(sys.argv[2])
    bad = 0
    for i, (x, y) in enumerate(zip(a, b)):
        if x != y:
            bad += 1
            print("DIFF on input", i + 1, repr(INPUTS[i]))
            print("  base:", json.dumps(x)[:600])
            print("  new :", json.dumps(y)[:600])
    nok = sum(1 for x in a if 'ok' in x)
    print(f"{len(INPUTS)} inputs, {nok} parsed / {len(a)-nok} raised on base, {bad} differences")
    sys.exit(1 if bad or len(a) != len(b) else 0)


if __name__ == '__main__':
    main()
