#!/venv/bin/python
"""Differential check for property C14 (the last assignment wins, in the units
and type of the definition).

usage: diff.py <unmodified tree root> <refactored tree root>

Every input below is parsed against each tree in its own subprocess (each with
its own sys.path).  The observable result of a parse is either the ordered list
of parameters (path, keyword, dtype, precision/sign, constant flag, value, unit)
or the type of the raised exception.  Exit status is 0 iff both trees give
identical observations for every input.
"""
import json
import subprocess
import sys

DRIVER = r'''
import sys, json
root = sys.argv[1]
sys.path.insert(0, root + '/src')
import numpy as np
from scinumtools.dip import DIP
import scinumtools
assert scinumtools.__file__.startswith(root), scinumtools.__file__

def plain(v):
    if isinstance(v, np.ndarray):
        return ['ndarray', v.tolist()]
    if isinstance(v, (np.generic,)):
        return [type(v).__name__, repr(v.item())]
    if isinstance(v, (list, tuple)):
        return [plain(x) for x in v]
    if isinstance(v, float):
        return ['float', repr(v)]
    if isinstance(v, bool):
        return ['bool', v]
    if isinstance(v, int):
        return ['int', v]
    if v is None:
        return None
    return [type(v).__name__, str(v)]

def observe(code):
    try:
        with DIP() as p:
            p.add_string(code)
            env = p.parse()
    except BaseException as e:
        return {'raised': type(e).__name__}
    out = []
    for node in env.nodes:
        val = node.value
        out.append({
            'path': node.name,
            'keyword': node.keyword,
            'dtype': getattr(node.dtype, '__name__', str(node.dtype)),
            'precision': plain(getattr(node, 'precision', None)),
            'unsigned': plain(getattr(node, 'unsigned', None)),
            'constant': plain(node.constant),
            'defined': plain(node.defined),
            'dimension': plain(node.dimension),
            'units_raw': plain(node.units_raw),
            'vtype': type(val).__name__,
            'value': plain(getattr(val, 'value', val)),
            'unit': plain(getattr(val, 'unit', None)),
            'vprecision': plain(getattr(val, 'precision', None)),
            'vunsigned': plain(getattr(val, 'unsigned', None)),
        })
    return {'nodes': out}

inputs = json.loads(sys.stdin.read())
print(json.dumps([observe(code) for code in inputs]))
'''

INPUTS = [
    # 1 untyped modification without unit: taken in the definition's unit
    "len float = 10 cm\nlen = 25",
    # 2 untyped modification with another unit of the same dimension
    "len float = 10 cm\nlen = 2 m",
    # 3 typed modification with unit, several modifications, last wins
    "len float = 10 cm\nlen float = 3 mm\nlen = 4 km\nlen float = 7 m",
    # 4 integer node, converted to definition unit
    "mass int = 3 kg\nmass = 2000 g\ncnt int = 1\ncnt = 5\ncnt int = 9",
    # 5 zero and negative values win as well
    "a float = 5 m\na = 0\nb float = 5 m\nb = -3 cm\nc int = 7\nc = 0\nd int = 7 s\nd = -120 s\ne float = 1.5\ne = -0.0",
    # 6 false and none win
    "t bool = true\nt = false\nu bool = false\nu = true\nu = false\nn float = 4 m\nn = none\nm int = 3\nm = none\ns str = abc\ns = none\nb bool = true\nb = none",
    # 7 none first then value
    "n float = none m\nn = 3 cm\nk int = none\nk = 4\nz str = none\nz = word",
    # 8 declarations followed by assignments
    "d1 float m\nd1 = 150 cm\nd2 int\nd2 = 0\nd3 bool\nd3 = false\nd4 str\nd4 = 'text'\nd5 float s\nd5 float = 2 min",
    # 9 declaration left without value -> failure
    "d1 float m\nother int = 1",
    # 10 declaration left without value deeper in the tree -> failure
    "g\n  h\n    d int\n  x int = 1",
    # 11 different data type -> failure
    "a int = 3\na float = 4.0",
    "a float = 3\na str = four",
    "a bool = true\na int = 1",
    # 14 unit of another dimension -> failure
    "len float = 10 cm\nlen = 2 s",
    "m int = 10 kg\nm int = 2 m",
    # 16 constant node cannot be modified -> failure
    "c float = 10 cm\n  !constant\nc = 2",
    "g\n  c int = 1\n    !constant\ng.c int = 1",
    # 18 constant with no later modification is fine
    "c float = 10 cm\n  !constant\nd float = 3 m\nd = 4",
    # 19 modifications anywhere in the hierarchy, by nesting and by dotted path
    "box\n  size float = 3 m\n  lid\n    open bool = false\n    w float = 20 cm\nbox.size = 250 cm\nbox\n  lid\n    open = true\n    w float = 1 m\nbox.lid.w = 5 mm",
    # 20 order of first appearance is kept
    "a int = 1\nb int = 2\nc int = 3\nb = 20\na = 10\nc = 30\nb = 200",
    # 21 strings
    "s str = abc\ns = 'x y z'\ns str = \"# hash\"\nq str = first\nq = ''",
    # 22 width / sign suffix of the definition is kept
    "i int16 = 3\ni = 4\nu uint64 = 3 m\nu = 5 km\nf float32 = 1.5 s\nf = 2 min\nf float32 = 3 h",
    # 23 width mismatch in typed modification (same python dtype)
    "i int16 = 3\ni int64 = 4\nf float32 = 1\nf float128 = 2",
    # 24 arrays
    "v int[3] = [1,2,3]\nv = [4,5,6]\nw float[2] = [1,2] m\nw = [3.5,4.5]\nx float[:] = [1] cm\nx = [1,2,3]",
    # 25 array dimension violated by the modification -> failure
    "v int[3] = [1,2,3]\nv = [4,5]",
    # 26 modifying an undefined node -> failure
    "a int = 1\nb = 2",
    # 27 compound units and prefixes
    "v float = 36 km/h\nv = 10 m/s\ne float = 1 J\ne = 1 kW*h\np float = 1 bar\np = 101325 Pa",
    # 28 definition without unit, modification with unit -> whatever the base does
    "x float = 3\nx = 4 m",
    # 29 definition with unit, dimensionless modification of int with float text -> failure or value
    "n int = 3 m\nn = 2.5",
    # 30 unknown unit in modification -> failure
    "len float = 1 m\nlen = 2 foobars",
    # 31 bool with non boolean modification -> failure
    "b bool = true\nb = maybe",
    # 32 temperature / non linear units
    "T float = 300 K\nT = 20 Cel",
    # 33 none written with a different unit of the same dimension
    "n float = 4 m\nn = none cm",
    # 34 array modification in another unit
    "w float[2] = [1,2] m\nw = [3,4] cm",
    # 35 same unit spelled identically -> no conversion, integer stays integer
    "m int = 3 kg\nm = 7 kg\nk int = 2 m\nk int = 3000 mm",
    # 36 custom unit defined in the code, used by the modification
    "$unit lenx = 2 m\nlen float = 1 m\nlen = 3 [lenx]",
]


def run(root):
    proc = subprocess.run(
        [sys.executable, '-c', DRIVER, root],
        input=json.dumps(INPUTS), capture_output=True, text=True,
    )
    if proc.returncode != 0:
        sys.stderr.write(proc.stderr)
        raise SystemExit(2)
    return json.loads(proc.stdout.strip().splitlines()[-1])


def main():
    base, new = sys.argv[1].rstrip('/'), sys.argv[2].rstrip('/')
    a, b = run(base), run(new)
    assert len(a) == len(b) == len(INPUTS)
    bad = 0
    for i, (x, y) in enumerate(zip(a, b)):
        if x != y:
            bad += 1
            print(f"DIFF input #{i+1}:\n  base: {x}\n  new:  {y}")
    nodes = sum(len(x.get('nodes', [])) for x in a)
    raised = sum(1 for x in a if 'raised' in x)
    print(f"{len(INPUTS)} inputs, {nodes} parameters compared, {raised} raising inputs, {bad} differences")
    sys.exit(1 if bad else 0)


if __name__ == '__main__':
    main()
