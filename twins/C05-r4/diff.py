#!/venv/bin/python
"""Differential check for property C05 (temperature + logarithmic conversions).

usage: diff.py <unmodified tree root> <refactored tree root>

Runs the same battery of inputs against both trees (each in its own
subprocess with its own sys.path) and exits 0 iff every observable output
(values at full precision, units, errors, raised exception types and messages) is identical.
"""
import sys, os, json, subprocess

WORKER = r'''
import sys, json, warnings
warnings.simplefilter("ignore")
root = sys.argv[1]
sys.path.insert(0, root + "/src")
import numpy as np
from decimal import Decimal
from scinumtools.units import Quantity, Unit
from scinumtools.units.magnitude import Magnitude
from scinumtools.units.base_units import BaseUnits
from scinumtools.units.unit_types import (UnitType, StandardUnitType,
    TemperatureUnitType, LogarithmicUnitType)

def show(x):
    if isinstance(x, Quantity):
        return ["Q", show(x.magnitude), x.units(), str(x)]
    if isinstance(x, Magnitude):
        return ["M", show(x.value), show(x.error)]
    if isinstance(x, np.ndarray):
        return ["A", str(x.dtype), [show(v) for v in x.tolist()]]
    if isinstance(x, (float, np.floating)):
        return ["F", repr(float(x))]
    if isinstance(x, Decimal):
        return ["D", str(x)]
    if isinstance(x, (tuple, list)):
        return [show(v) for v in x]
    if isinstance(x, dict):
        return {str(k): show(v) for k, v in sorted(x.items())}
    return [type(x).__name__, repr(x)]

results = []
def run(label, fn):
    try:
        out = ["ok", show(fn())]
    except BaseException as e:
        out = ["exc", type(e).__name__, str(e.args[0]) if e.args else ""]
    results.append([label, out])

temps = ["K", "Cel", "degF", "degR", "kK", "mK"]
mags = [0.0, 1.0, 23, -40.0, 273.15, 300.0, 491.67, 1234.5678, 1e-3, 5e4]
# 1. every ordered pair of temperature units, forward value and round trip
for a in temps:
    for b in temps:
        for m in mags:
            run(f"T {m} {a}->{b}", lambda: Quantity(m, a).to(b))
            run(f"T {m} {a}->{b}->{a}", lambda: Quantity(m, a).to(b).to(a))
            run(f"Tv {m} {a}->{b}", lambda: Quantity(m, a).value(b))
# 2. temperature: arrays, errors, failures
run("T arr", lambda: Quantity(np.array([1.5, 20.0, -300.0, 451.0]), "degF").to("Cel"))
run("T arr2", lambda: Quantity(np.linspace(0, 1000, 7), "Cel").to("degR"))
run("T err", lambda: Quantity(Magnitude(23.0, 0.5), "Cel").to("K"))
run("T kCel", lambda: Quantity(1, "kCel"))
run("T compound", lambda: Quantity(1, "Cel*m").to("K*m"))
run("T compound2", lambda: Quantity(1, "K/s").to("Cel/s"))
run("T wrongdim", lambda: Quantity(1, "Cel").to("m"))
run("T add", lambda: Quantity(1, "Cel") + Quantity(2, "Cel"))
run("T add2", lambda: Quantity(1, "Cel") + Quantity(2, "K"))
run("T sub", lambda: Quantity(300, "K") - Quantity(2, "Cel"))

# 3. logarithmic <-> linear pairs with prefixes
logpairs = [
    ("PR","Np"),("PR","B"),("PR","dB"),("AR","Np"),("AR","B"),("AR","dB"),("AR","cNp"),("PR","dNp"),
    ("W","dBm"),("mW","dBm"),("uW","dBm"),("pW","dBm"),("W","dBmW"),("W","dBW"),("kW","dBW"),("W","Bm"),("W","BW"),
    ("V","dBV"),("mV","dBV"),("V","dBuV"),("uV","dBuV"),("A","dBA"),("uA","dBuA"),("mA","dBuA"),
    ("Ohm","dBOhm"),("kOhm","dBOhm"),("Pa","dBSPL"),("uPa","dBSPL"),("W/m2","dBSIL"),("W","dBSWL"),
    ("dB","Np"),("B","Np"),("dB","cNp"),("dB","B"),("dNp","dB"),
    ("dBW","dBm"),("dBW","dBmW"),("dBm","dBmW"),("dBV","dBuV"),("BV","BuV"),("BW","Bm"),
    ("dBm","dBm"),("Np","Np"),("dB","dB"),("dBSPL","dBSPL"),("dBOhm","dBOhm"),
    ("dBm","dBV"),("dBA","dBuA"),("dBSIL","dBSWL"),("Np","dBm"),("dB","W"),
]
lmags = [1.0, 10.0, 0.5, 3.16228, 2e-5, 1234.5, 22, -3.0, 0.0]
for a, b in logpairs:
    for m in lmags:
        run(f"L {m} {a}->{b}", lambda: Quantity(m, a).to(b))
        run(f"L {m} {b}->{a}", lambda: Quantity(m, b).to(a))
        run(f"L {m} {a}->{b}->{a}", lambda: Quantity(m, a).to(b).to(a))
run("L arr", lambda: Quantity(np.array([1e-3, 1.0, 20.0]), "W").to("dBm"))
run("L arr2", lambda: Quantity(np.array([-30.0, 0.0, 13.0]), "dBm").to("mW"))
run("L err", lambda: Quantity(Magnitude(10.0, 0.1), "dBm").to("mW"))
run("L frac", lambda: Quantity(10, "dBmW/Hz").to("dBm/Hz"))
run("L frac2", lambda: Quantity(10, "dBmW/Hz") * Quantity(100, "Hz"))
run("L triple", lambda: Quantity(10, "dBm*m*s").to("W*m*s"))

# 4. level addition / subtraction (power sum)
levels = ["dB","B","dBm","dBmW","dBW","dBV","dBuV","dBA","dBuA","dBOhm","dBSPL","dBSIL","dBSWL","Np","cNp","Bm"]
for u in levels:
    for a, b in [(10, 10), (0, 3), (20.5, 7.25), (-3, -10), (3, 5), (5, 5), (90, 60)]:
        run(f"A {a}+{b} {u}", lambda: Quantity(a, u) + Quantity(b, u))
        run(f"S {a}-{b} {u}", lambda: Quantity(a, u) - Quantity(b, u))
run("A mixed1", lambda: Quantity(10, "dBm") + Quantity(10, "dBW"))
run("A mixed2", lambda: Quantity(10, "dBm") + Quantity(10, "dBmW"))
run("A mixed3", lambda: Quantity(10, "dB") + Quantity(10, "dBm"))
run("A mixed4", lambda: Quantity(10, "dB") + Quantity(1, "B"))
run("A mixed5", lambda: Quantity(10, "dBm") + Quantity(1, "mW"))
run("A mixed6", lambda: Quantity(10, "dB") + 3)
run("A mixed7", lambda: 3 + Quantity(10, "dB"))
run("S mixed1", lambda: Quantity(10, "dBm") - Quantity(10, "dBW"))
run("S mixed2", lambda: Quantity(10, "dBV") - Quantity(10, "dBuV"))
run("S mixed3", lambda: Quantity(10, "dB") - Quantity(10, "dBm"))
run("S mixed4", lambda: Quantity(10, "dB") - Quantity(1, "Np"))
run("S mixed5", lambda: 30 - Quantity(10, "dB"))
run("A err", lambda: Quantity(Magnitude(10.0, 0.2), "dB") + Quantity(Magnitude(7.0, 0.1), "dB"))
run("S err", lambda: Quantity(Magnitude(10.0, 0.2), "dB") - Quantity(Magnitude(7.0, 0.1), "dB"))
run("A arr", lambda: Quantity(np.array([1.0, 10.0, 20.0]), "dBm") + Quantity(np.array([2.0, 10.0, 0.0]), "dBm"))
run("S arr", lambda: Quantity(np.array([3.0, 10.0, 20.0]), "dBm") - Quantity(np.array([2.0, 1.0, 0.0]), "dBm"))
run("A std", lambda: Quantity(1, "m") + Quantity(2, "cm"))
run("S std", lambda: Quantity(1, "m") - Quantity(2, "cm"))
run("A stdbad", lambda: Quantity(1, "m") + Quantity(2, "s"))

# 5. direct use of the unit-type classes
def direct(cls, u1, u2, v):
    c = cls(BaseUnits(u1), BaseUnits(u2))
    if c is None:
        return None
    return [list(c.conversion), c.convert(Magnitude(v) if not isinstance(v, Magnitude) else v)]
for cls in (TemperatureUnitType, LogarithmicUnitType, StandardUnitType):
    for u1, u2, v in [("K","Cel",300.0),("Cel","degF",-40.0),("degR","K",500.0),("K","K",1.0),("degF","degF",2.0),
                      ("Cel","Cel",7.0),("K","degR",7.0),("degR","degR",7.0),("Cel*m","K",1.0),
                      ("W","dBm",2.0),("dBm","W",2.0),("dB","Np",2.0),("Np","dB",2.0),("dBm","dBV",1.0),
                      ("dB","m",1.0),("dBm*m*s","W",1.0),("m","km",5.0),("s","Hz",4.0),("m","s",1.0),
                      ("dBW","dBm",Magnitude(2.0,0.1)),("km","m",Magnitude(2.0,0.1)),("PR","dB",Decimal("2.5")),
                      ("kK","Cel",Decimal("2.5")),("m","cm",Decimal("2.5"))]:
        run(f"D {cls.__name__} {u1}->{u2} {v}", lambda: direct(cls, u1, u2, v))
run("tbl conversions", lambda: dict(LogarithmicUnitType.conversions))
run("tbl nconv", lambda: len(LogarithmicUnitType.conversions))
run("tbl process", lambda: [list(LogarithmicUnitType.process), list(TemperatureUnitType.process)])
run("tbl methods", lambda: sorted(n for c in (UnitType, StandardUnitType, TemperatureUnitType, LogarithmicUnitType)
                                  for n in dir(c) if n.startswith("_convert_") or n in ("add","sub","convert")))
run("unit list", lambda: str(Unit()))
print(json.dumps(results))
'''

def run_tree(root):
    p = subprocess.run([sys.executable, "-c", WORKER, os.path.abspath(root)],
                       capture_output=True, text=True, cwd="/")
    if p.returncode != 0:
        print("worker failed for", root, "\n", p.stderr[-3000:])
        sys.exit(2)
    return json.loads(p.stdout.strip().splitlines()[-1])

def main():
    a = run_tree(sys.argv[1])
    b = run_tree(sys.argv[2])
    bad = 0
    if len(a) != len(b):
        print("different number of results", len(a), len(b)); bad += 1
    for (la, ra), (lb, rb) in zip(a, b):
        if la != lb or ra != rb:
            bad += 1
            if bad <= 20:
                print("MISMATCH", la, "\n  base:", json.dumps(ra)[:300], "\n  new :", json.dumps(rb)[:300])
    nexc = sum(1 for _, r in a if r[0] == "exc")
    print(f"{len(a)} cases compared ({nexc} raising), {bad} mismatches")
    sys.exit(1 if bad else 0)

if __name__ == "__main__":
    main()
