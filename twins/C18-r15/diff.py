#!/venv/bin/python
"""Differential check for C18 refactorings.

usage: diff.py <unmodified tree root> <refactored tree root>

Runs the same set of DIP numerical / logical / template expressions against
both trees (each in its own subprocess with its own sys.path) and exits 0 iff
all observable outputs (values, units, raised exception types) are identical.
"""
import sys, os, subprocess, json

WORKER = r'''
import sys, json, warnings
warnings.filterwarnings("ignore")
root = sys.argv[1]
sys.path.insert(0, root + "/src")
import numpy as np
from scinumtools.dip import DIP
from scinumtools.dip.solvers import NumericalSolver, LogicalSolver, TemplateSolver
import scinumtools
assert scinumtools.__file__.startswith(root), scinumtools.__file__

def show(x):
    # stable textual form of a result
    if hasattr(x, "magnitude") and hasattr(x, "units"):
        return ["Q", repr(x.value()), str(x.units())]
    if type(x).__name__ in ("BooleanType", "NumberType", "FloatType", "IntegerType", "StringType"):
        return [type(x).__name__, repr(x.value), repr(getattr(x, "unit", None))]
    if isinstance(x, (bool, np.bool_)):
        return ["bool", bool(x)]
    if isinstance(x, (int, float, np.floating, np.integer)):
        return ["num", repr(float(x))]
    return [type(x).__name__, repr(x)]

def run(fn):
    try:
        return ["ok", show(fn())]
    except BaseException as e:
        return ["exc", type(e).__name__]

import tempfile
_tmp = tempfile.mkdtemp()
with open(_tmp + "/aux.dip", "w") as f:
    f.write("q float = 3 m\nr int = 5\n")

with DIP() as dip:
    dip.add_string("$source aux = " + _tmp + "/aux.dip\n" + """
$unit length = 1 m
$unit mass = 2 kg
$unit step = 25 cm
a float = 10 m
b float = 300 cm
n int = 7
dogs int = 23
cats int = 44
birds int = 23
weight float = 57.3 kg
animal bool = true
lazy bool = false
name str = "William Smith"
id int = 345
body
  weight float = 62.3 kg
  height float = 177 cm
widths float[2,3] = [[23.4,235.4,34],[1e10,2e23,5e20]]
counts int[3] = [1,2,3]
stride float = 3 [step]
""")
    env = dip.parse()

out = {}

numerical = [
    ("2 + 4 - 3", None), ("1 - -3 + -4", None), ("34 cm + 4 mm", "cm"),
    ("10 m + 4 cm + 3 m + 1 mm", "m"), ("10 m - 1 m + 3 cm - 3 mm", "mm"),
    ("8 / 4 * 3", None), ("8 / 2 / 4", None), ("-8 / 2 * -4", None),
    ("2 + 3 * 4 - 6 / 3", None), ("2 * 3 + 4 * 5", None), ("10 - 2 - 3", None),
    ("4 cm2 + 10 m * 2 cm - 0.2 m2", "m2"), ("10 m2 / 200 cm", "dm"),
    ("3 kg * 4 m2 / 2 s2 + 1e7 erg", "J"), ("23 kg*m2/s2 / 2 J", None),
    ("(10 m - 1 m) + 3 cm - 3 mm", "m"), ("10 m - (1 m + 3 cm - 3 mm)", "cm"),
    ("4 m2 + 10000 mm * (300 cm - 1 m)", "m2"), ("(2 + (3 - 4))", None),
    ("36 m2 / (20 dm * 300 cm) - 1", None),
    ("exp(10 m / 5 cm)", None), ("log(10 m / 5 cm)", None), ("log10(10 m / 5 cm)", None),
    ("sqrt(16 m2)", "m"), ("sin(10 m / 5 cm)", None), ("cos(1)", None), ("tan(0.5)", None),
    ("pow(10 m, 2)", "m2"), ("logb(8, 2)", None), ("2 ** 3", None),
    ("3 m * log10({?a} / (7 cm - 20 mm)) + {?b}", "m"), ("{?a} + {?b}", "cm"),
    ("{?a} * {?n}", "km"), ("{?a} / {?b}", None), ("{?body.height} - 7 cm", "m"),
    ("2 [length] + 50 cm", "m"), ("3 [mass] * 2", "kg"), ("{?stride} + 1 [step]", "m"),
    ("{?stride} / 1 [length]", None), ("4 [step] + {?a}", "[length]"),
    # errors
    ("10 m + 1 J", None), ("10 m - 1 J", None), ("1 s + 1 Hz", None), ("{?a} + {?weight}", None),
    ("{?nothing} + 1", None), ("(1 + 2", None), ("pow(2)", None), ("2 +", None),
    ("1 m + 2 [nounit]", None), ("3 +* 4", None), ("", None), ("1 + 1 m", "m"), ("1 m + 1", "m"),
    ("{aux?q} + {?a}", "m"), ("{aux} + 1", None), ("{aux?*} + 1", None),
    ("- 3 m + 5 m", "m"), ("-(2 + 3)", None), ("2 * -(3 - 1)", None), ("+ 4 - + 2", None),
]
for i, (e, u) in enumerate(numerical):
    out["num%02d %s -> %s" % (i, e, u)] = run(lambda: NumericalSolver(env).solve(e, u))
out["num int"] = run(lambda: NumericalSolver(env).solve(3))
out["num float"] = run(lambda: NumericalSolver(env).solve(2.5, "m"))
for e1, e2 in [("2 + 4 - 3", "3"), ("34 cm + 4 mm", "34.4 cm"), ("10 m", "1000 cm"),
               ("10 m", "1001 cm"), ("2 [length]", "200 cm"), ("1 m", "1 s")]:
    out["equal %s | %s" % (e1, e2)] = run(lambda: NumericalSolver(env).equal(e1, e2))
out["num noenv"] = run(lambda: NumericalSolver().solve("3 kg * 2 + 500 g", "kg"))
out["num noenv ref"] = run(lambda: NumericalSolver().solve("{?a} + 1"))

logical = [
    "true || true || true", "false || true || false", "true && false && true",
    "true && true && true || false || false", "false || true && false && true || true",
    "false || false || true && false && true", "(true || false) && true && true",
    "false || ((false||true) || false) && (true||false)", "false || true && (false || false)",
    "{?dogs} == {?cats}", "{?dogs} == {?birds}", "{?dogs} != {?cats}", "{?dogs} != {?birds}",
    "{?dogs} <= {?cats}", "{?dogs} >= {?birds}", "{?dogs} <  {?cats}", "{?dogs} >  {?cats}",
    "{?animal}", "~{?animal}", "~~{?animal}", "~{?lazy} && {?animal}", "{?lazy} || ~{?lazy}",
    "!{?dogs}", "!{?elefant}", "!{?elefant} == false", "~!{?elefant}", "~!{?dogs} || !{?cats}",
    "!{?body.weight} && !{?body.height}", "! {?dogs}",
    "{?weight} == 57.30 kg", "{?weight} == 57.31 kg", "{?weight} == 57.30001 kg",
    "{?weight} == 57.3001 kg", "{?weight} != 57.30 kg", "{?weight} <= 57.30 kg", "{?weight} <= 50 kg",
    "{?weight} >= 57300 g", "{?weight} >= 60000 g", "{?weight} > 50000 g", "{?weight} < 60",
    "{?weight} == 28.65 [mass]", "{?a} == 10 [length]", "{?a} > 30 [step]", "{?a} == 40 [step]",
    "{?stride} == 75 cm", "{?stride} < 1 m && {?a} >= 1000 cm",
    "{?name} == 'William Smith'", "{?name} == 'Will'", "{?name} != 'Will'",
    "1 == 1", "1 == 1.0000001", "1 == 1.001", "2 < 3 && 3 < 2", "2 < 3 || 3 < 2", "true == false",
    "{?dogs} == 23 && ({?cats} > 40 || false) && ~false",
    "{?a} > 30 cm \n || ({?a} < 0.4 m || {?a} >= 34) \n && {?animal} \n || ~!{?color}",
    # errors
    "{?elefant}", "{?elefant} == 1", "{?weight} == 1 s", "(true || false", "true &&", "&& true", "",
    "~", "{?a} == 3 [nounit]", "!", "{}", "!{}", "{aux}", "!{aux}", "{aux?q} == 300 cm", "!{aux?zz}", "!{aux?q}",
    "{aux?*}", "!{aux?*}", "{?*}", "true == true", "True", "false || ~true", "3", "3 m", "'abc' == 'abc'",
]
for i, e in enumerate(logical):
    out["log%02d %s" % (i, e)] = run(lambda: LogicalSolver(env).solve(e))
out["log noenv"] = run(lambda: LogicalSolver().solve("true && ~false"))
out["log noenv cmp"] = run(lambda: LogicalSolver().solve("1 m == 100 cm"))

templates = [
    "ID: {{?id}:05d}", "Name: {{?name}}", "Weight: {{?body.weight}:.3e}|{{?body.height}:.2f}",
    "Married: {{?animal}} {{?lazy}}", "Surname: {{?name}[8:]}", "{{?name}[:7]:>10s}|",
    "{{?name}[::2]}", "Scalar: {{?widths}[1,1]:.2e}", "Array:\n{{?widths}[:,1:]}", "{{?counts}}",
    "{{?counts}[1]:03d}", "{{?counts}[1:]}", "{{?n}:+d} {{?n}:x} {{?n}:>6} {{?n}:<6}|", "{{?a}:10.3f}|{{?a}}",
    "{{?a}:e}", "{{?name}:^21}", "{{?name}:*<20s}", "no refs at all", "", "{", "}", "{{", "}}", "{}",
    "braces { and } and {{?id}} and {x}", "json {\"k\": {{?id}}}", "{{?id}}{{?id}:4d}{{?n}}", "{{?id}",
    "{{?id}:05d", "{ {?id}}", "{{?stride}:.1f}", "a{{?dogs}}b{{?cats}}c", "{{{?id}}}",
    # errors
    "{{aux?q}:.2f} {{aux?r}}", "{{aux}}", "{{?missing}}", "{{?id}:s}", "{{?name}:d}", "{{?body.*}}", "{{?name}[1,2]}",
]
for i, e in enumerate(templates):
    out["tpl%02d %r" % (i, e)] = run(lambda: TemplateSolver(env).solve(e))

# generic expression solver (shared tokenizer / token buffers used by the DIP solvers)
from scinumtools.solver import ExpressionSolver, AtomBase, Otype, OperatorAdd, OperatorSub, OperatorMul, OperatorPar
from scinumtools.solver.tokens import Tokens
def atom(x):
    return ["Atom", repr(x.value)] if isinstance(x, AtomBase) else show(x)
generic = ["2 + 3 * 4 - 6 / 3", "-2 + 3", "2 - -3", "2 * (3 + 4) ** 2", "1 - 2 - 3", "8 / 2 / 2", "2 ** 3 ** 2",
           "sqrt(16) + log10(100) * exp(0)", "pow(2, 3) + logb(8, 2)", "1 < 2 && 3 >= 3 || !(2 == 2)",
           "!!(1 > 2)", "3 +", "* 3", "(1 + 2", "2 3"]
for i, e in enumerate(generic):
    out["gen%02d %s" % (i, e)] = run(lambda: atom(ExpressionSolver(AtomBase).solve(e)))
def custom_steps(e, steps):
    ops = {'par': OperatorPar, 'mul': OperatorMul, 'add': OperatorAdd, 'sub': OperatorSub}
    return atom(ExpressionSolver(AtomBase, ops, steps).solve(e))
out["gen steps a"] = run(lambda: custom_steps("2 + 3 * 4", [dict(operators=['add'], otype=Otype.BINARY), dict(operators=['mul'], otype=Otype.BINARY)]))
out["gen steps b"] = run(lambda: custom_steps("2 + 3 * (4 - 1)", [dict(operators=['par'], otype=Otype.ARGS), dict(operators=['add', 'sub'], otype=Otype.UNARY),
                                                              dict(operators=['mul'], otype=Otype.BINARY), dict(operators=['add', 'sub'], otype=Otype.BINARY)]))
out["gen steps ternary"] = run(lambda: custom_steps("2 + 3", [dict(operators=['add'], otype=Otype.TERNARY)]))
out["gen steps ternary2"] = run(lambda: custom_steps("2 + 3", [dict(operators=['add'], otype=Otype.TERNARY), dict(operators=['add'], otype=Otype.BINARY)]))
out["gen steps none"] = run(lambda: custom_steps("2 + 3", [dict(operators=['add'], otype=None), dict(operators=['add'], otype=Otype.BINARY)]))
def raw_tokens(otype):
    t = Tokens(AtomBase)
    for x in (AtomBase(1), OperatorAdd(), AtomBase(2), OperatorMul(), AtomBase(5)):
        t.append(x)
    t.operate((OperatorMul,), otype)
    first = [repr(x) for x in t.right], [repr(x) for x in t.left]
    t.operate((OperatorAdd, OperatorSub), otype)
    return [first, [repr(x) for x in t.right], [repr(x) for x in t.left]]
for ot in ("BINARY", "UNARY", "ARGS", "TERNARY"):
    out["gen tokens " + ot] = run(lambda: raw_tokens(getattr(Otype, ot)))

# full DIP round trip: expressions, conditions and custom units used in the same text
def dip_text():
    with DIP() as d:
        d.add_string("""
$unit pace = 50 cm
x float = 4 m
y float = ("{?x} * 2 + 3 [pace]") cm
z float = ("sqrt({?x} * {?x}) / 2") m
k bool = ("{?x} == 8 [pace] && ~!{?q}")
@case ("{?y} > 9 m")
  big bool = true
@else
  big bool = false
@end
label str = ("x is {{?x}:.1f} and {no ref} {{?y}}")
w float = 1 m
  !condition ("{?w} < {?x} || false")
""")
        e = d.parse()
    return sorted((k, repr(v)) for k, v in e.data(verbose=False).items())
out["dip text"] = run(dip_text)

print("@@RESULT@@" + json.dumps(out, sort_keys=True))
'''

def run_tree(root):
    p = subprocess.run(["/venv/bin/python", "-c", WORKER, root], capture_output=True, text=True, cwd="/")
    for line in p.stdout.splitlines():
        if line.startswith("@@RESULT@@"):
            return json.loads(line[len("@@RESULT@@"):])
    sys.stderr.write("worker failed for %s\n%s\n%s\n" % (root, p.stdout[-2000:], p.stderr[-4000:]))
    sys.exit(2)

def main():
    base, new = os.path.abspath(sys.argv[1]), os.path.abspath(sys.argv[2])
    a, b = run_tree(base), run_tree(new)
    bad = 0
    for k in sorted(set(a) | set(b)):
        if a.get(k) != b.get(k):
            bad += 1
            print("DIFF", k, a.get(k), b.get(k))
    nok = sum(1 for v in a.values() if v[0] == "ok")
    print("%d inputs compared (%d ok results, %d exceptions in base), %d differences" % (len(a), nok, len(a) - nok, bad))
    sys.exit(1 if bad else 0)

if __name__ == "__main__":
    main()
