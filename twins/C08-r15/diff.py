#!/venv/bin/python
"""Differential check for property C08 (uncertainty propagation).

usage: diff.py <unmodified tree root> <refactored tree root>
Runs the same inputs against both trees (each in its own subprocess with its own
sys.path) and exits 0 iff every observable output is identical.
"""
import subprocess
import sys

CHILD = r'''
import sys, warnings
sys.path.insert(0, sys.argv[1] + '/src')
warnings.simplefilter('ignore')
import numpy as np
from decimal import Decimal
from scinumtools.units import Quantity, Unit
from scinumtools.units.magnitude import Magnitude
from scinumtools.units.base_units import BaseUnits
from scinumtools.units.fraction import Fraction

def show(x):
    if isinstance(x, Magnitude):
        return 'M(%s|%s)' % (show(x.value), show(x.error))
    if isinstance(x, Quantity):
        return 'Q(%s|%s|%s)' % (show(x.magnitude.value), show(x.magnitude.error), x.baseunits.expression)
    if isinstance(x, np.ndarray):
        return 'arr%s%s%s' % (x.dtype, x.shape, [repr(float(v)) for v in x.ravel()])
    if isinstance(x, (float, np.floating)):
        return type(x).__name__ + ':' + repr(float(x))
    return type(x).__name__ + ':' + repr(x)

def run(label, fn):
    try:
        out = show(fn())
    except Exception as e:
        out = 'EXC ' + type(e).__name__
    print(label, '=>', out)

def mags():
    return {
        'e1': Magnitude(3.0),
        'e2': Magnitude(-4.5),
        'u1': Magnitude(2.5, 0.25),
        'u2': Magnitude(-7.0, 0.5),
        'u3': Magnitude(40.0, rele=2.5),
        'u4': Magnitude(0.125, 0.0625),
        'ae': Magnitude([1.0, -2.0, 3.5]),
        'au': Magnitude([1.0, -2.0, 3.5], 0.125),
        'av': Magnitude(np.array([4.0, 5.0, -6.0]), rele=10),
        'de': Magnitude(Decimal('1.25')),
        'ze': Magnitude(0.0, 0.5),
    }

names = list(mags().keys())
ops = {
    'add': lambda a, b: a + b,
    'sub': lambda a, b: a - b,
    'mul': lambda a, b: a * b,
    'div': lambda a, b: a / b,
}
for on, op in ops.items():
    for x in names:
        for y in names:
            run('M %s %s %s' % (on, x, y), lambda: op(mags()[x], mags()[y]))
    for x in names:
        for c in (2, -3.5, 0.25, Decimal('2.5'), [1.0, 2.0, -4.0]):
            run('M %s %s c=%r' % (on, x, c), lambda: op(mags()[x], c))
            run('M r%s %s c=%r' % (on, x, c), lambda: op(c, mags()[x]))
for x in names:
    run('M neg ' + x, lambda: -mags()[x])
    for p in (2, 3, -1, 0.5, -2):
        run('M pow %s %r' % (x, p), lambda: mags()[x] ** p)
    run('M abse ' + x, lambda: mags()[x].abse())
    run('M rele ' + x, lambda: mags()[x].rele())
    run('M setabse ' + x, lambda: mags()[x].abse(0.75))
    run('M setrele ' + x, lambda: mags()[x].rele(5))
    run('M str ' + x, lambda: str(mags()[x]))
run('M both', lambda: Magnitude(1.0, 0.1, 2))
run('M badtype', lambda: Magnitude('abc'))
run('M tuple', lambda: Magnitude((1, 2)))
run('M npfloat', lambda: Magnitude(np.float64(2.0), 0.5))
run('M arr abse arr', lambda: Magnitude([1.0, 2.0], [0.1, 0.2]))
run('M int rele', lambda: Magnitude(-8, rele=25))

def quants():
    return {
        'qe': Quantity(3.0, 'm'),
        'qn': Quantity(-2.0, 'km'),
        'qu': Quantity(2.5, 'm', abse=0.25),
        'qv': Quantity(-120.0, 'cm', abse=4.0),
        'qr': Quantity(40.0, 'km', rele=2.5),
        'qa': Quantity([1.0, -2.0, 3.5], 'm', abse=0.125),
        'qb': Quantity(np.array([4.0, 5.0, 6.0]), 'mm', rele=10),
        'qs': Quantity(8.0, 's', abse=0.5),
        'qd': Quantity(5.0, abse=0.5),
        'qm': Quantity(Magnitude(6.0, 0.3), 'kg'),
        'qh': Quantity(10.0, 'Hz', abse=1.0),
    }
qn = list(quants().keys())
for on, op in ops.items():
    for x in qn:
        for y in qn:
            run('Q %s %s %s' % (on, x, y), lambda: op(quants()[x], quants()[y]))
        for c in (2, -0.5):
            run('Q %s %s c=%r' % (on, x, c), lambda: op(quants()[x], c))
            run('Q r%s %s c=%r' % (on, x, c), lambda: op(c, quants()[x]))
for x in qn:
    run('Q neg ' + x, lambda: -quants()[x])
    for p in (2, -1, (1, 2), Fraction(3, 1)):
        run('Q pow %s %s' % (x, p), lambda: quants()[x] ** p)
    for u in ('m', 'km', 'cm', 'mm', 'au', 'ft', 's', 'ms', 'min', 'Hz', 'g', 'lb', 'J', 'K', None, 'rad'):
        run('Q to %s %s' % (x, u), lambda: quants()[x].to(u))
        run('Q value %s %s' % (x, u), lambda: quants()[x].value(u))
    run('Q to-quantity ' + x, lambda: quants()[x].to(Quantity(2.0, 'cm')))
    run('Q to-quantity-u ' + x, lambda: quants()[x].to(Quantity(2.0, 'cm', abse=0.5)))
    run('Q to-baseunits ' + x, lambda: quants()[x].to(BaseUnits('km')))
    run('Q to-dict ' + x, lambda: quants()[x].to({'k:m': 1}))
    run('Q abse ' + x, lambda: quants()[x].abse())
    run('Q rele ' + x, lambda: quants()[x].rele())
    run('Q rele-after-to ' + x, lambda: quants()[x].to('km').rele())
    run('Q setabse ' + x, lambda: quants()[x].abse(0.5))
    run('Q setrele ' + x, lambda: quants()[x].rele(5))
    run('Q rebase ' + x, lambda: (quants()[x] * Quantity(2.0, 'cm', abse=0.1)).rebase())
    run('Q str ' + x, lambda: str(quants()[x]))
# inversed, temperature and logarithmic conversions (non-linear: error handling path differs)
run('Q inv', lambda: Quantity(10.0, 's', abse=1.0).to('Hz'))
run('Q inv2', lambda: Quantity(4.0, 'Hz', abse=0.5).to('ms'))
run('Q temp1', lambda: Quantity(20.0, 'Cel', abse=0.5).to('K'))
run('Q temp2', lambda: Quantity(300.0, 'K', abse=2.0).to('degF'))
run('Q temp3', lambda: Quantity(50.0, 'degF').to('Cel'))
run('Q temp bad', lambda: Quantity(20.0, 'Cel*m').to('K*m'))
run('Q log1', lambda: Quantity(1.0, 'W', abse=0.1).to('dBm'))
run('Q log2', lambda: Quantity(30.0, 'dBm', abse=1.0).to('W'))
run('Q log3', lambda: Quantity(3.0, 'dBW', abse=0.5).to('dBm'))
run('Q log4', lambda: Quantity(2.0, 'Np').to('dB'))
run('Q log add', lambda: Quantity(10.0, 'dBm', abse=1.0) + Quantity(13.0, 'dBm', abse=0.5))
run('Q log sub', lambda: Quantity(13.0, 'dBm', abse=1.0) - Quantity(10.0, 'dBm'))
run('Q log add bad', lambda: Quantity(10.0, 'dBm') + Quantity(13.0, 'dBW'))
run('Q log unimpl', lambda: Quantity(10.0, 'dBm').to('dBV'))
run('Q angle', lambda: Quantity(2.0, abse=0.5).to('rad'))
run('Q deg', lambda: Quantity(90.0, 'deg', abse=1.0).to('rad'))
run('Q decimal', lambda: Quantity(Decimal('1.5'), 'km').to('m'))
run('Q decimal2', lambda: Quantity(Decimal('1.5'), 'km') * 2)
run('Q both', lambda: Quantity(1.0, 'm', abse=0.1, rele=1))
run('Q bad units', lambda: Quantity(1.0, 'm', abse=0.1).to('kg'))
run('Q bad add', lambda: Quantity(1.0, 'm', abse=0.1) + Quantity(1.0, 's'))
run('Q bad def', lambda: Quantity('x', 'm'))
run('Q bad def2', lambda: Quantity(1.0, 3.5))
run('Q unit mult', lambda: Quantity(3.0, Quantity(2.0, 'm', abse=0.5), abse=0.25))
run('Q eq', lambda: Quantity(1.0, 'km', abse=0.1) == Quantity(1000.0, 'm'))
run('Q sqrt', lambda: np.sqrt(Quantity(4.0, 'm2', abse=0.5)))
run('Q getitem', lambda: Quantity([1.0, 2.0], 'm', abse=0.5)[1])
'''


def collect(root):
    res = subprocess.run([sys.executable, '-c', CHILD, root], capture_output=True, text=True, cwd='/tmp')
    return res.returncode, res.stdout, res.stderr


def main():
    base, new = sys.argv[1], sys.argv[2]
    rc1, out1, err1 = collect(base)
    rc2, out2, err2 = collect(new)
    if rc1 != 0 or rc2 != 0:
        print('child failed', rc1, rc2)
        print(err1[-2000:])
        print(err2[-2000:])
        return 2
    l1, l2 = out1.splitlines(), out2.splitlines()
    if len(l1) < 12:
        print('too few cases')
        return 2
    bad = 0
    if len(l1) != len(l2):
        print('different number of lines', len(l1), len(l2))
        bad += 1
    for a, b in zip(l1, l2):
        if a != b:
            bad += 1
            if bad < 20:
                print('DIFF\n  base:', a, '\n  new :', b)
    print('%d cases compared, %d differences' % (len(l1), bad))
    return 1 if bad else 0


if __name__ == '__main__':
    sys.exit(main())
