#!/venv/bin/python
"""Differential check for property C02 (a solver instance is unaffected by what it solved before).

usage: diff.py <unmodified tree root> <refactored tree root>

Runs the same sequences of ExpressionSolver.solve() calls (including calls that
fail part-way through) on ONE solver instance per scenario, against each tree in
its own subprocess, and compares all observable outputs (value reprs, result
types, unit strings, raised exception types, and the leftover token buffer
sizes after each call).  Exit code 0 iff everything is identical.
"""
import json
import subprocess
import sys

RUNNER = r'''
import sys, json
sys.path.insert(0, sys.argv[1] + '/src')
import warnings
warnings.simplefilter('ignore')
import numpy as np
from scinumtools.solver import *
from scinumtools.solver.solver import ExpressionSolver

out = []

def show(v):
    if isinstance(v, AtomBase):
        val = v.value
        if isinstance(val, (float, np.floating)):
            val = float('%.12g' % float(val))
        return [type(v).__name__, repr(val)]
    return [type(v).__name__, repr(v)]

def run(name, solver, exprs):
    """Solve every expression of the sequence on the same instance."""
    for e in exprs:
        try:
            res = ['ok'] + show(solver.solve(e))
        except BaseException as exc:
            res = ['err', type(exc).__name__]
        buf = [len(solver.tokens.left), len(solver.tokens.right), solver.tokens.atom.__name__]
        out.append([name, e, res, buf])

class AtomCustom(AtomBase):
    def __init__(self, value):
        if isinstance(value, str):
            if value.strip() == 'boom':
                raise ValueError('atom constructor raising')
            if value.strip() == 'pi':
                value = 3.0
        super().__init__(value)
    def __add__(self, other):
        return AtomCustom(self.value + other.value)
    def __sub__(self, other):
        return AtomCustom(self.value - other.value)
    def __mul__(self, other):
        return AtomCustom(self.value * other.value)
    def __neg__(self):
        return AtomCustom(-self.value)

class OperatorSquare(OperatorBase):
    symbol = '~'
    def operate_unary(self, tokens):
        right = tokens.get_right()
        tokens.put_right(right * right)

SEQ = [
    '1 + 2 * 3',
    '2 * (3 + ',            # unbalanced parenthesis
    '1 + 2 * 3',
    '4 * foo + 1',          # unknown atom in the middle
    '4 * 5 + 1',
    '3 * ',                 # missing right operand
    '* 3',                  # missing left operand
    '3 * 2',
    '2 3',                  # atom constructor fails on "2 3"
    '-(2 + 3) ** 2',
    'logb(8, 2) + pow(2, 3)',
    'logb(8) + 1',          # wrong number of arguments
    'exp(0) + sqrt(16) - log10(100)',
    '1 < 2 && !(3 == 4) || 5 >= 6',
    '(1 + (2 * (3 + foo)))',# failure inside nested solver
    '(1 + (2 * (3 + 4)))',
    '',                     # empty expression
    '7',
    '1 +',
    '1 + + - 2',
    '!!1',
    'sin(0) + cos(0) + tan(0)',
    '2 ** 3 ** 2',
    '6 / 3 / 2',
    '1 / 0',                # ZeroDivisionError raised in an operator
    '1 / 4',
]

# 1) default configuration
run('default', ExpressionSolver(AtomBase), SEQ)

# 2) same list reversed on a fresh instance (history differs)
run('default-rev', ExpressionSolver(AtomBase), SEQ[::-1])

# 3) custom atom type whose constructor can raise
run('custom-atom', ExpressionSolver(AtomCustom),
    ['pi * 2', 'boom + 1', 'pi * 2', '1 + boom', '(boom)', '(pi) + 1', '2 * (pi + boom) + 1', '2 * (pi + 1) + 1'])

# 4) subset of operators
ops = {'add': OperatorAdd, 'mul': OperatorMul}
run('subset-ops', ExpressionSolver(AtomBase, ops),
    ['1 + 2 * 3', '1 - 2', '1 + 2 * 3', '2 * * 3', '2 * 3', '(1 + 2)', '1 + 2'])

# 5) subset of operators with parentheses, custom step order (add before mul)
ops = {'par': OperatorPar, 'add': OperatorAdd, 'mul': OperatorMul}
steps = [
    dict(operators=['par'], otype=Otype.ARGS),
    dict(operators=['add'], otype=Otype.BINARY),
    dict(operators=['mul'], otype=Otype.BINARY),
]
run('custom-steps', ExpressionSolver(AtomBase, ops, steps),
    ['1 + 2 * 3', '2 * (1 + ', '1 + 2 * 3', '2 * (1 + x) * 3', '2 * (1 + 1) * 3', '+ 2', '2 * 3 + 1'])

# 6) custom operator + custom atom + custom steps, steps naming operators not configured
ops = {'sq': OperatorSquare, 'add': OperatorAdd, 'sub': OperatorSub, 'mul': OperatorMul}
steps = [
    dict(operators=['sq'], otype=Otype.UNARY),
    dict(operators=['pow', 'nonexistent'], otype=Otype.BINARY),
    dict(operators=['add', 'sub'], otype=Otype.UNARY),
    dict(operators=['mul'], otype=Otype.BINARY),
    dict(operators=['add', 'sub'], otype=Otype.BINARY),
    dict(operators=['mul'], otype=Otype.TERNARY),
]
run('custom-op', ExpressionSolver(AtomCustom, ops, steps),
    ['~3 + 1', '~', '~3 + 1', '~boom', '-~pi * 2', '2 ~', '2 * -3 - -4'])

# 7) Expression objects instead of strings, context manager protocol
from scinumtools.solver.expression import Expression
with ExpressionSolver(AtomBase) as es:
    for e in ['1 + 1', '(', '2 + 2', ')', '3 + 3']:
        try:
            r = ['ok'] + show(es.solve(Expression(e)))
        except BaseException as exc:
            r = ['err', type(exc).__name__]
        out.append(['expr-obj', e, r, [len(es.tokens.left), len(es.tokens.right)]])

# 8) library users of the solver: unit expressions (value + unit string)
try:
    from scinumtools.units import Quantity
    for q in ['kg*m2/s2', 'km/(s*Mpc)', 'kg*(m', 'kg*m2/s2', 'm**2', 'kg*m2/s2', 'foo*m', 'J/(kg*K)', 'm/', 'cm3/g']:
        try:
            x = Quantity(2, q)
            r = ['ok', str(x), repr(x.value()), x.units()]
        except BaseException as exc:
            r = ['err', type(exc).__name__]
        out.append(['units', q, r])
except ImportError as exc:
    out.append(['units', 'import', ['err', type(exc).__name__]])

print(json.dumps(out))
'''


def run(root):
    p = subprocess.run([sys.executable, '-c', RUNNER, root], capture_output=True, text=True)
    if p.returncode != 0:
        sys.stderr.write(p.stderr)
        raise SystemExit(2)
    return json.loads(p.stdout.strip().splitlines()[-1])


def main():
    a, b = run(sys.argv[1]), run(sys.argv[2])
    bad = 0
    if len(a) != len(b):
        print('different number of records', len(a), len(b))
        bad += 1
    for x, y in zip(a, b):
        if x != y:
            bad += 1
            print('DIFF', x, y)
    print(f'{len(a)} records compared, {bad} differences')
    sys.exit(1 if bad else 0)


if __name__ == '__main__':
    main()
