"""Differential check for property C05 (temperature / logarithmic conversions).

usage: diff.py <unmodified tree root> <refactored tree root>
Runs the same probe inputs against both trees (each in its own subprocess with
its own sys.path) and exits 0 iff every observable output is identical.
"""
import json
import subprocess
import sys

PROBE = r'''
import sys, json
sys.path.insert(0, sys.argv[1] + '/src')
import numpy as np
from decimal import Decimal
from scinumtools.units import Quantity, Unit

def show(v):
    if isinstance(v, np.ndarray):
        return ['arr'] + [repr(float(x)) for x in v.ravel()]
    if isinstance(v, Decimal):
        return 'Dec:' + str(v)
    if v is None:
        return None
    if isinstance(v, (bool, np.bool_)):
        return bool(v)
    return repr(float(v))

def obs(fn):
    try:
        q = fn()
    except BaseException as e:
        return ['EXC', type(e).__name__, [str(a) for a in e.args]]
    if isinstance(q, Quantity):
        return ['Q', show(q.magnitude.value), show(q.magnitude.error), q.units(), str(q)]
    return ['V', show(q)]

out = []
temps = ['K', 'Cel', 'degF', 'degR', 'mK', 'kK']
mags = [0, 23, -40, 273.15, 1234.5678, 1e-3]
# 1. all ordered temperature pairs, forward conversion
for a in temps:
    for b in temps:
        for m in mags:
            out.append([a, b, m, obs(lambda: Quantity(m, a).to(b))])
# 2. round trips
for a in temps:
    for b in temps:
        out.append(['rt', a, b, obs(lambda: Quantity(37.5, a).to(b).to(a))])
# 3. arrays, errors, Decimal and value()
out.append(obs(lambda: Quantity([0., 100., -273.15], 'Cel').to('degF')))
out.append(obs(lambda: Quantity(np.array([32., 212.]), 'degF').to('K')))
out.append(obs(lambda: Quantity(23, 'Cel', abse=0.5).to('K')))
out.append(obs(lambda: Quantity(23, 'K', abse=0.5).to('mK')))
out.append(obs(lambda: Quantity(23, 'km', rele=10).to('m')))
out.append(obs(lambda: Quantity(Decimal('23.5'), 'km').to('m')))
out.append(obs(lambda: Quantity(Decimal('23.5'), 'Cel').to('K')))
out.append(obs(lambda: Quantity(300, 'K').value('Cel')))
out.append(obs(lambda: Quantity(2, 's').to('Hz')))
out.append(obs(lambda: Quantity(0, 's').to('Hz')))
out.append(obs(lambda: Quantity(3, 'rad').to('deg')))
out.append(obs(lambda: Quantity(3).to('rad')))
# 4. bad temperature conversions
out.append(obs(lambda: Quantity(1, 'Cel*m').to('K*m')))
out.append(obs(lambda: Quantity(1, 'Cel').to('m')))
out.append(obs(lambda: Quantity(1, 'degR').to('degR')))
out.append(obs(lambda: Quantity(1, 'degR').to('K')))
out.append(obs(lambda: Quantity(1, 'Cel2').to('K2')))
out.append(obs(lambda: Quantity(1, 'm').to('s')))
# 5. logarithmic <-> linear
logpairs = [('PR','dB'),('AR','dB'),('PR','Np'),('AR','Np'),('PR','B'),('AR','cNp'),
            ('W','dBm'),('mW','dBm'),('W','dBmW'),('W','dBW'),('kW','dBW'),
            ('V','dBV'),('mV','dBuV'),('V','dBuV'),('A','dBA'),('uA','dBuA'),('mA','dBuA'),
            ('Ohm','dBOhm'),('kOhm','dBOhm'),('Pa','dBSPL'),('W/m2','dBSIL'),('W','dBSWL'),
            ('dB','Np'),('B','dB'),('dB','cNp'),('dNp','dB'),
            ('dBW','dBm'),('dBm','dBmW'),('dBmW','dBW'),('dBV','dBuV'),('BV','dBuV')]
for a, b in logpairs:
    for m in [1, 2.5, 1000, 1e-6, 17.3]:
        out.append([a, b, m, obs(lambda: Quantity(m, a).to(b))])
        out.append([b, a, m, obs(lambda: Quantity(m, b).to(a))])
        out.append(['rt', a, b, m, obs(lambda: Quantity(m, a).to(b).to(a))])
# 6. identity conversions
for u in ['dB','Np','dBm','dBW','dBmW','dBV','dBuV','dBA','dBuA','dBOhm','dBSPL','dBSIL','dBSWL','B','cNp','Cel','degF','K']:
    out.append([u, obs(lambda: Quantity(-12.25, u).to(u))])
# 7. unsupported log conversions / non-positive arguments
out.append(obs(lambda: Quantity(1, 'dBm').to('dBV')))
out.append(obs(lambda: Quantity(1, 'dBA').to('dBuA')))
out.append(obs(lambda: Quantity(1, 'dB').to('W')))
out.append(obs(lambda: Quantity(1, 'dB*m*s').to('PR')))
out.append(obs(lambda: Quantity(1, 'dBm*m*s').to('W*m*s')))
out.append(obs(lambda: Quantity(1, 'dBm').to('K')))
out.append(obs(lambda: Quantity([1., 10., 100.], 'W').to('dBm')))
out.append(obs(lambda: Quantity(10, 'W', abse=1).to('dBm')))
out.append(obs(lambda: Quantity(3, 'dBm', abse=0.1).to('dBW')))
# 8. level addition / subtraction
for u in ['dB','dBm','dBW','dBV','dBSPL','B','dBuA']:
    for a, b in [(10, 10), (20, 10), (0, -3), (33.3, 12.1), (3, 3)]:
        out.append(['add', u, a, b, obs(lambda: Quantity(a, u) + Quantity(b, u))])
        out.append(['sub', u, a, b, obs(lambda: Quantity(a, u) - Quantity(b, u))])
out.append(obs(lambda: Quantity(10, 'dBm') + Quantity(10, 'dBW')))
out.append(obs(lambda: Quantity(10, 'dBm') - Quantity(10, 'dBW')))
out.append(obs(lambda: Quantity(10, 'dBm') + Quantity(10, 'dBmW')))
out.append(obs(lambda: Quantity(10, 'dBm') + Quantity(10, 'dBV')))
out.append(obs(lambda: Quantity(10, 'dBm') - Quantity(10, 'dBV')))
out.append(obs(lambda: Quantity(10, 'dBm') + Quantity(1, 'B*Bm-1*dBm')))
out.append(obs(lambda: Quantity(1, 'B') + Quantity(10, 'dB')))
out.append(obs(lambda: Quantity(1, 'B') - Quantity(5, 'dB')))
out.append(obs(lambda: Quantity(10, 'dB') + 3))
out.append(obs(lambda: 3 + Quantity(10, 'dB')))
out.append(obs(lambda: Quantity(10, 'dB', abse=0.5) + Quantity(7, 'dB', abse=0.25)))
out.append(obs(lambda: Quantity(10, 'dB', abse=0.5) - Quantity(7, 'dB')))
out.append(obs(lambda: Quantity([10., 20.], 'dBm') + Quantity([10., 10.], 'dBm')))
# 9. ordinary / temperature addition and subtraction, comparison
out.append(obs(lambda: Quantity(10, 'Cel') + Quantity(10, 'Cel')))
out.append(obs(lambda: Quantity(10, 'Cel') + Quantity(10, 'K')))
out.append(obs(lambda: Quantity(10, 'K') - Quantity(10, 'Cel')))
out.append(obs(lambda: Quantity(10, 'K') + Quantity(10, 'mK')))
out.append(obs(lambda: Quantity(10, 'm') + Quantity(10, 'cm')))
out.append(obs(lambda: Quantity(10, 'm') - Quantity(10, 's')))
out.append(obs(lambda: Quantity(10, 'm') + Quantity(10, 's')))
out.append(obs(lambda: Quantity(10, 'm', abse=1) - Quantity(10, 'cm', abse=5)))
out.append(obs(lambda: Quantity(0, 'Cel') == Quantity(273.15, 'K')))
out.append(obs(lambda: Quantity(1, 'W') == Quantity(30, 'dBm')))
out.append(obs(lambda: Quantity(1, 'm') == Quantity(1, 's')))
out.append(obs(lambda: np.sin(Quantity(30, 'deg'))))
out.append(obs(lambda: np.sin(Quantity(30, 'm'))))
out.append(['list', Unit._list()])
print(json.dumps(out))
'''


def run(root):
    p = subprocess.run([sys.executable, '-W', 'ignore', '-c', PROBE, root],
                       capture_output=True, text=True)
    if p.returncode != 0:
        print('probe failed for', root, file=sys.stderr)
        print(p.stderr, file=sys.stderr)
        sys.exit(2)
    return json.loads(p.stdout.strip().splitlines()[-1])


def main():
    a = run(sys.argv[1])
    b = run(sys.argv[2])
    if len(a) != len(b):
        print('different number of observations', len(a), len(b))
        sys.exit(1)
    bad = [(i, x, y) for i, (x, y) in enumerate(zip(a, b)) if x != y]
    for i, x, y in bad[:20]:
        print('DIFF #%d\n  base: %r\n  new : %r' % (i, x, y))
    print('%d observations, %d differences' % (len(a), len(bad)))
    sys.exit(1 if bad else 0)


if __name__ == '__main__':
    main()
