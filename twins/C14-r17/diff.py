#!/venv/bin/python
"""Differential check for property C14 (the last assignment wins, in the units
and type of the definition).

usage: diff.py <unmodified tree root> <refactored tree root>

Every input below is run against both trees, each in its own subprocess with
its own sys.path.  Exit code 0 iff all observable outputs (node names, value
types, values, units, constant flags, raised exception types and messages)
are identical.
"""
import json
import subprocess
import sys

DRIVER = r'''
import sys, json
root = sys.argv[1]
sys.path.insert(0, root + '/src')
import numpy as np
from scinumtools.dip import DIP
from scinumtools.dip.settings import Format
from scinumtools.dip.datatypes import FloatType, IntegerType, StringType, BooleanType
from scinumtools.dip.nodes import FloatNode, IntegerNode, BooleanNode, StringNode, ModNode
from scinumtools.dip.environment import Environment

CODES = {
  # --- typed / untyped modifications, same dimension, other unit
  "float_mod_unit":      "a float = 2 m\na = 30 cm",
  "float_mod_nounit":    "a float = 2 m\na = 3",
  "float_mod_typed":     "a float = 2 m\na float = 3 km",
  "float_mod_chain":     "a float = 2 m\na = 30 cm\na float = 4 km\na = 5\na = 6 mm",
  "float_mod_same_unit": "a float = 2 m\na = 7 m",
  "int_mod_unit":        "n int = 2 km\nn = 3000 m",
  "int_mod_nounit":      "n int = 2 km\nn = 5",
  "int_mod_typed":       "n int = 2 km\nn int = 7000 m",
  "int_unsigned":        "n uint16 = 2 km\nn = 3000 m",
  "float_precision":     "a float32 = 2 m\na = 30 cm",
  # --- zero, negative, false, none
  "float_zero":          "a float = 2 m\na = 0 cm",
  "float_zero_nounit":   "a float = 2 m\na = 0",
  "float_negative":      "a float = 2 m\na = -30 cm",
  "int_zero":            "n int = 2 km\nn = 0 m",
  "int_negative":        "n int = 2\nn = -4",
  "bool_false":          "b bool = true\nb = false",
  "bool_true":           "b bool = false\nb = true",
  "bool_typed_false":    "b bool = true\nb bool = false",
  "float_none":          "a float = 2 m\na = none",
  "float_none_back":     "a float = 2 m\na = none\na = 50 cm",
  "float_none_first":    "a float = none m\na = 50 cm",
  "int_none":            "n int = 2 km\nn = none",
  "bool_none":           "b bool = true\nb = none",
  "str_none":            "s str = abc\ns = none",
  "str_mod":             "s str = abc\ns = def\ns str = 'g h'",
  "str_empty":           "s str = abc\ns = ''",
  # --- declarations
  "decl_then_mod":       "a float cm\na = 2 m",
  "decl_then_nounit":    "a float cm\na = 2",
  "decl_then_zero":      "a float cm\na = 0",
  "decl_bool_false":     "b bool\nb = false",
  "decl_int_zero":       "n int\nn = 0",
  "decl_never":          "a float cm",
  "decl_none":           "a float cm\na = none",
  "decl_str_never":      "s str",
  # --- failures
  "dtype_change_int":    "a float = 2 m\na int = 3 m",
  "dtype_change_str":    "a float = 2\na str = 3",
  "dtype_change_bool":   "b bool = true\nb int = 1",
  "dtype_change_float":  "n int = 2\nn float = 3.5",
  "dim_mismatch":        "a float = 2 m\na = 3 s",
  "dim_mismatch_typed":  "a float = 2 m\na float = 3 kg",
  "dim_mismatch_int":    "n int = 2 km\nn = 3 K",
  "dim_unitless_def":    "a float = 2\na = 3 s",
  "constant_mod":        "a float = 2 m\n  !constant\na = 3 m",
  "constant_typed":      "a float = 2 m\n  !constant\na float = 3 m",
  "constant_same":       "n int = 2\n  !constant\nn = 2",
  "constant_other":      "a float = 2 m\n  !constant\nb float = 3 m\nb = 4 cm",
  "mod_undefined":       "a = 3 m",
  "bad_value":           "n int = 2\nn = abc",
  "bad_bool":            "b bool = true\nb = maybe",
  "bad_unit":            "a float = 2 m\na = 3 foobar",
  # --- hierarchy
  "group_mod":           "box\n  width float = 2 m\n  height float = 3 m\nbox.width = 50 cm",
  "group_mod_inner":     "box\n  width float = 2 m\n  width = 5 mm\nbox.width = 7",
  "group_deep":          "a\n  b\n    c int = 1 km\na.b.c = 2500 m\na.b\n  c = 0",
  "group_const":         "box\n  width float = 2 m\n    !constant\nbox.width = 50 cm",
  "group_decl":          "box\n  width float m\nbox\n  width = 50 cm",
  "group_decl_never":    "box\n  width float m\n  height float = 1 m",
  "group_dtype":         "box\n  width float = 2 m\nbox.width int = 5 m",
  "group_dim":           "box\n  width float = 2 m\nbox.width = 5 s",
  # --- branching, options, conditions, arrays, references, expressions
  "case_mod":            "a float = 2 m\n@case true\n  a = 10 cm\n@else\n  a = 20 cm\n@end",
  "case_mod_false":      "a float = 2 m\n@case false\n  a = 10 cm\n@else\n  a = 0 cm\n@end\na = -1 mm",
  "options_ok":          "a float cm\n  !options [12,13] cm\n  !options [22,23] m\na = 23 m",
  "options_bad":         "a float cm\n  !options [12,13] cm\na = 11",
  "options_after_mod":   "a float = 12 cm\na = 13 cm\n  !options [12,13] cm",
  "props_after_mod":     "a float = 2 m\nb float = 1 m\na = 3 m\n  !constant\nb = 5 m",
  "props_after_mod2":    "a float = 2 m\nb float = 1 m\na = 3 m\n  !constant\na = 5 m",
  "condition_ok":        "a float = 2 m\n  !condition ('{?} > 1 m')\na = 150 cm",
  "condition_bad":       "a float = 2 m\n  !condition ('{?} > 1 m')\na = 50 cm",
  "array_mod":           "v float[3] = [1,2,3] m\nv = [10,20,30] cm",
  "array_mod_nounit":    "v int[2] = [1,2] km\nv = [0,-4]",
  "array_bad_dim":       "v float[3] = [1,2,3] m\nv = [10,20] cm",
  "bool_array":          "v bool[2] = [true,false]\nv = [false,false]",
  "ref_mod":             "a float = 2 m\nb float = 30 cm\na = {?b}",
  "ref_mod_dim":         "a float = 2 m\nb float = 30 s\na = {?b}",
  "expr_def":            "a float = 2 m\nb float = ('{?a} * 3') cm\nb = 1 m",
  "custom_unit":         "$unit len = 2 m\na float = 1 m\na = 3 [len]",
  "two_nodes":           "a float = 2 m\nb int = 3\na = 0\nb = -1\na = 1 km",
}

def show_value(v):
    if isinstance(v, (FloatType, IntegerType, StringType, BooleanType)):
        d = dict(type=type(v).__name__, value=repr(v.value), vtype=type(v.value).__name__, unit=v.unit)
        for k in ('precision', 'unsigned'):
            if hasattr(v, k):
                d[k] = getattr(v, k)
        return d
    return dict(type=type(v).__name__, value=repr(v))

def run_code(code):
    try:
        with DIP() as p:
            p.add_string(code)
            env = p.parse()
        nodes = []
        for node in env.nodes:
            nodes.append(dict(
                name=node.name, keyword=node.keyword, cls=type(node).__name__,
                constant=node.constant, defined=node.defined, units_raw=node.units_raw,
                value=show_value(node.value), text=str(node),
                options=repr(getattr(node, 'options', None)),
            ))
        data = env.data(verbose=True, format=Format.TYPE)
        return dict(ok=True, nodes=nodes, cursor=env.nodes.cursor,
                    data={k: show_value(v) for k, v in data.items()})
    except BaseException as e:
        return dict(ok=False, exc=type(e).__name__, args=[str(a) for a in e.args])

def direct_calls():
    """ Call the node / type methods directly, bypassing DIP.parse """
    out = {}
    def attempt(name, fn):
        try:
            out[name] = fn()
        except BaseException as e:
            out[name] = dict(exc=type(e).__name__, args=[str(a) for a in e.args])
    env = Environment()
    def mk(cls, **kw):
        kw.setdefault('code', 'x')
        kw.setdefault('name', 'x')
        if cls is FloatNode:
            kw.setdefault('dtype_prop', [None])
        elif cls is IntegerNode:
            kw.setdefault('dtype_prop', [False, None])
        return cls(**kw)
    def modify(first, second):
        first.set_value()
        second.set_value()
        first.modify_value(second, env)
        return dict(value=show_value(first.value), units_raw=first.units_raw,
                    other=show_value(second.value), other_units=second.units_raw)
    attempt('mv_float_unit', lambda: modify(
        mk(FloatNode, value_raw='2', units_raw='m'), mk(ModNode, value_raw='30', units_raw='cm')))
    attempt('mv_float_nounit', lambda: modify(
        mk(FloatNode, value_raw='2', units_raw='m'), mk(ModNode, value_raw='0')))
    attempt('mv_float_none', lambda: modify(
        mk(FloatNode, value_raw='2', units_raw='m'), mk(ModNode, value_raw='none', units_raw='cm')))
    attempt('mv_float_declared', lambda: modify(
        mk(FloatNode, units_raw='m', defined=True), mk(ModNode, value_raw='-3', units_raw='km')))
    attempt('mv_float_typed', lambda: modify(
        mk(FloatNode, value_raw='2', units_raw='m'), mk(FloatNode, value_raw='1', units_raw='km')))
    attempt('mv_float_int', lambda: modify(
        mk(FloatNode, value_raw='2', units_raw='m'), mk(IntegerNode, value_raw='1', units_raw='km')))
    attempt('mv_float_dim', lambda: modify(
        mk(FloatNode, value_raw='2', units_raw='m'), mk(ModNode, value_raw='1', units_raw='s')))
    attempt('mv_float_nodefunit', lambda: modify(
        mk(FloatNode, value_raw='2'), mk(ModNode, value_raw='1', units_raw='s')))
    attempt('mv_int_unit', lambda: modify(
        mk(IntegerNode, value_raw='2', units_raw='km'), mk(ModNode, value_raw='3000', units_raw='m')))
    attempt('mv_int_unsigned', lambda: modify(
        mk(IntegerNode, value_raw='2', units_raw='km', dtype_prop=[True, 16]), mk(ModNode, value_raw='0', units_raw='m')))
    attempt('mv_int_fraction', lambda: modify(
        mk(IntegerNode, value_raw='2', units_raw='km'), mk(ModNode, value_raw='1500', units_raw='m')))
    attempt('mv_bool_false', lambda: modify(
        mk(BooleanNode, value_raw='true'), mk(ModNode, value_raw='false')))
    attempt('mv_bool_none', lambda: modify(
        mk(BooleanNode, value_raw='true'), mk(ModNode, value_raw='none')))
    attempt('mv_bool_declared', lambda: modify(
        mk(BooleanNode, defined=True), mk(ModNode, value_raw='false')))
    attempt('mv_str', lambda: modify(
        mk(StringNode, value_raw='abc'), mk(ModNode, value_raw='')))
    attempt('mv_str_none', lambda: modify(
        mk(StringNode, value_raw='abc'), mk(ModNode, value_raw='none')))
    attempt('mv_str_bool', lambda: modify(
        mk(StringNode, value_raw='abc'), mk(BooleanNode, value_raw='true')))
    attempt('mv_array', lambda: modify(
        mk(FloatNode, value_raw='[1,2]', units_raw='m', dimension=[(2, 2)]),
        mk(ModNode, value_raw='[10,0]', units_raw='cm')))
    # set_value of the numeric siblings
    def setv(node, *args):
        node.set_value(*args)
        return show_value(node.value)
    attempt('sv_float_raw', lambda: setv(mk(FloatNode, value_raw='2.5', units_raw='m')))
    attempt('sv_float_zero', lambda: setv(mk(FloatNode, value_raw='2.5', units_raw='m'), 0.0))
    attempt('sv_float_arg', lambda: setv(mk(FloatNode, value_raw='2.5', units_raw='m', dtype_prop=[32]), -4.0))
    attempt('sv_float_decl', lambda: setv(mk(FloatNode, units_raw='m')))
    attempt('sv_float_empty', lambda: setv(mk(FloatNode, value_raw='', units_raw='m')))
    attempt('sv_float_none', lambda: setv(mk(FloatNode, value_raw='none', units_raw='m')))
    attempt('sv_float_type', lambda: setv(mk(FloatNode, value_raw='1', units_raw='m'), FloatType(3.0, 'km')))
    attempt('sv_int_raw', lambda: setv(mk(IntegerNode, value_raw='2', units_raw='m', dtype_prop=[True, 64])))
    attempt('sv_int_zero', lambda: setv(mk(IntegerNode, value_raw='2', units_raw='m'), 0))
    attempt('sv_int_decl', lambda: setv(mk(IntegerNode)))
    attempt('sv_int_bad', lambda: setv(mk(IntegerNode, value_raw='2.5')))
    attempt('sv_int_list', lambda: setv(mk(IntegerNode, value_raw='[1,2]', dimension=[(2, 2)])))
    # unit conversion of the number types
    def conv(v, unit, use_env=False):
        r = v.convert(unit, env) if use_env else v.convert(unit)
        return dict(same=r is v, value=show_value(v))
    attempt('cv_float', lambda: conv(FloatType(30.0, 'cm'), 'm'))
    attempt('cv_float_env', lambda: conv(FloatType(30.0, 'cm'), 'm', True))
    attempt('cv_float_same', lambda: conv(FloatType(30.0, 'cm'), 'cm', True))
    attempt('cv_float_nounit', lambda: conv(FloatType(30.0), 'cm', True))
    attempt('cv_float_tonone', lambda: conv(FloatType(30.0, 'cm'), None, True))
    attempt('cv_float_empty', lambda: conv(FloatType(30.0, 'cm'), '', True))
    attempt('cv_float_zero', lambda: conv(FloatType(0.0, 'cm'), 'km'))
    attempt('cv_int', lambda: conv(IntegerType(3000, 'm'), 'km', True))
    attempt('cv_int_neg', lambda: conv(IntegerType(-3, 'km'), 'm'))
    attempt('cv_dim', lambda: conv(FloatType(30.0, 'cm'), 's', True))
    attempt('cv_none', lambda: conv(FloatType(None, 'cm'), 'm', True))
    attempt('cv_array', lambda: conv(FloatType(np.array([1.0, 2.0]), 'm'), 'cm'))
    attempt('cv_ndarray', lambda: (lambda v: (setattr(v, 'value', np.array([1.0, 0.0])), conv(v, 'cm', True))[1])(FloatType(1.0, 'm')))
    attempt('cv_list', lambda: conv(FloatType([1.0, 2.0], 'm'), 'cm'))
    return out

result = dict(codes={k: run_code(v) for k, v in CODES.items()}, direct=direct_calls())
print("@@RESULT@@" + json.dumps(result, sort_keys=True, default=repr))
'''


def run(root):
    proc = subprocess.run([sys.executable, '-c', DRIVER, root],
                          capture_output=True, text=True, cwd='/tmp')
    if proc.returncode != 0:
        sys.stderr.write(proc.stderr)
        raise SystemExit(f"driver failed for {root}")
    line = [l for l in proc.stdout.splitlines() if l.startswith('@@RESULT@@')][-1]
    return json.loads(line[len('@@RESULT@@'):])


def main():
    base, refactored = sys.argv[1], sys.argv[2]
    a, b = run(base), run(refactored)
    bad = 0
    total = 0
    for section in ('codes', 'direct'):
        keys = sorted(set(a[section]) | set(b[section]))
        for k in keys:
            total += 1
            if a[section].get(k) != b[section].get(k):
                bad += 1
                print(f"DIFF {section}/{k}:\n  base: {a[section].get(k)}\n  new : {b[section].get(k)}")
    ok = sum(1 for v in a['codes'].values() if v['ok'])
    print(f"{total} inputs compared ({ok} parse successfully, {len(a['codes'])-ok} raise on the base tree); {bad} differences")
    sys.exit(1 if bad else 0)


if __name__ == '__main__':
    main()
