#!/usr/bin/env python
"""Differential check for property C20 (ParameterTable / RowCollector /
DataPlotGrid / DataCombination behave like their simple models).

usage: diff.py <unmodified tree root> <refactored tree root>
exit 0 iff all observable outputs are identical in both trees.
"""
import json
import os
import subprocess
import sys

DRIVER = r'''
import sys, os, json
root = sys.argv[1]
sys.path.insert(0, os.path.join(root, 'src'))
import numpy as np
import scinumtools
assert os.path.abspath(scinumtools.__file__).startswith(os.path.abspath(root) + os.sep), scinumtools.__file__
from scinumtools import ParameterTable, RowCollector, DataPlotGrid, DataCombination

def norm(x):
    """Turn results into plain JSON-able structures keeping type information."""
    if isinstance(x, np.ndarray):
        return ['ndarray', str(x.dtype), [norm(v) for v in x.tolist()]]
    if isinstance(x, np.generic):
        return [type(x).__name__, repr(x.item())]
    if isinstance(x, dict):
        return ['dict', [[norm(k), norm(v)] for k, v in x.items()]]
    if isinstance(x, (list, tuple)):
        return [type(x).__name__, [norm(v) for v in x]]
    if isinstance(x, (range,)):
        return ['range', list(x)]
    if hasattr(x, 'data') and hasattr(x, '_keys') and type(x).__name__ == 'ParameterSettings':
        return ['ParameterSettings', list(x.keys()), norm(x.data()), str(x)]
    if type(x).__name__ in ('dict_items', 'dict_keys', 'dict_values'):
        return [type(x).__name__, [norm(v) for v in x]]
    return [type(x).__name__, repr(x)]

results = []
def case(label, fn):
    try:
        out = ['ok', norm(fn())]
    except BaseException as e:
        out = ['raised', type(e).__name__, [repr(a) for a in e.args]]
    results.append([label, out])

# ---------------------------------------------------------------- tables
SET = ['dependent', 'lengths']

def pt_state(pt, keyed):
    st = {'len': len(pt), 'shape': pt.shape(), 'data': pt.data(),
          'items': list(pt.items()), 'text': pt.to_text()}
    if keyed:
        st['keys'] = list(pt.keys())
        st['str'] = str(pt)
        st['repr'] = repr(pt)
        st['bypos'] = [pt[i] for i in range(len(pt))]
        st['bykey'] = [pt[k] for k in pt.keys()]
        st['byattr'] = [getattr(pt, k) for k in pt.keys() if k.isidentifier()]
        st['contains'] = [k in pt for k in ['a', 'b', 'zz', 'c']]
    else:
        st['bypos'] = [pt[i] for i in range(len(pt))]
    return st

def t_keyed_ops():
    out = []
    pt = ParameterTable(SET, {'a': [True, 1], 'b': [False, 2]}, keys=True)
    out.append(pt_state(pt, True))
    pt['c'] = [True, 3]
    pt.append('d', [False, 4])
    out.append(pt_state(pt, True))
    pt['a'] = [False, 99]          # overwrite keeps position
    out.append(pt_state(pt, True))
    del pt['b']
    out.append(pt_state(pt, True))
    pt['b'] = [True, 5]            # re-insert goes to the end
    out.append(pt_state(pt, True))
    out.append([pt[0], pt[-1], pt[True], pt.a.lengths, pt['d']['dependent']])
    return out
case('keyed ops', t_keyed_ops)

def t_list_ops():
    out = []
    pt = ParameterTable(SET, [[True, 1], [False, 2], [True, 3]])
    out.append(pt_state(pt, False))
    pt.append([False, 4])
    del pt[1]
    out.append(pt_state(pt, False))
    out.append(pt[-1])
    out.append(pt[0:2])
    return out
case('list ops', t_list_ops)

def t_with():
    with ParameterTable(['x', 'y', 'z'], keys=True, keyname='name') as pt:
        pt['p'] = [1, 2, 3]
        pt['q'] = [4, 5, 6]
        out = [pt_state(pt, True), list(pt.to_dataframe().columns)]
        pt['s'] = [4, 5]           # short record
        pt['r'] = [6, 7, 8, 9]     # long record
        out += [list(pt.keys()), len(pt), pt.shape(), pt.data(), pt[2], pt.r, list(pt.items())]
        return out
case('with + keyname + ragged', t_with)

case('empty keyed', lambda: pt_state(ParameterTable(SET, keys=True), True))
case('empty list', lambda: pt_state(ParameterTable(SET), False))
case('empty params dict', lambda: pt_state(ParameterTable(SET, {}, keys=True), True))

# error behaviour
case('list setitem', lambda: ParameterTable(SET, [[1, 2]]).__setitem__(0, [3, 4]))
case('list getattr', lambda: ParameterTable(SET, [[1, 2]]).foo)
case('list contains', lambda: 0 in ParameterTable(SET, [[1, 2]]))
case('list keys', lambda: ParameterTable(SET, [[1, 2]]).keys())
case('list str', lambda: str(ParameterTable(SET, [[1, 2]])))
case('list index error', lambda: ParameterTable(SET, [[1, 2]])[5])
case('list del error', lambda: ParameterTable(SET, [[1, 2]]).__delitem__(5))
case('list get by str', lambda: ParameterTable(SET, [[1, 2]])['a'])
case('keyed missing key', lambda: ParameterTable(SET, {'a': [1, 2]}, keys=True)['zz'])
case('keyed missing attr', lambda: ParameterTable(SET, {'a': [1, 2]}, keys=True).zz)
case('keyed pos out of range', lambda: ParameterTable(SET, {'a': [1, 2]}, keys=True)[3])
def t_del_missing():
    pt = ParameterTable(SET, {'a': [1, 2]}, keys=True)
    try:
        del pt['zz']
    except BaseException as e:
        return [type(e).__name__, pt_state(pt, True)]
    return ['no error', pt_state(pt, True)]
case('keyed del missing', t_del_missing)
def t_del_int_key():
    pt = ParameterTable(SET, {'a': [1, 2], 'b': [3, 4]}, keys=True)
    try:
        del pt[0]
    except BaseException as e:
        return [type(e).__name__, pt_state(pt, True)]
    return ['no error', pt_state(pt, True)]
case('keyed del by position', t_del_int_key)
case('keyed append one arg', lambda: ParameterTable(SET, keys=True).append([1, 2]))
case('keyed append three args', lambda: ParameterTable(SET, keys=True).append('a', [1, 2], 3))
def t_bad_values():
    pt = ParameterTable(SET, keys=True)
    try:
        pt['a'] = 5
    except BaseException as e:
        return [type(e).__name__, list(pt.keys()), len(pt)]
    return ['no error']
case('keyed non-iterable values', t_bad_values)
case('keyed params given as list', lambda: ParameterTable(SET, [[1, 2]], keys=True))
case('list params given as dict', lambda: pt_state(ParameterTable(SET, {'ab': [1, 2]}), False))
def t_int_keys():
    pt = ParameterTable(SET, keys=True)
    pt[7] = [1, 2]
    pt['s'] = [3, 4]
    out = [list(pt.keys()), len(pt), pt.data()]
    try:
        out.append(pt[0])
    except BaseException as e:
        out.append(type(e).__name__)
    try:
        out.append(pt[7])
    except BaseException as e:
        out.append(type(e).__name__)
    return out
case('keyed int key', t_int_keys)
def t_eq():
    a = ParameterTable(SET, {'a': [1, 2]}, keys=True)
    b = ParameterTable(SET, {'a': [1, 2]}, keys=True)
    return [a == a, a == b, ParameterTable(SET) == ParameterTable(SET)]
case('dataclass eq', t_eq)

# ---------------------------------------------------------------- row collector
def rc_state(rc):
    return {'len': len(rc), 'size': rc.size(), 'shape': rc.shape(), 'dict': rc.to_dict(),
            'cols': list(rc._columns), 'text': rc.to_text(), 'str': str(rc)}

def t_rc_lists():
    out = []
    with RowCollector(['c1', 'c2', 'c3']) as rc:
        rc.append([3, 'x', 1.5])
        rc.append({'c3': 0.5, 'c1': 1, 'c2': 'y'})
        rc.append([2, 'z', 2.5])
        rc.append([2, 'w', -1.0])
        out.append(rc_state(rc))
        rc.sort('c1')
        out.append(rc_state(rc))
        rc.sort('c3', reverse=True)
        out.append(rc_state(rc))
        rc.sort('c2')
        out.append(rc_state(rc))
        out.append([rc['c1'], rc.c2])
        out.append(rc.to_dataframe(['c1', 'c3']).to_string())
        out.append(rc.to_dataframe({'c2': 'Second', 'c1': 'First'}).to_string())
    return out
case('rc list mode', t_rc_lists)

def t_rc_arrays():
    out = []
    rc = RowCollector(['a', 'b'], rows=[[3, 1.0], [1, 2.0], [2, 0.0]], array=True)
    out.append(rc_state(rc))
    rc.append({'b': 7.5, 'a': 0})
    rc.sort('a')
    out.append(rc_state(rc))
    rc.sort('b', reverse=True)
    out.append(rc_state(rc))
    return out
case('rc array mode', t_rc_arrays)

def t_rc_array_dtypes():
    rc = RowCollector({'i': {'dtype': int}, 's': {'dtype': str}, 'f': {'dtype': float}}, array=True)
    rc.append([3, 'cc', 0.25])
    rc.append([1, 'a', 4])
    rc.append({'s': 'bbb', 'f': 1, 'i': 2})
    st = [rc_state(rc)]
    rc.sort('s')
    st.append(rc_state(rc))
    rc.sort('i', reverse=True)
    st.append(rc_state(rc))
    return st
case('rc array dtypes', t_rc_array_dtypes)

def t_rc_autocolumns():
    rc = RowCollector()
    st = [rc_state(rc) if False else [len(rc), rc.size(), rc.shape(), rc.to_dict()]]
    rc.append({'q': 1, 'p': 2})
    rc.append({'p': 4, 'q': 3})
    st.append(rc_state(rc))
    rc.sort('p', reverse=True)
    st.append(rc_state(rc))
    return st
case('rc auto columns from dict', t_rc_autocolumns)

def t_rc_autocolumns_array():
    rc = RowCollector(array=True)
    rc.append({'q': 1, 'p': 2.5})
    rc.append({'p': 4, 'q': 3})
    return rc_state(rc)
case('rc auto columns array', t_rc_autocolumns_array)

case('rc missing column', lambda: RowCollector(['a', 'b']).append({'a': 1, 'b': 2, 'c': 3}))
case('rc dict lacks column', lambda: RowCollector(['a', 'b']).append({'a': 1}))
def t_rc_short():
    rc = RowCollector(['a', 'b', 'c'])
    try:
        rc.append([1, 2])
    except BaseException as e:
        return [type(e).__name__, rc.to_dict()]
    return ['no error', rc.to_dict()]
case('rc short row', t_rc_short)
case('rc long row', lambda: (lambda rc: (rc.append([1, 2, 3]), rc.to_dict())[1])(RowCollector(['a', 'b'])))
case('rc sort unknown', lambda: RowCollector(['a'], rows=[[1]]).sort('zz'))
case('rc getitem unknown', lambda: RowCollector(['a'])['zz'])
case('rc getitem int', lambda: RowCollector(['a'])[0])
case('rc empty sort', lambda: (lambda rc: (rc.sort('a'), rc_state(rc))[1])(RowCollector(['a', 'b'])))
def t_rc_stable():
    rc = RowCollector(['k', 'v'], rows=[[1, i] for i in range(6)] + [[0, 9]])
    rc.sort('k')
    a = rc.to_dict()
    rc.sort('k', reverse=True)
    return [a, rc.to_dict()]
case('rc ties', t_rc_stable)
def t_rc_files():
    import tempfile
    rc = RowCollector(['a', 'b'], rows=[[2, 'x'], [1, 'y']])
    d = tempfile.mkdtemp()
    f1, f2 = os.path.join(d, 'o.csv'), os.path.join(d, 'o.txt')
    rc.to_csv(f1, index=False)
    rc.to_file(f2, index=False)
    return [open(f1).read(), open(f2).read()]
case('rc files', t_rc_files)

# ---------------------------------------------------------------- plot grid
def t_grid(data, ncols, **kw):
    def run():
        g = DataPlotGrid(data, ncols, **kw)
        out = [g.ndata, g.ncols, g.nrows, g.figsize]
        for tr in (False, True):
            out.append(list(g.items(transpose=tr)))
            out.append(list(g.items(missing=True, transpose=tr)))
            out.append(list(g.items(missing=False, transpose=tr)))
        out.append(list(g.items()))
        out.append(list(g.items(True)))
        return out
    return run
for n in (0, 1, 2, 3, 5, 6, 7, 12, 13):
    for nc in (1, 2, 3, 4, 5):
        case('grid list n=%d nc=%d' % (n, nc), t_grid(['d%d' % i for i in range(n)], nc))
case('grid dict', t_grid({'a': 1, 'b': 2, 'c': 3, 'd': 4, 'e': 5}, 3, axsize=(5, 3)))
case('grid dict 2', t_grid({k: k * 2 for k in range(11)}, 4))
case('grid tuple data', t_grid(('a', 'b', 'c'), 2))
case('grid tuple data missing only', lambda: list(DataPlotGrid(('a', 'b', 'c'), 2).items(missing=True)))
case('grid str data', t_grid('abc', 2))
case('grid zero cols', t_grid([1, 2], 0))
case('grid big', lambda: [list(DataPlotGrid(list(range(101)), 7).items(transpose=t, missing=m))
                          for t in (False, True) for m in (False, True)])

# ---------------------------------------------------------------- combinations
def t_comb(items):
    def run():
        c = DataCombination(items)
        return [list(c.keys()), list(c.values()), list(c.items())]
    return run
case('comb 2x3', t_comb([['a', 'b'], [1, 2, 3]]))
case('comb 3 lists', t_comb([['a', 'b', 'c'], [1, 2], [None, 3.5]]))
case('comb single', t_comb([[1, 2, 3]]))
case('comb none', t_comb([]))
case('comb with empty', t_comb([[1, 2], [], [3]]))
case('comb strings', t_comb(['ab', 'cd']))
case('comb tuples', t_comb([(1, 2), ('x',), (True, False)]))
case('comb nested', t_comb([[[1, 2], [3]], [{'a': 1}, 'z']]))
case('comb duplicates', t_comb([[1, 1], [2, 2]]))
case('comb bad item', t_comb([[1, 2], 5]))
def t_comb_lazy():
    c = DataCombination([[1, 2], [3, 4]])
    k, v, i = c.keys(), c.values(), c.items()
    return [type(k).__name__, type(v).__name__, type(i).__name__, next(k), next(v), next(i), next(i)]
case('comb generators', t_comb_lazy)

print(json.dumps(results, sort_keys=True))
'''


def run(root):
    root = os.path.abspath(root)
    env = dict(os.environ)
    env.pop('PYTHONPATH', None)
    env['PYTHONDONTWRITEBYTECODE'] = '1'
    env['PYTHONHASHSEED'] = '0'
    proc = subprocess.run([sys.executable, '-c', DRIVER, root], capture_output=True,
                          text=True, env=env, cwd='/')
    if proc.returncode != 0:
        sys.stderr.write('driver failed for %s\n%s\n' % (root, proc.stderr))
        sys.exit(2)
    return json.loads(proc.stdout)


def main():
    if len(sys.argv) != 3:
        sys.stderr.write(__doc__)
        sys.exit(2)
    a = run(sys.argv[1])
    b = run(sys.argv[2])
    bad = 0
    if len(a) != len(b):
        print('different number of cases: %d vs %d' % (len(a), len(b)))
        bad += 1
    for (la, oa), (lb, ob) in zip(a, b):
        if la != lb or oa != ob:
            bad += 1
            print('DIFF in case %r:\n  base: %s\n  new : %s' % (la, json.dumps(oa)[:600], json.dumps(ob)[:600]))
    print('%d cases compared, %d differ' % (len(a), bad))
    sys.exit(1 if bad else 0)


if __name__ == '__main__':
    main()
