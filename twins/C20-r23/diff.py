#!/usr/bin/env python
"""Differential check: run the same inputs against two source trees and compare output.
usage: diff.py <clean tree root> <changed tree root>; exit 0 when identical, 1 otherwise."""
import os, subprocess, sys

DRIVER = r'''
import sys
sys.path.insert(0, sys.argv[1])
import numpy as np
from scinumtools.row_collector import RowCollector
from scinumtools.parameter_table import ParameterTable
from scinumtools.data_plot_grid import DataPlotGrid

def show(v):
    if isinstance(v, np.ndarray):
        return "ndarray(%r,%s)" % (v.tolist(), v.dtype)
    if isinstance(v, dict):
        return "{" + ", ".join("%r: %s" % (k, show(x)) for k, x in v.items()) + "}"
    if isinstance(v, (list, tuple)):
        return type(v).__name__ + "[" + ", ".join(show(x) for x in v) + "]"
    return "%s:%r" % (type(v).__name__, v)

def run(label, fn):
    try:
        out = fn()
        print(label, "OK", show(out))
    except BaseException as e:
        print(label, "EXC", type(e).__name__, repr(e.args))

def rc_state(rc):
    return (list(rc._columns), rc._array, rc.to_dict(), rc.shape(), len(rc))

# ---------------- RowCollector.__init__ / append
def rc_case(columns, rows, array=False, extra=()):
    def f():
        rc = RowCollector(columns, rows, array) if columns is not None else RowCollector(rows=rows, array=array)
        for e in extra:
            rc.append(e)
        return rc_state(rc)
    return f

run("rc01", rc_case(['a','b','c'], [[1,2,3],[4,5,6]]))
run("rc02", rc_case(['a','b'], None))
run("rc03", rc_case(['a','b'], []))
run("rc04", rc_case(['a','b'], [{'a':1,'b':2},{'b':4,'a':3}]))
run("rc05", rc_case(['a','b'], [[1,2]], extra=[{'a':5,'b':6,'c':7}]))
run("rc06", rc_case(None, None, extra=[{'x':1,'y':'s'},{'y':'t','x':2}]))
run("rc07", rc_case([], [{'x':1.5,'y':None}]))
run("rc08", rc_case(['a','b'], [[1]]))
run("rc09", rc_case(['a','b'], [{'a':1}]))
run("rc10", rc_case(['a','b'], 5))
run("rc11", rc_case(['a','b'], np.array([[1,2],[3,4]])))
run("rc12", rc_case(['a','b'], np.array([[1,2]])))
run("rc13", rc_case(['a','b'], ((1,2),(3,4))))
run("rc14", rc_case({'a':{'dtype':int},'b':{'dtype':float}}, [[1,2],[3,4.5]], True))
run("rc15", rc_case(['a','b'], [[1,2],{'a':3,'b':4}], True))
run("rc16", rc_case({'a':{'dtype':int}}, [['x']], True))
run("rc17", rc_case(['a','b'], [[1,2]], True, extra=[{'a':1,'zz':2}]))
run("rc18", rc_case(None, None, True, extra=[{'x':1,'y':2}]))
run("rc19", rc_case(['a','b'], [[3,'c'],[1,'a'],[2,'b']], extra=[[0,'z',99]]))
run("rc20", rc_case(['a'], 'xy'))
run("rc21", rc_case(['a','b'], [[1,2]], extra=[{}]))
run("rc22", rc_case(['a','b'], iter([[1,2],[3,4]])))
def rc_sort():
    rc = RowCollector(['a','b'], [[3,'c'],[1,'a'],[2,'b']])
    rc.sort('a'); s1 = rc_state(rc)
    rc.sort('a', reverse=True)
    return (s1, rc_state(rc), str(rc))
run("rc23", rc_sort)
def rc_partial():
    rc = RowCollector(['a','b'])
    try:
        rc.append([1])
    except IndexError as e:
        pass
    return rc_state(rc)
run("rc24", rc_partial)
def rc_default_shared():
    r1 = RowCollector(); r1.append({'p':1})
    r2 = RowCollector(); r2.append({'q':2})
    return (rc_state(r1), rc_state(r2))
run("rc25", rc_default_shared)

# ---------------- ParameterTable.__getitem__ / __getattr__
def keyed():
    return ParameterTable(['x','y'], {'a':[1,2],'b':[3,4],'c':[5,6]}, keys=True)
def unkeyed():
    return ParameterTable(['x','y'], [[1,2],[3,4],[5,6]])
def rec(r):
    return (type(r).__name__, r.data() if hasattr(r, 'data') else r)

for n, k in enumerate([0, 1, -1, 2, 3, -4, 'a', 'c', 'zz', True, False, 1.0, None, (0,), slice(0,2)]):
    run("pk%02d" % n, lambda k=k: rec(keyed()[k]))
    run("pu%02d" % n, lambda k=k: (lambda r: [rec(x) for x in r] if isinstance(r, list) else rec(r))(unkeyed()[k]))
run("pk_list", lambda: rec(keyed()[[0]]))
run("pk_npint", lambda: rec(keyed()[np.int64(1)]))
for n, name in enumerate(['a', 'b', 'zz', 'x', '__nope__', '_private']):
    run("pa%02d" % n, lambda name=name: rec(getattr(keyed(), name)))
    run("pb%02d" % n, lambda name=name: rec(getattr(unkeyed(), name)))
run("pa_has", lambda: (hasattr(keyed(), 'a'),))
run("pa_has2", lambda: (hasattr(keyed(), 'nokey'),))
run("pb_has", lambda: (hasattr(unkeyed(), 'a'),))
def pt_seq():
    pt = keyed()
    pt['d'] = [7,8]
    pt['a'] = [9,10]
    del pt['b']
    return (pt.keys(), len(pt), rec(pt[0]), rec(pt[1]), rec(pt[-1]), rec(pt.d), rec(pt['a']), pt.a.x, pt[2]['y'], pt.data(), str(pt))
run("pseq", pt_seq)
def pt_intkey():
    pt = ParameterTable(['x'], {1:[10], 0:[20]}, keys=True)
    return (rec(pt[0]), rec(pt[1]))
run("pint", pt_intkey)
def pt_empty():
    pt = ParameterTable(['x'], keys=True)
    return rec(pt[0])
run("pempty", pt_empty)
run("pempty2", lambda: rec(ParameterTable(['x'], keys=True).q))
run("pempty3", lambda: rec(ParameterTable(['x'])[0]))

# ---------------- DataPlotGrid.items
class L(list): pass
datas = [
    ("l5", list('abcde')), ("l0", []), ("l1", ['q']), ("l6", [1,2.5,None,'s',(1,),[2]]),
    ("d3", {'a':1,'b':2,'c':3}), ("d0", {}), ("d7", {i: str(i) for i in range(7)}),
    ("t3", (1,2,3)), ("s3", "abc"), ("sub", L([1,2,3,4])), ("np", np.arange(5)), ("set", {1,2}),
]
for name, d in datas:
    for ncols in (1, 2, 3, 4):
        for missing in (None, False, True, 0, 1):
            for transpose in (False, True, 0, 'yes'):
                def f(d=d, ncols=ncols, missing=missing, transpose=transpose):
                    g = DataPlotGrid(d, ncols=ncols)
                    it = g.items(missing=missing, transpose=transpose)
                    return (type(it).__name__, g.nrows, g.figsize, list(it))
                run("g_%s_%s_%r_%r" % (name, ncols, missing, transpose), f)
def g_lazy():
    g = DataPlotGrid((1,2,3))
    it = g.items()          # must not raise before iteration starts
    try:
        next(it)
    except Exception as e:
        return ("raised-on-next", type(e).__name__, repr(e.args))
    return ("no-raise",)
run("g_lazy", g_lazy)
def g_partial():
    g = DataPlotGrid(list('abcdefg'), ncols=3)
    it = g.items(transpose=True)
    first = next(it)
    g.ncols = 2; g.nrows = 4     # attribute reads happen per iteration
    return (first, list(it))
run("g_partial", g_partial)
def g_kw():
    g = DataPlotGrid({'a':1,'b':2,'c':3}, 2, (3,1))
    return (list(g.items(True, True)), list(g.items(None, True)), list(g.items(transpose=False, missing=True)))
run("g_kw", g_kw)
run("g_zero", lambda: list(DataPlotGrid([1,2], ncols=0).items()))
run("g_float", lambda: list(DataPlotGrid([1,2,3], ncols=2.0).items(missing=True)))
run("g_float2", lambda: list(DataPlotGrid([1,2,3], ncols=2.0).items()))
'''

def run(root):
    src = os.path.join(os.path.abspath(root), 'src')
    env = dict(os.environ, PYTHONDONTWRITEBYTECODE='1', PYTHONHASHSEED='0')
    env.pop('PYTHONPATH', None)
    p = subprocess.run([sys.executable, '-c', DRIVER, src], capture_output=True, text=True, env=env, cwd='/tmp')
    return p.stdout, p.returncode, p.stderr

def main():
    a = run(sys.argv[1]); b = run(sys.argv[2])
    if a[1] != 0 or b[1] != 0:
        print("driver crashed:", a[1], a[2][-2000:], b[1], b[2][-2000:]); return 1
    la, lb = a[0].splitlines(), b[0].splitlines()
    if len(la) < 12:
        print("too few cases"); return 1
    bad = [(x, y) for x, y in zip(la, lb) if x != y]
    if bad or len(la) != len(lb):
        for x, y in bad[:20]:
            print("DIFF\n  clean:  ", x, "\n  changed:", y)
        print("lines", len(la), len(lb)); return 1
    print("identical: %d cases (%d OK, %d EXC)" % (len(la), sum(' OK ' in l for l in la), sum(' EXC ' in l for l in la)))
    return 0

if __name__ == '__main__':
    sys.exit(main())
