#!/venv/bin/python
"""Differential check for property C14 (the last assignment wins, in the units
and type of the definition).

usage: diff.py <unmodified tree root> <refactored tree root>

Every input below is parsed by each tree in its own subprocess (own sys.path).
The observable outcome of an input is either the list of
(name, node class, keyword, value type, value, unit, constant) of every node of
the returned environment, or the type and first argument of the raised
exception.  Exit code 0 iff the outcomes of all inputs are identical.
"""
import json
import subprocess
import sys

WORKER = r'''
import sys, json
root = sys.argv[1]
sys.path.insert(0, root + '/src')
import numpy as np
from scinumtools.dip import DIP
from scinumtools.dip.datatypes import Type
import scinumtools
assert scinumtools.__file__.startswith(root), scinumtools.__file__

CASES = json.loads(sys.stdin.read())

def plain(v):
    if isinstance(v, np.ndarray):
        return v.tolist()
    if isinstance(v, (np.generic,)):
        return v.item()
    return v

def describe(env):
    out = []
    for node in env.nodes:
        val = node.value
        if isinstance(val, Type):
            out.append([node.name, type(node).__name__, node.keyword, type(val).__name__,
                        repr(plain(val.value)), type(plain(val.value)).__name__,
                        val.unit, node.units_raw, bool(node.constant),
                        getattr(val, 'precision', None), getattr(val, 'unsigned', None)])
        else:
            out.append([node.name, type(node).__name__, node.keyword, None,
                        repr(plain(val)), type(val).__name__, None, node.units_raw,
                        bool(node.constant)])
    return out

results = {}
for label, blocks in CASES:
    try:
        with DIP() as dip:
            for block in blocks:
                dip.add_string(block)
            env = dip.parse()
        results[label] = ['ok', describe(env)]
    except BaseException as e:
        first = e.args[0] if e.args else None
        results[label] = ['raise', type(e).__name__, first if isinstance(first, str) else repr(first)]
print(json.dumps(results, sort_keys=True))
'''

CASES = [
    # unit conversion into the definition's unit
    ["float_same_dim", ["a float = 1 m\na = 25 cm\n"]],
    ["float_two_mods", ["a float = 1 m\na = 25 cm\na = 3 km\n"]],
    ["float_no_unit_mod", ["a float = 1 m\na = 7\n"]],
    ["float_typed_mod", ["a float = 1 m\na float = 120 mm\n"]],
    ["int_same_dim", ["n int = 2 km\nn = 3000 m\n"]],
    ["int_typed_mod", ["n int = 2 km\nn int = 5000 m\n"]],
    ["int_no_unit", ["n int = 2\nn = 40\nn = 41\n"]],
    # zero, negative, false, none
    ["float_zero", ["a float = 1 m\na = 0 cm\n"]],
    ["float_zero_nounit", ["a float = 1.5 m\na = 0\n"]],
    ["float_negative", ["a float = 1 m\na = -250 cm\n"]],
    ["int_zero", ["n int = 5 s\nn = 0\n"]],
    ["int_negative", ["n int = 5 s\nn = -2 min\n"]],
    ["bool_false", ["b bool = true\nb = false\n"]],
    ["bool_true_again", ["b bool = false\nb = true\nb = false\nb = true\n"]],
    ["float_none", ["a float = 1 m\na = none\n"]],
    ["float_none_unit", ["a float = 1 m\na = none cm\n"]],
    ["int_none_then_value", ["n int = 1 m\nn = none\nn = 300 cm\n"]],
    ["bool_none", ["b bool = true\nb = none\n"]],
    ["str_none", ["s str = 'x'\ns = none\n"]],
    ["str_mod", ["s str = 'x'\ns = 'y'\ns = \"zz\"\n"]],
    ["str_empty", ["s str = 'x'\ns = ''\n"]],
    ["def_none_then_value", ["a float = none m\na = 20 cm\n"]],
    ["def_zero_then_value", ["a float = 0 m\na = 20 cm\n"]],
    ["def_false_then_none", ["b bool = false\nb = none\nb = false\n"]],
    # declarations
    ["decl_then_mod", ["a float m\na = 20 cm\n"]],
    ["decl_then_typed", ["a float m\na float = 20 cm\n"]],
    ["decl_then_zero", ["n int s\nn = 0\n"]],
    ["decl_then_false", ["b bool\nb = false\n"]],
    ["decl_then_none", ["a float m\na = none\n"]],
    ["decl_no_value", ["a float m\n"]],
    ["decl_no_value_among", ["x int = 1\na float m\ny int = 2\n"]],
    ["decl_str_then_mod", ["s str\ns = 'abc'\n"]],
    ["decl_str_no_value", ["s str\n"]],
    # failures
    ["dtype_change_int_float", ["n int = 1\nn float = 2.0\n"]],
    ["dtype_change_float_int", ["a float = 1 m\na int = 2 m\n"]],
    ["dtype_change_bool_str", ["b bool = true\nb str = 'true'\n"]],
    ["dtype_change_str_int", ["s str = 'a'\ns int = 1\n"]],
    ["other_dimension", ["a float = 1 m\na = 2 s\n"]],
    ["other_dimension_int", ["n int = 1 kg\nn int = 2 m\n"]],
    ["unit_on_unitless", ["a float = 1\na = 2 s\n"]],
    ["constant_mod", ["a float = 1 m\n  !constant\na = 2 m\n"]],
    ["constant_typed_mod", ["n int = 1\n  !constant\nn int = 2\n"]],
    ["constant_same_value", ["b bool = true\n  !constant\nb = true\n"]],
    ["constant_other_node", ["a float = 1 m\n  !constant\nc float = 2 m\nc = 3 cm\n"]],
    ["undefined_mod", ["a = 3\n"]],
    ["bad_value_int", ["n int = 1\nn = abc\n"]],
    ["bad_value_bool", ["b bool = true\nb = 3\n"]],
    # hierarchy
    ["hier_mod", ["box\n  size float = 1 m\nbox.size = 30 cm\n"]],
    ["hier_nested", ["a\n  b\n    c int = 1 min\na.b.c = 120 s\n"]],
    ["hier_typed", ["box\n  size float = 1 m\nbox\n  size float = 4 km\n"]],
    ["hier_constant", ["box\n  size float = 1 m\n    !constant\nbox.size = 4 km\n"]],
    ["hier_dtype", ["box\n  n int = 1\nbox.n str = 'a'\n"]],
    ["hier_decl", ["box\n  size float m\nbox.size = 4 km\n"]],
    ["hier_decl_missing", ["box\n  size float m\nother int = 1\n"]],
    ["hier_same_leaf_other_parent", ["p\n  v int = 1 m\nq\n  v int = 2 s\nq.v = 1 min\n"]],
    # several code blocks
    ["two_blocks", ["a float = 1 m\n", "a = 5 cm\n"]],
    ["two_blocks_typed", ["n int = 1 km\n", "n int = 2500 m\n", "n = 7\n"]],
    # arrays, cases, properties after modification, references
    ["array_mod", ["v float[3] = [1,2,3] m\nv = [10,20,30] cm\n"]],
    ["array_int_mod", ["v int[2] = [1,2] km\nv = [3000,4000] m\n"]],
    ["array_none", ["v float[2] = [1,2] m\nv = none\n"]],
    ["case_mod", ["a float = 1 m\n@case true\n  a = 3 cm\n@else\n  a = 4 cm\n@end\n"]],
    ["case_false_mod", ["a float = 1 m\n@case false\n  a = 3 cm\n@else\n  a = 4 km\n@end\n"]],
    ["options_after_mod", ["n int = 1\n  = 1\n  = 2\nn = 2\n"]],
    ["options_violated", ["n int = 1\n  = 1\n  = 2\nn = 3\n"]],
    ["condition_after_mod", ["a float = 1 m\n  !condition (\"{?} > 10 cm\")\na = 5 cm\n"]],
    ["reference_mod", ["x float = 3 cm\na float = 1 m\na = {?x}\n"]],
    ["expression_mod", ["a float = 1 m\na = (\"2*3\") cm\n"]],
    ["format_after_mod", ["s str = 'ab'\n  !format '[a-z]+'\ns = 'A1'\n"]],
    ["precision_kept", ["a float32 = 1 m\na = 50 cm\nn uint16 = 1 km\nn = 2000 m\n"]],
]


def run(root):
    proc = subprocess.run([sys.executable, '-c', WORKER, root], input=json.dumps(CASES),
                          capture_output=True, text=True)
    if proc.returncode != 0:
        sys.stderr.write(proc.stderr)
        raise SystemExit(2)
    return json.loads(proc.stdout.strip().splitlines()[-1])


def main():
    base, other = sys.argv[1].rstrip('/'), sys.argv[2].rstrip('/')
    a, b = run(base), run(other)
    bad = 0
    for label, _ in CASES:
        if a[label] != b[label]:
            bad += 1
            print("DIFF", label, "\n  base:", a[label], "\n  new :", b[label])
    if '-v' in sys.argv:
        for label, _ in CASES:
            print(label, a[label])
    print(f"{len(CASES)} inputs, {bad} differing")
    sys.exit(1 if bad else 0)


if __name__ == '__main__':
    main()
