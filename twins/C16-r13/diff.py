#!/venv/bin/python
"""Differential check for property C16 (parse() returns only environments that
satisfy every declared constraint).

usage: diff.py <unmodified tree root> <refactored tree root>
Runs the same inputs against both trees (each in its own subprocess with its
own sys.path) and exits 0 iff every observable output is identical.
"""
import sys, os, json, subprocess

CASES = [
    # ---- options, per-line form
    ("opt_line_hit",      "coordinates int = 1\n  = 1  # linear\n  = 2  # cyl\n  = 3\n"),
    ("opt_line_last",     "coordinates int = 3\n  = 1\n  = 2\n  = 3\n"),
    ("opt_line_miss",     "coordinates int = 4\n  = 1\n  = 2\n  = 3\n"),
    ("opt_line_mod_hit",  "coordinates int = 1\n  = 1\n  = 2\ncoordinates = 2\n"),
    ("opt_line_mod_miss", "coordinates int = 1\n  = 1\n  = 2\ncoordinates = 5\n"),
    ("opt_decl_nodef",    "length float cm\n  = 12 cm\n  = 34 cm\n"),
    ("opt_bool",          "deposition bool = true\n  = true\n  = false\n"),
    # ---- options, list form, with units
    ("opt_list_units_hit",  "size float cm\n  !options [12,13,14,15,16] cm\n  !options [22,23,24,25] m\nsize = 23 m\n"),
    ("opt_list_units_hit2", "size float cm\n  !options [12,13,14,15,16] cm\nsize = 0.16 m\n"),
    ("opt_list_units_miss", "size float cm\n  !options [12,13,14,15,16] cm\nsize = 11\n"),
    ("opt_list_units_near", "size float cm\n  !options [12,13,14,15,16] cm\nsize = 12.0001\n"),
    ("opt_list_units_tol",  "size float cm\n  !options [12,13,14,15,16] cm\nsize = 12.0000000000001\n"),
    ("opt_list_wrong_unit", "size float cm\n  !options [12,13] cm\nsize = 12 m\n"),
    ("opt_list_int_unit",   "n int m\n  !options [1,2,3] km\nn = 2000\n"),
    ("opt_list_int_unit_miss", "n int m\n  !options [1,2,3] km\nn = 2\n"),
    ("opt_str_hit",       "geom str = 'sph'\n  = 'lin'\n  = 'cyl'\n  = 'sph'\n"),
    ("opt_str_miss",      "geom str = 'box'\n  = 'lin'\n  = 'cyl'\n"),
    ("opt_str_list_hit",  "geom str = 'cyl'\n  !options [\"lin\",\"cyl\"]\n"),
    ("opt_str_list_miss", "geom str = 'Cyl'\n  !options [\"lin\",\"cyl\"]\n"),
    ("opt_mixed_forms",   "size float = 2 m\n  = 1 m\n  !options [200,300] cm\n"),
    # ---- conditions
    ("cond_true",         "size float = 23 cm\n  !condition ('200 mm < {?} && {?} < 30 cm')\n"),
    ("cond_false",        "size float = 23 cm\n  !condition ('250 mm < {?} && {?} < 30 cm')\n"),
    ("cond_boundary_le",  "size float = 30 cm\n  !condition ('{?} <= 300 mm')\n"),
    ("cond_boundary_lt",  "size float = 30 cm\n  !condition ('{?} < 300 mm')\n"),
    ("cond_boundary_ge",  "n int = 5\n  !condition ('{?} >= 5')\n"),
    ("cond_boundary_gt",  "n int = 5\n  !condition ('{?} > 5')\n"),
    ("cond_eq",           "n int = 5\n  !condition ('{?} == 5')\n"),
    ("cond_ne",           "n int = 5\n  !condition ('{?} != 5')\n"),
    ("cond_mod_final",    "n int = 5\n  !condition ('{?} < 10')\nn = 12\n"),
    ("cond_mod_final_ok", "n int = 50\n  !condition ('{?} < 10')\nn = 2\n"),
    ("cond_bool_true",    "flag bool = true\n  !condition ('{?} == true')\n"),
    ("cond_bool_false",   "flag bool = false\n  !condition ('{?} == true')\n"),
    ("cond_bool_not",     "flag bool = false\n  !condition ('~{?}')\n"),
    ("cond_str_true",     "name str = 'abc'\n  !condition ('{?} == \"abc\"')\n"),
    ("cond_str_false",    "name str = 'abd'\n  !condition ('{?} == \"abc\"')\n"),
    ("cond_ref_other",    "lim int = 7\nn int = 8\n  !condition ('{?} <= {?lim}')\n"),
    ("cond_ref_other_ok", "lim int = 9\nn int = 8\n  !condition ('{?} <= {?lim}')\n"),
    ("cond_or",           "n int = 8\n  !condition ('{?} < 3 || {?} > 7')\n"),
    ("cond_two_nodes",    "a int = 1\n  !condition ('{?} == 1')\nb int = 2\n  !condition ('{?} == 3')\n"),
    # ---- formats
    ("fmt_ok",            "name str = John\n  !format \"[a-zA-Z]+\"\n"),
    ("fmt_bad",           "name str = 7-up\n  !format '[a-zA-Z]+'\n"),
    ("fmt_anchored_ok",   "name str = John\n  !format '^[a-zA-Z]+$'\n"),
    ("fmt_anchored_bad",  "name str = John7\n  !format '^[a-zA-Z]+$'\n"),
    ("fmt_prefix_only",   "name str = John7\n  !format '[a-zA-Z]+'\n"),
    ("fmt_mod_bad",       "name str = John\n  !format '^[a-zA-Z]+$'\nname = 'R2D2'\n"),
    ("fmt_on_float",      "size float = 23 cm\n  !format '[a-zA-Z]+'\n"),
    ("fmt_and_opts",      "name str = 'ab'\n  !format '^[a-z]+$'\n  = 'ab'\n  = 'cd'\n"),
    ("fmt_and_opts_miss", "name str = 'ef'\n  !format '^[a-z]+$'\n  = 'ab'\n  = 'cd'\n"),
    # ---- dimensions
    ("dim_exact_ok",      "a int[3] = [1,2,3]\n"),
    ("dim_exact_short",   "a int[3] = [1,2]\n"),
    ("dim_exact_long",    "a int[3] = [1,2,3,4]\n"),
    ("dim_min_ok",        "a float[2:] = [1,2]\n"),
    ("dim_min_bad",       "a float[2:] = [1]\n"),
    ("dim_max_ok",        "a float[:2] = [1,2] cm\n"),
    ("dim_max_bad",       "a float[:2] = [1,2,3] cm\n"),
    ("dim_range_lo",      "a int[2:4] = [1]\n"),
    ("dim_range_in",      "a int[2:4] = [1,2,3,4]\n"),
    ("dim_range_hi",      "a int[2:4] = [1,2,3,4,5]\n"),
    ("dim_2d_ok",         "a int[2,3] = [[1,2,3],[4,5,6]]\n"),
    ("dim_2d_bad2",       "a int[2,3] = [[1,2],[4,5]]\n"),
    ("dim_2d_free",       "a int[:,2:] = [[1,2],[4,5],[7,8]]\n"),
    ("dim_2d_free_bad",   "a int[:,2:] = [[1],[4],[7]]\n"),
    ("dim_str_ok",        "s str[2] = [\"a\",\"b\"]\n"),
    ("dim_str_bad",       "s str[2] = [\"a\",\"b\",\"c\"]\n"),
    ("dim_bool_bad",      "b bool[1:2] = [true,false,true]\n"),
    ("dim_mod_bad",       "a int[2] = [1,2]\na = [1,2,3]\n"),
    ("dim_mod_ok",        "a int[2] = [1,2]\na = [3,4]\n"),
    ("dim_scalar_array",  "a int = [1,2]\n"),
    ("dim_with_cond",     "a int[2] = [1,2]\nn int = 2\n  !condition ('{?} == 2')\n"),
    ("dim_bad_syntax3",   "a int[1:2:3] = [1]\n"),
    ("dim_bad_syntax_e",  "a int[,] = [1]\n"),
    ("dim_bad_syntax_c",  "a int[2,] = [1,2]\n"),
    ("dim_open_both",     "a int[:] = [1,2,3,4,5,6,7]\n"),
    ("dim_zero",          "a int[0:1] = []\n"),
    ("dim_slice_ref",     "a int[3] = [1,2,3]\nb int = {?a}[1]\n  !condition ('{?} == 2')\n"),
    ("dim_slice_ref_bad", "a int[3] = [1,2,3]\nb int = {?a}[2]\n  !condition ('{?} == 2')\n"),
    ("dim_slice_range",   "a int[3] = [1,2,3]\nb int[2] = {?a}[1:]\n"),
    ("dim_slice_range_bad", "a int[3] = [1,2,3]\nb int[3] = {?a}[1:]\n"),
    ("dim_opts_list_2",   "n int = 3\n  !options [1,2,3]\n  !options [4]\n"),
    # ---- declarations
    ("decl_missing",      "a int\n"),
    ("decl_filled",       "a int\na = 4\n"),
    ("decl_missing_str",  "s str\n"),
    ("decl_cond_missing", "a float cm\n  !condition ('{?} > 1')\n"),
    ("decl_opts_filled",  "a float cm\n  = 12 cm\n  = 34 cm\na = 340 mm\n"),
    ("decl_opts_filled_miss", "a float cm\n  = 12 cm\n  = 34 cm\na = 35\n"),
    # ---- combinations
    ("combo_ok",          "size float = 13 cm\n  !options [12,13,14] cm\n  !condition ('{?} > 125 mm')\n"),
    ("combo_cond_fail",   "size float = 12 cm\n  !options [12,13,14] cm\n  !condition ('{?} > 125 mm')\n"),
    ("combo_opt_fail",    "size float = 15 cm\n  !options [12,13,14] cm\n  !condition ('{?} > 125 mm')\n"),
    ("combo_group",       "box\n  w float = 2 m\n    !condition ('{?} < 3 m')\n  h int = 2\n    = 1\n    = 2\n"),
    ("combo_group_fail",  "box\n  w float = 2 m\n    !condition ('{?} < 3 m')\n  h int = 3\n    = 1\n    = 2\n"),
    ("combo_case",        "@case true\n  n int = 3\n    !condition ('{?} < 2')\n@end\n"),
    ("combo_case_skip",   "@case false\n  n int = 3\n    !condition ('{?} < 2')\n@end\nm int = 1\n"),
]

RUNNER = r'''
import sys, json
root, cases_path = sys.argv[1], sys.argv[2]
sys.path.insert(0, root + '/src')
import warnings
warnings.simplefilter('ignore')
import numpy as np
from scinumtools.dip import DIP
from scinumtools.dip.settings import Format
import scinumtools
assert scinumtools.__file__.startswith(root), scinumtools.__file__

def show(v):
    if isinstance(v, np.ndarray):
        return ['ndarray', str(v.dtype), v.tolist()]
    if isinstance(v, (np.generic,)):
        return [type(v).__name__, v.item()]
    return [type(v).__name__, repr(v)]

def run(code):
    try:
        with DIP(name='diffrun') as p:
            p.add_string(code)
            env = p.parse()
        out = {}
        for node in env.nodes:
            val = node.value
            rec = {'kw': node.keyword, 'vtype': type(val).__name__}
            if val is not None and hasattr(val, 'value'):
                rec['value'] = show(val.value)
                rec['unit'] = getattr(val, 'unit', None)
            else:
                rec['value'] = show(val)
            rec['nopt'] = len(getattr(node, 'options', None) or [])
            rec['opts'] = [[show(o.value.value), o.value.unit] for o in (getattr(node, 'options', None) or [])]
            rec['cond'] = node.condition
            rec['fmt'] = getattr(node, 'format', None)
            rec['dim'] = node.dimension
            out[node.name] = rec
        data = env.data(verbose=True, format=Format.TYPE)
        tup = env.data(format=Format.TUPLE)
        return {'ok': True, 'nodes': out,
                'data': {k: repr(v) for k, v in data.items()},
                'tuple': {k: repr(v) for k, v in tup.items()},
                'autoref': repr(env.autoref)}
    except BaseException as e:
        a0 = e.args[0] if e.args and isinstance(e.args[0], str) else None
        return {'ok': False, 'exc': type(e).__name__, 'msg': a0, 'nargs': len(e.args)}

cases = json.load(open(cases_path))
res = {}
for name, code in cases:
    res[name] = run(code)
print("@@RESULT@@" + json.dumps(res, sort_keys=True, default=repr))
'''

def run_tree(root, cases_path):
    root = os.path.abspath(root)
    env = dict(os.environ)
    env.pop('PYTHONPATH', None)
    env['PYTHONDONTWRITEBYTECODE'] = '1'
    p = subprocess.run([sys.executable, '-c', RUNNER, root, cases_path],
                       capture_output=True, text=True, env=env, cwd='/tmp')
    if p.returncode != 0:
        print("runner failed for", root, "\n", p.stderr[-3000:])
        sys.exit(2)
    line = [l for l in p.stdout.splitlines() if l.startswith("@@RESULT@@")][-1]
    return json.loads(line[len("@@RESULT@@"):])

def main():
    base, new = sys.argv[1], sys.argv[2]
    import tempfile
    with tempfile.NamedTemporaryFile('w', suffix='.json', delete=False) as f:
        json.dump(CASES, f)
        cases_path = f.name
    try:
        a = run_tree(base, cases_path)
        b = run_tree(new, cases_path)
    finally:
        os.unlink(cases_path)
    bad = 0
    for name, _ in CASES:
        if a[name] != b[name]:
            bad += 1
            print("DIFF", name, "\n  base:", a[name], "\n  new: ", b[name])
    nok = sum(1 for n, _ in CASES if a[n]['ok'])
    print(f"{len(CASES)} cases ({nok} accepted, {len(CASES)-nok} rejected in base), {bad} differ")
    sys.exit(1 if bad else 0)

if __name__ == '__main__':
    main()
