#!/venv/bin/python
"""Differential check for property C03 (unit expression = product of table entries).

usage: diff.py <unmodified tree root> <refactored tree root>

Each tree is exercised in its own subprocess (own sys.path); the JSON reports
are compared and the exit status is 0 iff they are identical.
"""
import json
import subprocess
import sys

CHILD = r'''
import sys, json
sys.path.insert(0, sys.argv[1] + '/src')
import numpy as np
from scinumtools.units import Quantity, Unit, Constant, BaseUnits, UnitSolver, Dimensions, Fraction
from scinumtools.units.unit_solver import AtomParser
from scinumtools.units.base_units import get_unit_base
from scinumtools.units.settings import UNIT_STANDARD, UNIT_PREFIXES

def plain(x):
    if isinstance(x, (np.floating, float)):
        return repr(float(x))
    if isinstance(x, (np.integer,)):
        return int(x)
    if isinstance(x, (list, tuple)):
        return [plain(i) for i in x]
    if isinstance(x, dict):
        return {str(k): plain(v) for k, v in x.items()}
    return x

def guard(fn):
    try:
        return ['ok', fn()]
    except BaseException as e:
        return ['exc', type(e).__name__]

def expr_report(expr):
    def run():
        bu = BaseUnits(expr)
        out = {
            'magnitude': plain(bu.magnitude),
            'dimensions': plain(bu.dimensions.value()),
            'dimstr': str(bu.dimensions),
            'nodim': bu.nodim,
            'nobase': bu.nobase,
            'baseunits': plain(bu.value()),
            'order': list(bu.baseunits.keys()),
            'units': list(bu.units),
            'expression': bu.expression,
            'str': str(bu),
        }
        if bu.expression is not None:
            again = BaseUnits(bu.expression)
            out['roundtrip'] = [plain(again.magnitude), plain(again.dimensions.value()),
                                again.expression, plain(again.value()), bool(again == bu)]
        q = Quantity(3.5, expr)
        out['quantity'] = [str(q), plain(q.magnitude), plain(q.baseunits.value())]
        return out
    return guard(run)

def atom_report(text):
    def run():
        a = AtomParser(text)
        return [plain(a.magnitude), {k: [v.num, v.den] for k, v in a.baseunits.items()}, str(a), repr(a)]
    return guard(run)

def solver_report(expr):
    def run():
        a = UnitSolver(expr)
        return [plain(a.magnitude), {k: [v.num, v.den] for k, v in a.baseunits.items()}, str(a)]
    return guard(run)

def base_report(unitid, exp):
    def run():
        f = None if exp is None else Fraction(*exp)
        b = get_unit_base(unitid, f)
        return [plain(b.magnitude), plain(b.dimensions.value()), b.units, b.expression,
                None if f is None else [f.num, f.den]]
    return guard(run)

def frac_report():
    out = []
    pairs = [(1, 2), (2, 4), (-2, 4), (2, -4), (-2, -4), (0, 5), (0, -5), (6, 3), (-6, 3), (7, 1), (12, -18), (1, 1), (9, 6)]
    for n, d in pairs:
        def run():
            f = Fraction(n, d)
            s = str(f)
            g = Fraction(n, d)
            return [s, f.num, f.den, repr(Fraction(n, d)), plain(g.value()), plain(Fraction(n, d).value(dtype=float)),
                    plain(Fraction(n, d).value(dtype=tuple))]
        out.append(guard(run))
    for text in ['2', '-2', '1:2', '-1:2', '3:-6', '+3', '0', '0:4', '1:2:3', '', '-', ':', '2:', 'x', '1:x', '+-1']:
        def run():
            f = Fraction.from_string(text)
            return [f.num, f.den, str(f)]
        out.append(guard(run))
    ops = [((1, 2), (1, 3)), ((-1, 2), (2, 4)), ((3, 1), (0, 1)), ((2, 3), (-2, 3))]
    for a, b in ops:
        def run():
            x, y = Fraction(*a), Fraction(*b)
            res = [x + y, x - y, x * y, -x, x + b, x - b, x * b, x * 2, x * 0.5, x / 2, x / 0.25, x + 3, x - 3]
            res = [[r.num, r.den, str(r)] for r in res]
            res.append(bool(x == y)); res.append(bool(x == Fraction(a[0] * 3, a[1] * 3)))
            return res
        out.append(guard(run))
        out.append(guard(lambda: [(Fraction(*a) / Fraction(*b)).num, (Fraction(*a) / Fraction(*b)).den]))
        out.append(guard(lambda: str(Fraction(*a) / b)))
    return out

def dim_report():
    out = []
    lists = [[1, 0, 0, 0, 0, 0, 0, 0], [2, 1, -2, 0, 0, 0, 0, 0], [0] * 8, [(1, 2), 0, (-3, 2), 0, 1, 0, 0, 0], [1, 2, 3], [1, 2, 3, 4, 5, 6, 7, 8, 9]]
    for l in lists:
        def run():
            d = Dimensions.from_list(l)
            e = d * Fraction(3, 2)
            return [str(d), plain(d.value()), plain(d.value(dtype=dict)), list(d.value(dtype=tuple)), d.nodim,
                    str(e), plain(e.value()), str(d * 2), str(d / 2), str(-d), str(d + d), str(d - d), (d - d).nodim,
                    bool(d == e), bool(d == Dimensions.from_list(l)), str(d * (1, 3)), str(d + 1), repr(d), repr(-e), str(d - 2), str(d + (1, 2)), str(d / Fraction(2, 3)), str(d / (2, 3)), str(d * 1.5)]
        out.append(guard(run))
    return out

def brief(expr):
    r = expr_report(expr)
    return r if r[0] == 'exc' else ['ok', r[1]['magnitude'], r[1]['dimensions'], r[1]['expression']]

def ctor_report(arg):
    def run():
        import copy
        a = copy.deepcopy(arg)
        bu = BaseUnits(a)
        after = None
        if isinstance(a, dict):
            after = {k: (str(v), type(v).__name__) for k, v in a.items()}
        return [plain(bu.magnitude), plain(bu.dimensions.value()), bu.expression, list(bu.units), plain(bu.value()),
                bu.nodim, bu.nobase, str(bu), after,
                str(bu + bu), str(bu - bu), (bu - bu).expression, str(bu * 2), str(bu / 2), (bu * (1, 2)).expression,
                plain((bu * 0.5).magnitude), bool(bu == bu * 1), bool(bu == bu * 2)]
    return guard(run)

ctors = [
    None, {}, {'m': 1}, {'m': 0}, {'k:m': 2, 's': -1}, {'k:g': (1, 2), 'm': (0, 3), 's': Fraction(-4, 2)},
    {'m': Fraction(0, 1), 'g': 1}, {'c:m': -3, 'g': 1, '#SPAC': 2}, {'q:m': 1}, {'zz': 1}, {'m': 0, 'zz': 0},
    {'m': 1.0}, {'m': 2.7}, {'m': 'x'}, {'[c]': 2, 'k:[c]': -1}, {'m:rad': 1, 'rad': -1},
    [1, 0, 0, 0, 0, 0, 0, 0], [2, 1, -2, 0, 0, 0, 0, 0], [0] * 8, [(1, 2), 1, 0, 0, 0, 0, 0, (3, 6)], [1, 2],
    np.array([1, 1, -2, 0, 0, 0, 0, 0]), Dimensions.from_list([1, 0, -1, 0, 0, 0, 0, 0]), 3, 2.5, ('m', 1),
    'kg*m2/s2', 'm0', 'km*m-1', 'xyz',
]

expressions = [
    'm', 'km', 'kg*m2/s2', 'kg*m2*s-2', 'cm-1', 'm1:2', 'm-3:2', 'kg1:2*m-1:2', 'm2:4', 'm6:3',
    'J', 'mJ', 'kJ/mol', 'N*m', 'W/(m2*K)', '(kg*m)/(s2*A)', 'eV', 'MeV', 'GeV2', 'erg', 'dyn/cm2',
    'rad', 'mrad', 'deg', "'", "''", 'sr', 'Hz', 'kHz', 'Pa', 'hPa', 'bar', 'mbar', 'atm', 'l', 'ml', 'dl',
    'au', 'pc', 'kpc', 'Mpc', 'ly', 'AU', '[c]', '[c]2', '[G]', '[h]', '[hbar]', '[k]', '[e]', '[m_e]', '[m_p]',
    '[N_A]', '[eps_0]', '[mu_0]', '[m_e]*[c]2', '[G]*kg2/m2', 'k[c]', 'm[c]',
    '2*m', '10*km', '1e3*m', '1.5e-3*kg', '2.5*m/s', 'm/2', '1/s', '1/(2*s)', '(m)', '((m))', '(m/s)2', '(m*s-1)2',
    'm*m', 'm/m', 'm*m-1', 'km/m', 'kg/g', 'm2/m2*s', 'm0', 's*m0', 'km*m-1*s',
    'Ym', 'Zm', 'Em', 'Pm', 'Tm', 'Gm', 'Mm', 'hm', 'dam', 'dm', 'mm', 'um', 'nm', 'pm', 'fm', 'am', 'zm', 'ym',
    'mol', 'mmol', 'cd', 'mcd', 'K', 'mK', 'C', 'uC', 's', 'ms', 'min', 'h', 'day', 'yr', 'kyr', 'Myr', 'Gyr',
    'g', 'kg', 'mg', 't', 'kt', 'u', 'Da', 'oz', 'lb', 'Cel', 'degF', 'degR', 'A', 'mA', 'V', 'kV', 'Ohm', 'kOhm',
    'F', 'pF', 'S', 'Wb', 'T', 'mT', 'H', 'lm', 'lx', 'Bq', 'Gy', 'Sv', 'G', 'kG', 'P', 'St', 'Ci', 'Ba', 'cal', 'kcal',
    'Np', 'B', 'dB', 'dBm', 'dBmW', 'Bm', 'percent', 'ppm', 'ppth', '%', 'ppb',
    '#SPAC', '#STIM', '#ENER2', '#SPAC*s-1', 'k#SPAC', '#NOPE',
    # rejected inputs
    'xyz', 'foo', 'qm', 'kau', 'krad', 'drad', 'mau', 'kmin', 'mday', 'Kpc', 'kkm', 'mkm', 'xm', '_m', '$m', ' m',
    'm ', 'k m', 'm^2', 'm**2', 'm2.5', 'm+-', 'm-', 'm:', 'm1:', 'm:2', 'm1:2:3', 'k', 'da', 'M', '', ' ', '*', '/',
    'm*', '*m', 'm//s', '(m', 'm)', '()', 'kg m', 'kg.m', 'µm', 'Å', 'm²', 'k[foo]', '[foo]', '[c', 'c]', 'xkg*m',
    'kg*xm', 'kg/xs', '1x', 'e3', '1e', '1e+', '--1', '-m', '+m', 'm+1', 'm+2', 'm-2', 'm--2', '1.2.3', '.', '-.',
]

atoms = [
    'm', 'km', 'kg2', 'm-1', 'm1:2', 'm-3:2', 'mm', 'dam', 'dag', 'mmol', 'mol', 'cd', 'mcd', 'rad', 'mrad', 'krad',
    'au', 'kau', 'pc', 'kpc', 'Tpc', 'eV', 'keV', 'yeV', '[c]', 'k[c]', '[c]3', '#SPAC', '#SPAC2', ' #SPAC', 'k#SPAC',
    '1', '-1', '1.5', '1e3', '1e-3', '-2.5e+4', '1.2.3', '.', '1e', 'e', '12m', 'm12', 'xm', ' m', 'k', '', '2', ':', 'm:',
    'm+-', 'm1:2:3', 'min', 'h', 'hh', 'dh', 'T', 'TT', 'mT', 'G', 'kG', 'GG', 'Pa', 'PPa', 'P', 'cP', 'St', 'cSt', 'kSt',
    'dB', 'dBm', 'mdB', 'Np', 'cNp', 'dNp', 'kNp', 'Cel', 'mCel', 'degF', 'l', 'hl', 'kl', 'bar', 'kbar', 'Gbar',
]

bases = [
    ('m', None), ('m', (1, 1)), ('m', (2, 1)), ('k:m', (1, 1)), ('k:m', (-2, 1)), ('k:g', (1, 2)), ('m:m', (3, 6)),
    ('da:m', (-4, -2)), ('#SPAC', None), ('#ENER', (2, 1)), ('#NOPE', None), ('[c]', (2, 1)), ('k:[c]', (1, 1)),
    ('q:m', (1, 1)), ('k:q', (1, 1)), ('zz', None), ('eV', (0, 3)), ('M:eV', (1, -2)), ('a:b:c', None), ('rad', (2, 4)),
]

report = {
    'expr': {e: expr_report(e) for e in expressions},
    'atom': {a: atom_report(a) for a in atoms},
    'atom_none': guard(lambda: AtomParser().magnitude),
    'atom_num': [atom_report(v) for v in (3, 2.5, -1)],
    'solver': {e: solver_report(e) for e in expressions[:80]},
    'base': [base_report(u, e) for u, e in bases],
    'ctor': [ctor_report(c) for c in ctors],
    'ctor_bu': guard(lambda: str(BaseUnits(BaseUnits('km/s')))),
    'frac': frac_report(),
    'dim': dim_report(),
    'all_units': {s: expr_report(s) for s in list(UNIT_STANDARD.keys())},
    'all_prefixed': {p + s: [atom_report(p + s), brief(p + s + '-2:3')]
                     for p in ['k', 'm', 'da', 'G', 'c', 'y'] for s in list(UNIT_STANDARD.keys())},
    'conv': [guard(lambda a=a, b=b: plain(Quantity(2, a).to(b).magnitude)) for a, b in
             [('km', 'm'), ('J', 'erg'), ('eV', 'J'), ('kg*m2/s2', 'kJ'), ('m', 's'), ('pc', 'ly'), ('[c]', 'km/s'), ('m1:2', 'cm1:2'), ('deg', 'rad'), ('l', 'cm3')]],
    'unit_const': [guard(lambda: str(Unit('km') * 2)), guard(lambda: str(Constant('c'))), guard(lambda: str(Unit('qq'))), guard(lambda: str(Constant('nope')))],
}
print(json.dumps(report, sort_keys=True, default=str))
'''


def run(tree):
    proc = subprocess.run([sys.executable, '-c', CHILD, tree], capture_output=True, text=True)
    if proc.returncode != 0:
        sys.stderr.write(proc.stderr)
        raise SystemExit(2)
    return json.loads(proc.stdout.strip().splitlines()[-1])


def walk(a, b, path, out):
    if type(a) != type(b):
        out.append((path, a, b))
    elif isinstance(a, dict):
        for k in sorted(set(a) | set(b)):
            if k not in a or k not in b:
                out.append((path + '/' + k, a.get(k), b.get(k)))
            else:
                walk(a[k], b[k], path + '/' + k, out)
    elif isinstance(a, list):
        if len(a) != len(b):
            out.append((path, a, b))
        else:
            for i, (x, y) in enumerate(zip(a, b)):
                walk(x, y, '%s[%d]' % (path, i), out)
    elif a != b:
        out.append((path, a, b))


def main():
    base, new = sys.argv[1], sys.argv[2]
    ra, rb = run(base), run(new)
    diffs = []
    walk(ra, rb, '', diffs)
    n_expr = len(ra['expr']) + len(ra['atom']) + len(ra['all_units']) + len(ra['all_prefixed'])
    n_exc = sum(1 for v in ra['expr'].values() if v[0] == 'exc')
    print('inputs compared: %d (of the expression set %d accepted, %d rejected)' % (n_expr, len(ra['expr']) - n_exc, n_exc))
    for path, x, y in diffs[:40]:
        print('DIFF', path, x, y)
    sys.exit(1 if diffs else 0)


if __name__ == '__main__':
    main()
