#!/venv/bin/python
"""Differential check for property C10 (a molecular formula is decomposed into exactly its atoms).

usage: diff.py <unmodified tree root> <refactored tree root>

Runs the same formulas / operations against both trees (each in its own subprocess with its
own sys.path) and exits 0 iff every observable output (species, counts, per-species and total
mass/Z/N/e with full float repr, string forms, pre-processed expressions, raised exception
types and arguments) is identical.
"""
import json
import subprocess
import sys

DRIVER = r'''
import sys, json, io, contextlib, warnings
warnings.simplefilter('ignore')
sys.path.insert(0, sys.argv[1] + '/src')
import numpy as np
from scinumtools.units import Quantity, Unit
from scinumtools.materials import Substance, SubstanceSolver, Element
from scinumtools.materials.element import PERIODIC_TABLE

def norm(x):
    if isinstance(x, Quantity):
        return ['Q', repr(x.value()), str(x.units())]
    if isinstance(x, (float, np.floating)):
        return repr(float(x))
    if isinstance(x, (int, np.integer)):
        return int(x)
    if isinstance(x, dict):
        return {str(k): norm(v) for k, v in x.items()}
    if isinstance(x, (list, tuple)):
        return [norm(v) for v in x]
    if x is None or isinstance(x, (str, bool)):
        return x
    return repr(x)

def exc(e):
    return ['EXC', type(e).__name__, [repr(a) for a in e.args]]

def table(pt):
    return None if pt is None else norm(pt.data())

def describe(s):
    out = {}
    out['str'] = str(s)
    out['expr'] = s.expr
    out['natural'] = s.natural
    out['species'] = [(k, norm(c.proportion), c.element, norm(c.isotope), norm(c.ionisation),
                       norm(c.Z), norm(c.N), norm(c.e), norm(c.mass), norm(c.component_mass),
                       norm(c.composite_mass), str(c))
                      for k, c in s.components.items()]
    out['components_q'] = table(s.data_components())
    out['components'] = table(s.data_components(quantity=False))
    out['composite_q'] = table(s.data_composite())
    out['composite'] = table(s.data_composite(quantity=False))
    out['norm'] = [norm(s.proportion_norm), norm(s.composite_mass), norm(s.component_mass)]
    return out

def guard(fn):
    try:
        return fn()
    except BaseException as e:
        return exc(e)

FORMULAS = [
    # plain elements, isotopes, charges
    'C', 'C{12}', 'C{13}', 'C{-2}', 'C{+}', 'C{-}', 'C{12-}', 'C{13-2}', 'C{13+2}', 'O{+3}', 'O{16+10}',
    'H', 'D', 'T', 'D{2-2}', 'D{+}', 'T{3+}', 'H{1-1}', 'H{1+}', 'H{2}', 'H{3}', 'He{3}', 'U{235}', 'U', 'Og', 'Tc',
    # nucleons
    '[p]', '[n]', '[e]', '[n]2', '[p]2', '[p]B{11}', '[e]3[p]2[n]',
    # counts, implicit + and *
    'H2O', 'C2B4', 'C2 B4', 'NaCl', 'C6H12O6', 'CH3CH2OH', 'H2 O', 'H2 + O', 'H * 2 + O', 'O + H2', 'Fe2O3',
    'C{13+2}B{11}H{-}2', 'U{238}O{16}2', 'H12', 'C10H16N5O13P3',
    # parentheses and nesting
    '(H2O)', 'H(CN)', 'Ca(OH)2', '(CB2)2', '((CB2)2Al)3', 'C{13+2}(B{11}Li2)4 H{-}2 O{+3}', 'Al2(SO4)3',
    'Mg3(Si2O5)(OH)4', 'K4(Fe(CN)6)', '(((H)2)3)4', '(H{1-1} + B{11})2', '(C + B * 2) * 2', 'C{13+2} + (B{11} + Li * 2)4',
    '( H2 O )3', 'Ca (O H)2', '(NH4)2SO4', '((H2O)2(D2O)3)2He{3}', 'Fe(H2O)6Cl3', '(C2H5)2O', 'H2O(H2O)2', '(H)(H)(O)',
    # repeated species (counts must accumulate)
    'HOH', 'CH3COOH', 'H{1}H{2}H{1}', 'DHDH', 'C{12}C{13}C{12}2',
    # malformed / unknown
    '', 'Xx', 'Q', 'h2o', 'C{99}', 'C{12', 'C12}', '(H2O', 'H2O)', '2H', 'H{+-}', 'H{}', 'C{0}', '[x]', 'H++', 'H2.5O', '()', 'H()',
    'He{2}', 'Og{300}', 'D{5}',
]

results = {}

# 1. formula strings in both isotope-selection modes
for natural in (True, False):
    for f in FORMULAS:
        results[f"formula|{natural}|{f}"] = guard(lambda: describe(Substance(f, natural=natural)))

# 2. pre-processing and direct solver use
def prep():
    out = {}
    with SubstanceSolver(Substance().atom) as ms:
        for f in FORMULAS:
            out[f] = guard(lambda: ms.preprocess(f))
    return out
results['preprocess'] = guard(prep)

def solve():
    out = {}
    for natural in (True, False):
        with SubstanceSolver(Substance(natural=natural).atom) as ms:
            for f in ['C', 'H2O', 'Ca(OH)2', '[p]B{11}', '(H{1-1} + B{11})2', 'D2O', 'Xx2', '(H']:
                out[f"{natural}|{f}"] = guard(lambda: describe(ms.solve(f)))
    return out
results['solve'] = guard(solve)

# 3. atoms
def atoms():
    out = {}
    s = Substance(natural=False)
    for a in ['2', '2.5', '1e3', '1E-2', '12C', 'C', 'C2', 'H{2}', '[p]', '0', '.5', '-1', 'e', 'E2', '1e', '1.', '3x']:
        def one():
            r = s.atom(a)
            return norm(r) if isinstance(r, float) else describe(r)
        out[a] = guard(one)
    return out
results['atoms'] = guard(atoms)

# 4. elements directly (every tabulated isotope of a few elements, all elements in both modes)
def elements():
    out = {}
    for sym in PERIODIC_TABLE.keys():
        for natural in (True, False):
            def one():
                e = Element(sym, natural=natural)
                return [str(e), norm(e.Z), norm(e.N), norm(e.e), norm(e.mass), norm(e.isotope), norm(e.ionisation)]
            out[f"{sym}|{natural}"] = guard(one)
    for sym in ['H', 'He', 'C', 'O', 'Sn', 'Xe', 'U', 'Fe', 'Tc', 'Og']:
        for A in PERIODIC_TABLE[sym].A.keys():
            for ion in ('', '+', '-', '+2', '-3'):
                expr = f"{sym}{{{A}{ion}}}"
                def one():
                    e = Element(expr, proportion=3)
                    return [str(e), norm(e.Z), norm(e.N), norm(e.e), norm(e.mass), norm(e.isotope),
                            norm(e.ionisation), norm(e.composite_mass), table(e._data({'mass': 'Da', 'Z': None}, lambda s, m: {'mass': m.mass, 'Z': m.Z}))]
                out[expr] = guard(one)
    for expr in ['C{+}', 'C{-}', 'C{+12}', 'C{-0}', 'D{-}', 'T{+2}', 'D{3}', 'T{2+}', 'He{+}', '[p]{1}', '[n]', '[e]', '[q]', 'c', '1C', 'Cc', 'Abc', '', 'C{12}{13}']:
        for natural in (True, False):
            def one():
                e = Element(expr, natural=natural, proportion=2)
                return [str(e), norm(e.Z), norm(e.N), norm(e.e), norm(e.mass), norm(e.isotope), norm(e.ionisation),
                        str(e * 3), str(e + e)]
            out[f"{expr}|{natural}"] = guard(one)
    def getters():
        e = Element('C')
        return [norm(e.get_isotope('C', 13, -1)), norm(e.get_isotope('O', None, None)), norm(e.get_isotope('O', 0, 0)),
                norm(e.get_abundant('Sn', 2)), norm(e.get_natural('Sn', -2)), norm(e.get_natural('H', 0)),
                norm(e.get_abundant('Li', None)), guard(lambda: e.get_isotope('Li', 2, 0)), guard(lambda: e.get_isotope('Zz', 2, 0)),
                guard(lambda: e.get_natural('Zz', 0)), guard(lambda: e.get_abundant('Zz', 0)),
                guard(lambda: str(Element('C') + Element('O')))]
    out['getters'] = guard(getters)
    return out
results['elements'] = guard(elements)

# 5. addition / multiplication of substances, dict input, add()
def algebra():
    out = {}
    for natural in (True, False):
        a = Substance('H2O', natural=natural)
        b = Substance('Ca(OH)2', natural=natural)
        c = Substance('D2O{18}', natural=natural)
        out[f"{natural}|a+b"] = guard(lambda: describe(a + b))
        out[f"{natural}|b+a"] = guard(lambda: describe(b + a))
        out[f"{natural}|a+c+a"] = guard(lambda: describe(a + c + a))
        out[f"{natural}|a*3"] = guard(lambda: describe(a * 3))
        out[f"{natural}|a*2.5"] = guard(lambda: describe(a * 2.5))
        out[f"{natural}|(a+b)*2"] = guard(lambda: describe((a + b) * 2))
        out[f"{natural}|a*0"] = guard(lambda: describe(a * 0))
        out[f"{natural}|a+Element"] = guard(lambda: describe(a + Element('O', 2, natural=natural)))
        out[f"{natural}|a+Element2"] = guard(lambda: describe(a + Element('N{15+}', natural=natural)))
        out[f"{natural}|a+1"] = guard(lambda: describe(a + 1))
        out[f"{natural}|a*b"] = guard(lambda: describe(a * b))
        out[f"{natural}|dict"] = guard(lambda: describe(Substance({'H': 2, 'O': 1, 'C{13}': 3}, natural=natural)))
        out[f"{natural}|dict-bad"] = guard(lambda: describe(Substance({'H': 2, 'Xx': 1}, natural=natural)))
        def adds():
            s = Substance(natural=natural)
            s.add('H', 2); s.add('O'); s.add('H', 3); s.add('[p]', 2)
            return describe(s)
        out[f"{natural}|add"] = guard(adds)
        out[f"{natural}|empty"] = guard(lambda: [Substance(natural=natural).data_components(), Substance(natural=natural).data_composite(),
                                                Substance(natural=natural).expr])
        def sel():
            s = Substance('C6H12O6', natural=natural)
            return [table(s.data_composite(components=['H', 'O'], quantity=False)), table(s.data_composite(components=['Zz'], quantity=False))]
        out[f"{natural}|select"] = guard(sel)
        def matter():
            s = Substance('H2O', natural=natural, mass_density=Quantity(997, 'kg/m3'), volume=Quantity(1, 'l'))
            return [describe(s), table(s.data_matter(quantity=False)), norm(s.number_density), norm(s.mass)]
        out[f"{natural}|matter"] = guard(matter)
        def printed():
            buf = io.StringIO()
            with contextlib.redirect_stdout(buf):
                Substance('Ca(OH)2', natural=natural).print()
                Element('O{17+}', 2, natural=natural).print()
            return buf.getvalue()
        out[f"{natural}|print"] = guard(printed)
    return out
results['algebra'] = guard(algebra)

print('@@RESULT@@' + json.dumps(results, sort_keys=True, default=repr))
'''


def run(root):
    proc = subprocess.run([sys.executable, '-c', DRIVER, root], capture_output=True, text=True)
    if proc.returncode != 0:
        sys.stderr.write(proc.stderr)
        raise SystemExit(f"driver failed for {root}")
    payload = [l for l in proc.stdout.splitlines() if l.startswith('@@RESULT@@')][-1]
    return json.loads(payload[len('@@RESULT@@'):])


def flatten(prefix, obj, out):
    if isinstance(obj, dict):
        for k, v in obj.items():
            flatten(f"{prefix}/{k}", v, out)
    else:
        out[prefix] = obj


def main():
    base, new = sys.argv[1], sys.argv[2]
    a, b = {}, {}
    flatten('', run(base), a)
    flatten('', run(new), b)
    bad = 0
    for name in sorted(set(a) | set(b)):
        if a.get(name) != b.get(name):
            bad += 1
            if bad <= 20:
                print(f"DIFF in {name}:\n  base: {str(a.get(name))[:300]}\n  new : {str(b.get(name))[:300]}")
    print(f"{len(a)} observations compared, {bad} differ")
    sys.exit(1 if bad else 0)


if __name__ == '__main__':
    main()
