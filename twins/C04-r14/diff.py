#!/venv/bin/python
"""Differential check for property C04 (linear unit conversion).

usage: diff.py <unmodified tree root> <refactored tree root>

Runs the same battery of conversion inputs against both trees (each in its own
subprocess with its own sys.path) and exits 0 iff every observable output
(values, units, errors, raised exception types) is identical.
"""
import json
import subprocess
import sys

PROBE = r'''
import sys, json
sys.path.insert(0, sys.argv[1] + '/src')
import numpy as np
from decimal import Decimal
from scinumtools.units import Quantity, Unit, Dimensions, BaseUnits, Fraction
from scinumtools.units.base_units import get_unit_base
from scinumtools.units.unit_types import StandardUnitType, TemperatureUnitType
from scinumtools.units.magnitude import Magnitude

def show(x):
    if isinstance(x, Quantity):
        m = x.magnitude
        return ['Q', show(m.value), show(getattr(m, 'error', None)), repr(x.baseunits), x.units(), str(x)]
    if isinstance(x, Magnitude):
        return ['M', show(x.value), show(x.error)]
    if isinstance(x, np.ndarray):
        return ['A', str(x.dtype), [show(v) for v in x.tolist()]]
    if isinstance(x, Decimal):
        return ['D', str(x)]
    if isinstance(x, (float, np.floating)):
        return ['F', float(x).hex() if x == x else 'nan']
    if isinstance(x, (bool, np.bool_)):
        return ['B', bool(x)]
    if isinstance(x, (int, np.integer)):
        return ['I', int(x)]
    if isinstance(x, (list, tuple)):
        return [type(x).__name__, [show(v) for v in x]]
    if isinstance(x, dict):
        return ['dict', [[str(k), show(v)] for k, v in x.items()]]
    if x is None:
        return None
    return [type(x).__name__, repr(x)]

results = []
def case(label, fn):
    try:
        out = show(fn())
    except BaseException as e:
        out = ['EXC', type(e).__name__]
    results.append([label, out])

VALUES = [0.0, 1.0, -1.0, 3.0, -2.5e-7, 1.2345678901234567, 1e300, -1e300, 1e-300, 5e-324, 1.7976931348623157e308]

# same-dimension triples: direct, round trip and via an intermediate unit
TRIPLES = [
    ('m', 'km', 'cm'), ('km', 'au', 'pc'), ('kg', 'g', 'mg'), ('s', 'ms', 'h'),
    ('J', 'erg', 'eV'), ('N', 'dyn', 'kg*m/s2'), ('Pa', 'bar', 'atm'),
    ('m/s', 'km/h', 'cm/s'), ('kg*m2/s2', 'J', 'kJ'), ('W', 'erg/s', 'kg*m2*s-3'),
    ('m2', 'cm2', 'km2'), ('m3', 'l', 'cm3'), ('Hz', 's-1', 'kHz'), ('C', 'mC', 'A*s'),
    ('mol', 'mmol', 'kmol'), ('rad', 'mrad', 'deg'), ('m1:2', 'cm1:2', 'km1:2'),
    ('Ym', 'ym', 'nm'), ('V', 'kg*m2*s-2*C-1', 'mV'), ('#SPRE', 'Pa', 'kPa'),
    ('#ALEN', 'm', '[a_0]'), ('cd', 'mcd', 'kcd'), ('K', 'mK', 'kK'),
]
for u, v, w in TRIPLES:
    for x in VALUES:
        case(f'to {x!r} {u}->{v}', lambda: Quantity(x, u).to(v))
        case(f'value {x!r} {u}->{v}', lambda: Quantity(x, u).value(v))
        case(f'back {x!r} {u}->{v}->{u}', lambda: Quantity(x, u).to(v).to(u))
        case(f'via {x!r} {u}->{w}->{v}', lambda: Quantity(x, u).to(w).to(v))
    case(f'arr {u}->{v}', lambda: Quantity(np.array(VALUES), u).to(v))
    case(f'list {u}->{v}->{u}', lambda: Quantity([0, 1, -2, 3.5], u).to(v).to(u))
    case(f'err {u}->{v}', lambda: Quantity(3.0, u, abse=0.25).to(v))
    case(f'rele {u}->{v}', lambda: Quantity(3.0, u, rele=5).to(v).to(w))
    case(f'dec {u}->{v}', lambda: Quantity(Decimal('3.25'), u).to(v))

# every table unit (with and without prefixes) against its own base form
from scinumtools.units.settings import UNIT_STANDARD, UNIT_PREFIXES
for sym in UNIT_STANDARD.keys():
    case(f'base {sym}', lambda: get_unit_base(sym))
    case(f'base {sym}^-2', lambda: get_unit_base(sym, Fraction(-2)))
    case(f'base {sym}^3:2', lambda: get_unit_base(sym, Fraction(3, 2)))
    case(f'self {sym}', lambda: Quantity(2.5, sym).to(sym))
    for p in ('k', 'm', 'u', 'Y', 'da'):
        case(f'base {p}:{sym}', lambda: get_unit_base(f'{p}:{sym}', Fraction(2)))
        case(f'prefix {p}{sym}', lambda: Quantity(2.5, p + sym).to(sym).to(p + sym))
for sid in ('#SPRE', '#ALEN', '#SLEN', '#CMAS', '#XXXX'):
    case(f'sysbase {sid}', lambda: get_unit_base(sid))
    case(f'sysbase {sid}^-1:3', lambda: get_unit_base(sid, Fraction(-1, 3)))
case('base bad', lambda: get_unit_base('q:nonexistent'))

# reciprocal dimensions and bare numbers to radians
for x in VALUES + [2.0, 0.25]:
    case(f'inv {x!r} s->Hz', lambda: Quantity(x, 's').to('Hz'))
    case(f'inv {x!r} Hz->ms', lambda: Quantity(x, 'Hz').to('ms'))
    case(f'inv {x!r} m->km-1', lambda: Quantity(x, 'm').to('km-1'))
    case(f'inv {x!r} m/s->s/km', lambda: Quantity(x, 'm/s').to('s/km'))
    case(f'rad {x!r}', lambda: Quantity(x).to('rad'))
    case(f'rad value {x!r}', lambda: Quantity(x).value('rad'))
case('inv arr', lambda: Quantity(np.array([1.0, 2.0, -4.0, 1e300]), 's').to('kHz'))
case('inv err', lambda: Quantity(4.0, 's', abse=0.5).to('Hz'))
case('rad arr', lambda: Quantity(np.array([0.0, 1.0, -3.5])).to('rad'))
case('rad -> none', lambda: Quantity(1.5, 'rad').to(None))
case('none -> mrad', lambda: Quantity(1.5).to('mrad'))
case('none -> deg', lambda: Quantity(1.5).to('deg'))
case('sin deg', lambda: np.sin(Quantity(30, 'deg')))
case('sin bare', lambda: np.sin(Quantity(0.5)))

# refused conversions leave the quantity unchanged
PAIRS = [('m', 's'), ('kg', 'm'), ('J', 'W'), ('m2', 'm'), ('m', 'm-2'), ('rad', 'm'),
         ('m', 'rad'), ('Pa', 'N'), ('mol', 'kg'), ('C', 'V'), ('m/s', 'm/s2'), ('K', 'J'),
         ('m', None), ('kg*m', 'rad'), ('#SPRE', 'm'), ('m1:2', 'm'), ('cd', 'mol')]
def refused(x, u, v):
    q = Quantity(x, u)
    before = show(q)
    try:
        q.to(v)
        exc = None
    except BaseException as e:
        exc = type(e).__name__
    return [exc, before == show(q), show(q)]
for u, v in PAIRS:
    for x in (0.0, 3.0, -1e300):
        case(f'refuse {x!r} {u}->{v}', lambda: refused(x, u, v))
    case(f'refuse arr {u}->{v}', lambda: refused(np.array([1.0, 2.0]), u, v))
    case(f'refuse value {u}->{v}', lambda: Quantity(1.0, u).value(v))
    case(f'refuse add {u}+{v}', lambda: Quantity(1.0, u) + Quantity(1.0, v))

# other target spellings, quantities as targets, equality, arithmetic through _convert
case('to list', lambda: Quantity(3, 'km').to([1, 0, 0, 0, 0, 0, 0, 0]))
case('to dims', lambda: Quantity(3, 'km').to(Dimensions(m=Fraction(1))))
case('to dict', lambda: Quantity(3, 'km').to({'m': 1}))
case('to baseunits', lambda: Quantity(3, 'km').to(BaseUnits({'m': 1})))
case('to quantity', lambda: Quantity(3, 'km').to(Quantity(2, 'm')))
case('to quantity bad', lambda: refused(3.0, 'km', Quantity(2, 's')))
case('to bad type', lambda: Quantity(3, 'km').to(3.5))
case('to unknown', lambda: refused(3.0, 'km', 'foo'))
case('eq 1', lambda: Quantity(1, 'km') == Quantity(1000, 'm'))
case('eq 2', lambda: Quantity(1, 'km') == Quantity(1001, 'm'))
case('eq 3', lambda: Quantity(1, 'km') == Quantity(1000, 's'))
case('eq 4', lambda: Quantity(0, 'km') == Quantity(0, 'm'))
case('add', lambda: Quantity(1, 'km') + Quantity(25, 'cm'))
case('sub', lambda: Quantity(1, 'h') - Quantity(25, 'min'))
case('rebase', lambda: Quantity(3, 'km*cm/s*h').rebase())
case('linspace', lambda: np.linspace(Quantity(1, 'km'), Quantity(3000, 'm'), 3))

# dimension algebra used by the dimension check
d1 = lambda: Quantity(1, 'kg*m2/s2').baseunits.dimensions
d2 = lambda: Quantity(1, 's2/(kg*m2)').baseunits.dimensions
case('dim eq', lambda: d1() == d1())
case('dim ne', lambda: d1() == d2())
case('dim neg', lambda: repr(-d1()))
case('dim neg eq', lambda: -d1() == d2())
case('dim neg frac', lambda: [repr(-Dimensions(m=Fraction(1, 2), s=Fraction(-3, 4))), (-Dimensions(m=Fraction(1, 2))).nodim, (-Dimensions()).nodim])
case('dim neg value', lambda: (-d1()).value())
case('dim eq bad', lambda: d1() == 3)

# conversion objects directly, including temperature scale units
def conv(cls, u, v, x):
    c = cls(BaseUnits(u), BaseUnits(v))
    if c is None:
        return None
    return [list(c.conversion), c.convert(x)]
for cls in (StandardUnitType, TemperatureUnitType):
    for u, v in (('km', 'm'), ('s', 'Hz'), (None, 'rad'), ('m', 's'), ('K', 'Cel'), ('Cel', 'degF'), ('Cel*m', 'K')):
        for x in (Magnitude(3.0), Magnitude(3.0, 0.5), Magnitude(np.array([1.0, -2.0])), Magnitude(Decimal('1.5'))):
            case(f'conv {cls.__name__} {u}->{v} {x}', lambda: conv(cls, u, v, x))
case('temp 1', lambda: Quantity(20, 'Cel').to('K'))
case('temp 2', lambda: Quantity(300, 'K').to('degF'))
case('temp 3', lambda: Quantity(20, 'Cel', abse=1).to('degF'))
case('log 1', lambda: Quantity(1, 'dBm').to('mW'))
case('log 2', lambda: Quantity(2, 'Np').to('dB'))

print(json.dumps(results))
'''


def run(root):
    p = subprocess.run([sys.executable, '-c', PROBE, root], capture_output=True, text=True)
    if p.returncode != 0:
        sys.stderr.write(p.stderr)
        raise SystemExit(f'probe crashed for {root}')
    return json.loads(p.stdout.strip().splitlines()[-1])


def main():
    base, new = sys.argv[1], sys.argv[2]
    a, b = run(base), run(new)
    bad = 0
    if len(a) != len(b):
        print(f'number of cases differs: {len(a)} vs {len(b)}')
        bad += 1
    for (la, ra), (lb, rb) in zip(a, b):
        if la != lb or ra != rb:
            bad += 1
            if bad <= 20:
                print(f'DIFF {la}: {ra} != {rb}')
    nexc = sum(1 for _, r in a if isinstance(r, list) and r and r[0] == 'EXC')
    print(f'{len(a)} cases ({nexc} raising), {bad} differences')
    sys.exit(1 if bad else 0)


if __name__ == '__main__':
    main()
