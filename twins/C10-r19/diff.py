#!/venv/bin/python
"""Differential check: run the same formula inputs against two trees and compare.

usage: diff.py <unmodified tree root> <refactored tree root>
exit 0 iff every observable output (values, units, exception types) is identical.
"""
import sys, subprocess, json

WORKER = r'''
import sys, json, io, contextlib, warnings
warnings.filterwarnings("ignore")
sys.path.insert(0, sys.argv[1] + "/src")
from scinumtools.materials import Substance, Element, SubstanceSolver
from scinumtools.units import Quantity

def q(v):
    if isinstance(v, Quantity):
        return ["Q", repr(v.value()), str(v.units())]
    try:
        import numpy as np
        if isinstance(v, np.generic):
            v = v.item()
    except Exception:
        pass
    return [type(v).__name__, repr(v)]

def table(pt):
    if pt is None:
        return None
    out = []
    for key, row in pt.items():
        out.append([key, [[c, q(row[c])] for c in row.keys()]])
    return out

def substance(s):
    return {
        "expr": s.expr,
        "keys": list(s.components.keys()),
        "counts": [q(c.proportion) for c in s.components.values()],
        "species": [[c.element, q(c.isotope), q(c.ionisation), q(c.mass), q(c.Z), q(c.N), q(c.e)]
                    for c in s.components.values()],
        "norm": q(s.proportion_norm),
        "mass": q(s.composite_mass),
        "components": table(s.data_components()),
        "composite": table(s.data_composite()),
        "composite_scalar": table(s.data_composite(quantity=False)),
        "str": str(s),
    }

def element(e):
    return {"element": e.element, "isotope": q(e.isotope), "ion": q(e.ionisation),
            "mass": q(e.mass), "Z": q(e.Z), "N": q(e.N), "e": q(e.e),
            "count": q(e.proportion), "cmass": q(e.composite_mass), "str": str(e)}

FORMULAS = [
    "H2O", "DT", "C{12}O2", "Ca(OH)2", "Al2(SO4)3", "NaCl", "Na{+}Cl{-}",
    "O{16-2}", "H{2+}", "[p]2[n]2[e]2", "[p]", "Fe{56+3}2O{-2}3",
    "K4(Fe(CN)6)", "((H2O)2(NH3))3", "H2 O", "H2 + O", "C2H5OH", "H2O + NaCl",
    "C6H12O6 * 2", "(H2O)2 + (CO2)3", "U{238}O2", "D2O", "T{+}", "D{-}O",
    "Og", "He{3}", "  H2O  ", "( H2 O )2", "Mg(NO3)2(H2O)6", "CH3(CH2)2CH3",
    # failing inputs
    "Xx", "H{99}", "(H2O", "H2O)", "", "2", "h2o", "H{+", "Ca(OH)2)3", "H2**2",
]

PRE = [")2 H", "H2)3O", "(A)(B)2C", "x(y)2 z", "H2O3(OH)2  (CO)", "[p]2[n]", "H{+}2O{-2}", "Na Cl", "a+b*(c)",
       "((", "))3", "He{3}2 Ne{20+}", "H2\tO", "H2\nO (O)\n2"]

def run(fn):
    try:
        with contextlib.redirect_stdout(io.StringIO()) as buf:
            r = fn()
        return {"ok": r, "stdout": buf.getvalue()}
    except BaseException as exc:
        return {"exc": type(exc).__name__}

res = {}
for natural in (True, False):
    for f in FORMULAS:
        res["S|%s|%s" % (f, natural)] = run(lambda: substance(Substance(f, natural=natural)))
        res["P|%s|%s" % (f, natural)] = run(lambda: SubstanceSolver(lambda a: a).preprocess(f))
    for f in PRE:
        res["P2|%r|%s" % (f, natural)] = run(lambda: SubstanceSolver(lambda a: a).preprocess(f))
        res["S2|%r|%s" % (f, natural)] = run(lambda: substance(Substance(f, natural=natural)))
    for e in ["H", "D", "T", "D{+}", "T{-2}", "D{5}", "C{13}", "C{14-}", "Cl{-}", "O{+2}", "Fe{54+2}",
              "[p]", "[n]", "[e]", "Uuo", "Q", "H{1+}", "H{0}", "Sn", "Sn{120}", "1H", "He{+}{+}", "[x]"]:
        res["E|%s|%s" % (e, natural)] = run(lambda: element(Element(e, natural=natural)))
        res["E3|%s|%s" % (e, natural)] = run(lambda: element(Element(e, 3, natural=natural) * 2))
        res["Eadd|%s|%s" % (e, natural)] = run(lambda: element(Element(e, natural=natural) + Element(e, 4, natural=natural)))
    res["add|%s" % natural] = run(lambda: substance(Substance("H2O", natural=natural) + Substance("NaCl", natural=natural)))
    res["add2|%s" % natural] = run(lambda: substance(Substance("H2O", natural=natural) + Substance("H2O2", natural=natural)))
    res["addel|%s" % natural] = run(lambda: substance(Substance("H2O", natural=natural) + Element("O", 2, natural=natural)))
    res["mul|%s" % natural] = run(lambda: substance(Substance("Ca(OH)2", natural=natural) * 3))
    res["mulf|%s" % natural] = run(lambda: substance(Substance("C{12}O2", natural=natural) * 0.5))
    res["dict|%s" % natural] = run(lambda: substance(Substance({"H": 2, "O{16}": 1}, natural=natural)))
    res["empty|%s" % natural] = run(lambda: [Substance(natural=natural).data_components(), Substance(natural=natural).expr])
    res["print|%s" % natural] = run(lambda: Substance("H2O", natural=natural).print())
    res["printel|%s" % natural] = run(lambda: (Element("O{17-2}", 2, natural=natural).print(), Element("B", natural=natural).print()))
    res["dens|%s" % natural] = run(lambda: table(Substance("H2O", natural=natural, mass_density=Quantity(997, "kg/m3"), volume=Quantity(1, "l")).data_matter()))
    res["sel|%s" % natural] = run(lambda: table(Substance("C2H5OH", natural=natural).data_composite(components=["C", "O"])))
    res["iso|%s" % natural] = run(lambda: [q(x) for x in Element("O", natural=natural).get_isotope("O", 18, -2)])
    res["abund|%s" % natural] = run(lambda: [q(x) for x in Element("O", natural=natural).get_abundant("Cl", 1)])
    res["nat|%s" % natural] = run(lambda: [q(x) for x in Element("O", natural=natural).get_natural("Sn", 0)])
# generic expression solver (shared tokeniser / operator machinery)
from scinumtools.solver import ExpressionSolver, AtomBase
for x in ["1+2*3", "-(2+3)**2", "pow(2,3) + logb(8,2)", "sqrt(16)/exp(0)", "1 < 2 && !(3 == 4)", "2*(3+(4-1))*5",
          "sin(0)+cos(0)", "(1+2", "1+2)", "pow(1)", "1 2", "", "3 >= 3 || 1 != 1", "--1", "log10(100)*-2"]:
    def solve():
        with ExpressionSolver(AtomBase) as es:
            return repr(es.solve(x))
    res["X|%s" % x] = run(solve)
print(json.dumps(res, sort_keys=True))
'''

def run(root):
    p = subprocess.run([sys.executable, "-c", WORKER, root], capture_output=True, text=True)
    if p.returncode != 0:
        print("worker failed for", root, "\n", p.stderr[-3000:])
        sys.exit(2)
    return json.loads(p.stdout.strip().splitlines()[-1])

def main():
    a, b = run(sys.argv[1]), run(sys.argv[2])
    bad = [k for k in sorted(set(a) | set(b)) if a.get(k) != b.get(k)]
    for k in bad:
        print("DIFF", k, "\n  base:", a.get(k), "\n  new: ", b.get(k))
    ok = sum(1 for v in a.values() if "ok" in v)
    print("cases: %d (ok in base: %d, raising in base: %d), differing: %d" % (len(a), ok, len(a) - ok, len(bad)))
    sys.exit(1 if bad else 0)

if __name__ == "__main__":
    main()
