#!/venv/bin/python
"""Differential check for property C05 (temperature / logarithmic conversions).

usage: diff.py <unmodified tree root> <refactored tree root>

Runs the same probe inputs against each tree in its own subprocess (each with
its own sys.path) and exits 0 iff every observable output (value, error, unit
expression, string form, raised exception type and arguments) is identical.
"""
import sys
import os
import json
import subprocess

PROBE = r'''
import sys, json, warnings
warnings.simplefilter("ignore")
root = sys.argv[1]
sys.path.insert(0, root + "/src")
import numpy as np
from decimal import Decimal
import scinumtools
assert scinumtools.__file__.startswith(root), scinumtools.__file__
from scinumtools.units import Quantity, Unit, Magnitude, BaseUnits, UnitEnvironment
from scinumtools.units.unit_types import (UnitType, StandardUnitType,
    TemperatureUnitType, LogarithmicUnitType)

def safe_str(x):
    try:
        return str(x)
    except BaseException as exc:
        return "str raised " + type(exc).__name__ + ": " + str(exc)

def norm(x):
    if isinstance(x, dict):
        return {k: norm(v) for k, v in x.items()}
    if isinstance(x, Quantity):
        return {"q": norm(x.magnitude.value), "e": norm(x.magnitude.error),
                "u": x.units(), "s": safe_str(x)}
    if isinstance(x, Magnitude):
        return {"m": norm(x.value), "e": norm(x.error)}
    if isinstance(x, np.ndarray):
        return [norm(v) for v in x.tolist()]
    if isinstance(x, (float, np.floating)):
        return repr(float(x))
    if isinstance(x, Decimal):
        return "D" + str(x)
    if isinstance(x, (list, tuple)):
        return [norm(v) for v in x]
    if isinstance(x, (bool, np.bool_)):
        return bool(x)
    if x is None or isinstance(x, (int, str)):
        return x
    return type(x).__name__ + ":" + str(x)

results = []
def run(label, fn):
    try:
        out = {"ok": norm(fn())}
    except BaseException as exc:
        out = {"exc": type(exc).__name__, "args": [str(a) for a in exc.args]}
    results.append([label, out])

TEMPS = ["K", "Cel", "degF", "degR", "mK", "kK"]
MAGS = [0.0, 1.0, 23.0, 273.15, 300.0, 1234.5678, 2.5e4]

# 1. all ordered pairs of temperature units, forward
for u1 in TEMPS:
    for u2 in TEMPS:
        for m in MAGS:
            run(f"T {m} {u1}->{u2}", lambda: Quantity(m, u1).to(u2))
# 2. round trips of temperature units
for u1 in TEMPS:
    for u2 in TEMPS:
        for m in (23.0, 451.0):
            run(f"Trt {m} {u1}->{u2}->{u1}", lambda: Quantity(m, u1).to(u2).to(u1))
# 3. temperatures with uncertainties, arrays, Decimal, value()
for u1, u2 in [("K","Cel"),("Cel","degF"),("degF","degR"),("degR","K"),("K","mK"),("Cel","Cel")]:
    run(f"Terr {u1}->{u2}", lambda: Quantity(300, u1, abse=2).to(u2))
    run(f"Trel {u1}->{u2}", lambda: Quantity(300, u1, rele=5).to(u2))
    run(f"Tarr {u1}->{u2}", lambda: Quantity([1.0, 20.0, 300.0], u1).to(u2))
    run(f"Tdec {u1}->{u2}", lambda: Quantity(Decimal("300.5"), u1).to(u2))
    run(f"Tval {u1}->{u2}", lambda: Quantity(300, u1).value(u2))
# 4. temperature error paths / compound units
run("T compound", lambda: Quantity(1, "Cel*m").to("K*m"))
run("T compound2", lambda: Quantity(1, "K").to("Cel2"))
run("T to m", lambda: Quantity(1, "Cel").to("m"))
run("T kCel", lambda: Quantity(1, "kCel"))
run("T add K+K", lambda: Quantity(1, "K") + Quantity(2, "mK"))
run("T add Cel+K", lambda: Quantity(1, "Cel") + Quantity(2, "K"))
run("T sub Cel-degF", lambda: Quantity(100, "Cel") - Quantity(2, "degF"))
run("T add Cel+m", lambda: Quantity(1, "Cel") + Quantity(2, "m"))

# 5. every entry of the logarithmic conversion table, with and without prefix
LOGMAGS = [0.001, 1.0, 3.0, 20.0, 1000.0]
for key in LogarithmicUnitType.conversions:
    u1, u2 = key.split("_")
    for m in LOGMAGS:
        run(f"L {m} {u1}->{u2}", lambda: Quantity(m, u1).to(u2))
        run(f"Lrt {m} {u1}->{u2}->{u1}", lambda: Quantity(m, u1).to(u2).to(u1))
PREF = [("dB","PR"),("PR","dB"),("dB","AR"),("AR","dB"),("dB","Np"),("Np","dB"),("dB","cNp"),
        ("dNp","B"),("B","dB"),("dB","B"),("mW","dBm"),("dBm","uW"),("kW","dBW"),("dBW","mW"),
        ("dBW","dBm"),("dBm","dBW"),("dBmW","dBm"),("mV","dBV"),("dBV","uV"),("dBuV","dBV"),
        ("dBV","dBuV"),("mA","dBA"),("dBuA","mA"),("kOhm","dBOhm"),("dBOhm","Ohm"),
        ("kPa","dBSPL"),("dBSPL","mPa"),("W/m2","dBSIL"),("dBSIL","W/m2"),("mW","dBSWL"),
        ("dBSWL","W"),("Np","PR"),("AR","Np"),("cNp","AR"),("PR","dNp"),("dB","dB"),("Np","Np")]
for u1, u2 in PREF:
    for m in (0.5, 6.0, 30.0):
        run(f"P {m} {u1}->{u2}", lambda: Quantity(m, u1).to(u2))
        run(f"Prt {m} {u1}->{u2}->{u1}", lambda: Quantity(m, u1).to(u2).to(u1))
    run(f"Parr {u1}->{u2}", lambda: Quantity([1.0, 10.0, 100.0], u1).to(u2))
    run(f"Perr {u1}->{u2}", lambda: Quantity(10, u1, abse=0.5).to(u2))
    run(f"Pval {u1}->{u2}", lambda: Quantity(10, u1).value(u2))
# 6. logarithmic error paths
run("L unknown pair", lambda: Quantity(1, "dBm").to("V"))
run("L unknown pair2", lambda: Quantity(1, "dBV").to("dBm"))
run("L B->m", lambda: Quantity(1, "dB").to("m"))
run("L compound", lambda: Quantity(1, "dB*m*s").to("PR*m*s"))
run("L compound3", lambda: Quantity(1, "dB*m*s*g").to("PR"))
run("L negative ratio", lambda: Quantity(-1, "PR").to("dB"))
run("L zero ratio", lambda: Quantity(0, "PR").to("dB"))
run("L Decimal", lambda: Quantity(Decimal("3"), "B").to("dB"))

# 7. addition / subtraction of levels (power sum)
LEVELS = [("dB", 10, 10), ("dB", 3, 7.5), ("B", 1, 2), ("dBm", 20, 17), ("dBW", -3, 0),
          ("dBV", 60, 54), ("dBuV", 12, 3), ("dBA", 5, 4), ("dBSPL", 94, 90), ("dBSIL", 50, 49),
          ("dBSWL", 80, 70), ("dBOhm", 9, 1), ("dBmW", 2, 1), ("Np", 2, 1), ("cNp", 20, 10)]
for u, a, b in LEVELS:
    run(f"A {a}+{b} {u}", lambda: Quantity(a, u) + Quantity(b, u))
    run(f"S {a}-{b} {u}", lambda: Quantity(a, u) - Quantity(b, u))
    run(f"S {b}-{a} {u}", lambda: Quantity(b, u) - Quantity(a, u))
    run(f"Aerr {u}", lambda: Quantity(a, u, abse=0.5) + Quantity(b, u, abse=0.25))
    run(f"Serr {u}", lambda: Quantity(a, u, abse=0.5) - Quantity(b, u))
    run(f"Aerr2 {u}", lambda: Quantity(a, u) + Quantity(b, u, abse=0.25))
    run(f"Aarr {u}", lambda: Quantity([a, a + 1.0], u) + Quantity([b, b - 1.0], u))
run("A dB+B", lambda: Quantity(10, "dB") + Quantity(1, "B"))
run("A B+dB", lambda: Quantity(1, "B") - Quantity(10, "dB"))
run("A dBm+dBW", lambda: Quantity(10, "dBm") + Quantity(1, "dBW"))
run("S dBm-dBW", lambda: Quantity(10, "dBm") - Quantity(1, "dBW"))
run("A dBm+dBV", lambda: Quantity(10, "dBm") + Quantity(1, "dBV"))
run("S dBm-dBV", lambda: Quantity(10, "dBm") - Quantity(1, "dBV"))
run("A dB+PR", lambda: Quantity(10, "dB") + Quantity(1, "PR"))
run("A dB+Np", lambda: Quantity(10, "dB") + Quantity(1, "Np"))
run("S dB-Np", lambda: Quantity(10, "dB") - Quantity(1, "Np"))
run("A dBm+W", lambda: Quantity(10, "dBm") + Quantity(1, "W"))
run("S W-dBm", lambda: Quantity(10, "W") - Quantity(1, "dBm"))
run("A dB+number", lambda: Quantity(10, "dB") + 3)
run("A number+dB", lambda: 3 + Quantity(10, "dB"))
run("S number-dB", lambda: 30 - Quantity(10, "dB"))
run("A dB+m", lambda: Quantity(10, "dB") + Quantity(1, "m"))
run("A dB*m+dB", lambda: Quantity(10, "dB*m*s*g") + Quantity(1, "dB"))

# 8. standard (non log / non temperature) operations through the same dispatch
run("std add", lambda: Quantity(1, "m") + Quantity(20, "cm"))
run("std sub", lambda: Quantity(1, "km") - Quantity(20, "m"))
run("std add err", lambda: Quantity(1, "m", abse=0.1) + Quantity(20, "cm", abse=2))
run("std sub err", lambda: Quantity(1, "m") - Quantity(20, "cm", abse=2))
run("std add bad", lambda: Quantity(1, "m") + Quantity(20, "s"))
run("std sub bad", lambda: Quantity(1, "m") - Quantity(20, "s"))
run("std add inv", lambda: Quantity(1, "s") + Quantity(20, "Hz"))
run("std conv", lambda: Quantity(1, "km/h").to("m/s"))
run("std conv err", lambda: Quantity(1, "km", abse=0.01).to("m"))
run("std conv inv", lambda: Quantity(2, "s").to("Hz"))
run("std conv inv err", lambda: Quantity(2, "s", abse=0.1).to("Hz"))
run("std conv bad", lambda: Quantity(2, "s").to("m"))
run("std rad", lambda: Quantity(2).to("rad"))
run("std dec", lambda: Quantity(Decimal("2.5"), "km").to("m"))
run("std sin", lambda: np.sin(Quantity(30, "deg")))
run("eq", lambda: Quantity(1, "km") == Quantity(1000, "m"))
run("eq T", lambda: Quantity(0, "Cel") == Quantity(273.15, "K"))
run("eq L", lambda: Quantity(10, "dB") == Quantity(1, "B"))

# 9. direct use of the unit type classes and Magnitude arithmetic
def utype(cls, a, b):
    c = cls(BaseUnits(a), BaseUnits(b))
    return None if c is None else [type(c).__name__, list(c.conversion)]
for cls in (TemperatureUnitType, LogarithmicUnitType, StandardUnitType):
    for a, b in [("K","Cel"),("Cel","Cel"),("K","K"),("dB","PR"),("dBm","W"),("dBV","dBm"),
                 ("m","cm"),("s","Hz"),("m","s"),(None,"rad"),("Cel*m","K"),("dB*m*s*g","PR"),
                 ("dB/m","PR/m")]:
        run(f"U {cls.__name__} {a} {b}", lambda: utype(cls, a, b))
def direct(cls, a, b, m):
    return cls(BaseUnits(a), BaseUnits(b)).convert(m)
run("U conv K Cel", lambda: direct(TemperatureUnitType, "K", "Cel", Magnitude(300.0, 2)))
run("U conv dB PR", lambda: direct(LogarithmicUnitType, "dB", "PR", Magnitude(30.0)))
run("U conv dec", lambda: direct(StandardUnitType, "km", "m", Magnitude(Decimal("1.5"))))
run("U conv missing", lambda: direct(LogarithmicUnitType, "dBV", "dBm", Magnitude(1.0)))
for a, b in [(Magnitude(1.0), Magnitude(2.0)), (Magnitude(1.0, 0.1), Magnitude(2.0)),
             (Magnitude(1.0), Magnitude(2.0, 0.2)), (Magnitude(1.0, 0.1), Magnitude(2.0, 0.2)),
             (Magnitude(Decimal("1.5")), Magnitude(2.0)), (Magnitude([1.0, 2.0], 0.1), Magnitude([3.0, 4.0]))]:
    run(f"M add {a} {b}", lambda: a + b)
    run(f"M sub {a} {b}", lambda: a - b)
    run(f"M radd {a}", lambda: 3 + a)
    run(f"M rsub {a}", lambda: 3 - a)

# 10. custom unit environment goes through the same dispatch
def env():
    with UnitEnvironment({"xx": {"magnitude": 2.0, "dimensions": [1,0,0,0,0,0,0,0]}}):
        return [Quantity(3, "xx").to("m"), Quantity(1, "xx") + Quantity(1, "m")]
run("env", env)
run("after env", lambda: Quantity(3, "xx"))

print(json.dumps(results))
'''


def probe(root):
    root = os.path.abspath(root)
    env = dict(os.environ)
    env.pop("PYTHONPATH", None)
    proc = subprocess.run([sys.executable, "-c", PROBE, root], capture_output=True,
                          text=True, env=env, cwd="/")
    if proc.returncode != 0:
        sys.stderr.write(proc.stderr)
        raise SystemExit(2)
    return json.loads(proc.stdout.strip().splitlines()[-1])


def main():
    base, new = sys.argv[1], sys.argv[2]
    r1, r2 = probe(base), probe(new)
    bad = 0
    if len(r1) != len(r2):
        print("different number of results", len(r1), len(r2))
        bad += 1
    for (l1, o1), (l2, o2) in zip(r1, r2):
        if l1 != l2 or o1 != o2:
            bad += 1
            print("DIFF", l1, o1, "!=", l2, o2)
    nexc = sum(1 for _, o in r1 if "exc" in o)
    print(f"{len(r1)} probes ({nexc} raising), {bad} differences")
    sys.exit(0 if bad == 0 else 1)


if __name__ == "__main__":
    main()
