#!/usr/bin/env python
"""Differential test: argv[1] = clean tree, argv[2] = changed tree.
Runs the same DIP inputs (tables, imports, scalar/array casts) in one subprocess per tree and
compares the printed results (values, types, exception class names). Exit 0 if identical, else 1."""
import sys, os, subprocess

RUNNER = r'''
import sys, os
root = sys.argv[1]
BLOCKS = sys.argv[2]   # data files (identical in both trees), absolute path
sys.path.insert(0, os.path.join(root, 'src'))
os.chdir(os.path.join(root, 'tests', 'dip'))
import numpy as np
from scinumtools.dip import DIP
from scinumtools.dip.settings import Format, EnvType
from scinumtools.dip.nodes.node_base import BaseNode
from scinumtools.dip.nodes import BooleanNode, IntegerNode, FloatNode, StringNode
from scinumtools.dip.datatypes import FloatType, IntegerType, BooleanType, StringType
import scinumtools, inspect
assert inspect.getfile(scinumtools).startswith(root), inspect.getfile(scinumtools)

def show(v):
    if isinstance(v, dict):
        return '{' + ', '.join(f'{k!r}: {show(x)}' for k, x in v.items()) + '}'
    if isinstance(v, (list, tuple)):
        return type(v).__name__ + '[' + ', '.join(show(x) for x in v) + ']'
    if isinstance(v, np.ndarray):
        return f'ndarray<{v.dtype}>{v.tolist()!r}'
    if hasattr(v, 'value') and hasattr(v, 'unit'):
        return f'{type(v).__name__}({show(v.value)}, unit={v.unit!r})'
    if hasattr(v, 'value'):
        return f'{type(v).__name__}({show(v.value)})'
    return f'{type(v).__name__}:{v!r}'

def parse(code, docs=False):
    with DIP(docs=True) if docs else DIP() as p:
        p.add_string(code)
        env = p.parse()
        out = env.data(verbose=False, format=Format.TYPE)
        names = [(n.name, n.keyword, n.indent, str(n.dimension)) for n in env.nodes.query('*')]
        return show(out) + ' || ' + repr(names)

CODES = [c.replace('blocks/', BLOCKS + '/') for c in [
# --- tables
'outputs table = """\ntime float s\nsnapshot int\nintensity float W/m2\n\n0.234 0 2.34\n1.355 1 9.4\n2.535 2 3.4\n  """ # c\n',
'outputs table = """\nname str\nnumbers int[3]\n\n"John Smith" [2,3,4]\n"Jennyfer Milton" [5,6,7]\n  """\n',
'grp\n  t table = """\na bool\nb int32\nc str\n\ntrue 1 x\nfalse 2 "y z"\n"""\n',
't table = """\na int\nb int\n\n1 2 3\n"""\n',              # too many columns
't table = """\na int\nb int\n\n1\n"""\n',                  # too few columns
't table = """\na int\nb table\n\n1 2\n"""\n',              # wrong header keyword
't table = """\na int = 3\n\n1\n"""\n',                     # header not empty
't table = """\na int\n1 2\n"""\n',                         # missing empty line
't table = """\na float cm\n\n"""\n',                       # no rows
't table = """\na float\nb int\n\n  1.5   2  \n\n 2.5 3\n"""\n',  # whitespace/blank rows
't table = """\na float\n\nxyz\n"""\n',                     # bad cast
't table = """\na int[2]\n\nnotjson\n"""\n',                # bad json
'$source table = blocks/table.txt\n$source query = blocks/query.dip\nblocks\n  table1 table = {table}\n  table2 table = {query?table}\n',
# --- imports
'$source nodes = blocks/nodes.dip\n\n{nodes?*}\nbox\n  {nodes?*}\nbasket.bag {nodes?*}\n',
'$source nodes = blocks/nodes.dip\nbag {nodes?*}\nbowl\n  {nodes?fruits}\n  {nodes?vegies.potato}\nplate {nodes?vegies.*}\n',
'icecream\n  waffle str = "standard"\n  scoops\n    strawberry int = 1 #c\n    chocolate int = 2\n\nbowl\n  {?icecream.scoops.*}\nplate {?icecream.waffle}\n',
'{nodes?*}\n',                                              # unknown source
'a.b.c {missing?x}\n',
'{?foo}\n',                                                 # no local nodes
'x int = 1\n{?nothing}\n',
'$source nodes = blocks/nodes.dip\n{nodes}\n',
# --- scalar / array casts
'a bool = true\nb bool = false\nc int = 3\nd float = 4.5e3 cm\ne str = abc\nf int = none\ng float = none m\nh str = none\ni bool = none\n',
'a bool = maybe\n',
'a int = 4.5\n',
'a float = abc\n',
'a int[3] = [1,2,3]\nb float[2,2] = [[1,2],[3,4]] m\nc str[2] = ["a","b"]\nd bool[2] = [true,false]\n',
'a int[3] = [1,2]\n',
'a int[:2] = [1,2,3]\n',
'a int[2:] = [1,2,3]\nb int[:] = [4]\nc int[1:,3] = """\n[[42,34,35],\n [23,34,64]]\n""" km/s\n',
'a int[3] = [1,2,3]\nb int = {?a}[1]\nc int[2] = {?a}[0:2]\nd int = {?a}[0:2]\n',
'a int[2] = none\n',
'a int16 = 3\nb uint16 = 7\nc float32 = 1.5\nc2 uint64 = 2399495729\nd int = 3\nd = 5\ne float = 1 m\ne = 20 cm\n',
'a int = 3\na = none\nb bool = true\nb = false\nc bool = true\nc = xx\n',
'size1 float = 34 cm\nsize2 float = {?size1} m\nsize3 float = {?size2}\nsize1 = {?size2}\n',
'a float = 3\nb int = {?a}\nc int = 2\nd float = {?c}\ne bool = true\nf bool = {?e}\n',
'a int = ("2+3")\nb float = ("2.5*2") m\nc bool = ("true || false")\n',
]]

for i, code in enumerate(CODES):
    for docs in (False, True):
        try:
            print(i, docs, 'OK', parse(code, docs))
        except BaseException as e:
            print(i, docs, 'EXC', type(e).__name__, repr(e.args)[:300])

# direct cast_value calls on nodes (public method of the node classes)
def mk(cls, **kw):
    base = dict(code='x', source=None, name='x', keyword=cls.keyword, value_raw=None, dimension=[], value_slice=None)
    if cls is IntegerNode: base['dtype_prop'] = ['', '']
    if cls is FloatNode: base['dtype_prop'] = ['']
    base.update(kw)
    return cls(**base)

CASTS = [
    (BooleanNode, {}, True), (BooleanNode, {}, np.bool_(False)), (BooleanNode, {}, BooleanType(True)),
    (BooleanNode, {}, 'true'), (BooleanNode, {}, 'false'), (BooleanNode, {}, 'x'), (BooleanNode, {}, 1),
    (BooleanNode, {}, 'none'), (BooleanNode, {}, None),
    (IntegerNode, {}, '3'), (IntegerNode, {}, 3.7), (IntegerNode, {}, FloatType(3.0, 'm')), (IntegerNode, {}, IntegerType(3, 'm')),
    (IntegerNode, {}, 'a'), (IntegerNode, {}, [1, 2]), (IntegerNode, {}, 'none'),
    (FloatNode, {}, IntegerType(3, 'm')), (FloatNode, {}, FloatType(3.5)), (FloatNode, {}, '1e3'), (FloatNode, {}, 'q'),
    (StringNode, {}, 'abc'), (StringNode, {}, 5), (StringNode, {}, ''),
    (IntegerNode, {'dimension': [(2, 2)]}, '[1,2]'), (IntegerNode, {'dimension': [(2, 2)]}, [1, 2]),
    (IntegerNode, {'dimension': [(2, 2)]}, [1, 2, 3]), (IntegerNode, {'dimension': [(3, None)]}, [1, 2]),
    (IntegerNode, {'dimension': [(None, 1)]}, [1, 2]), (IntegerNode, {'dimension': [(None, None)]}, []),
    (IntegerNode, {'dimension': [(2, 2)]}, 'bad'), (IntegerNode, {'dimension': [(2, 2)]}, 5),
    (IntegerNode, {'dimension': [(1, 1), (2, 2)]}, [[1, 2]]), (IntegerNode, {'dimension': [(1, 1), (2, 2)]}, [1]),
    (FloatNode, {'value_slice': [(1, 1)]}, [1, 2, 3]), (FloatNode, {'value_slice': [(0, 2)]}, [1, 2, 3]),
    (FloatNode, {'value_slice': [(0, 2)], 'dimension': [(2, 2)]}, '[1,2,3]'),
    (FloatNode, {'value_slice': [(0, 2)], 'dimension': [(3, 3)]}, '[1,2,3]'),
    (StringNode, {'dimension': [(2, 2)]}, '["a","b"]'), (BooleanNode, {'dimension': [(2, 2)]}, [True, False]),
    (IntegerNode, {'dimension': [(2, 2)]}, 'none'), (IntegerNode, {'dimension': [(2, 2)]}, None),
]
for i, (cls, kw, val) in enumerate(CASTS):
    try:
        n = mk(cls, **kw)
        print('cast', i, 'OK', show(n.cast_value(val)))
    except BaseException as e:
        print('cast', i, 'EXC', type(e).__name__, repr(e.args)[:300])

# cast_value() without argument: uses self.value / self.value_raw
for i, (cls, kw) in enumerate([
    (IntegerNode, {'value_raw': '7'}), (IntegerNode, {'value_raw': 'none'}), (IntegerNode, {'value_raw': None}),
    (FloatNode, {'value_raw': '[1,2]', 'dimension': [(2, 2)]}), (BooleanNode, {'value_raw': 'true'}),
    (StringNode, {'value_raw': ''}),
]):
    try:
        n = mk(cls, **kw)
        r1 = n.cast_value()
        n.set_value()
        r2 = n.cast_value()
        n.value = [1, 2] if n.dimension else 5
        r3 = n.cast_value()
        print('self', i, 'OK', show(r1), show(r2), show(r3))
    except BaseException as e:
        print('self', i, 'EXC', type(e).__name__, repr(e.args)[:300])
'''

def run(root, blocks):
    root = os.path.abspath(root)
    p = subprocess.run([sys.executable, '-W', 'ignore', '-c', RUNNER, root, blocks], capture_output=True, text=True)
    return p.returncode, p.stdout, p.stderr

def main():
    blocks = os.path.join(os.path.abspath(sys.argv[1]), 'tests', 'dip', 'blocks')
    a = run(sys.argv[1], blocks); b = run(sys.argv[2], blocks)
    if a[0] != 0 or b[0] != 0:
        print('runner failed', a[0], a[2][-2000:], b[0], b[2][-2000:]); sys.exit(1)
    la, lb = a[1].splitlines(), b[1].splitlines()
    if len(la) < 12:
        print('too few results'); sys.exit(1)
    if la != lb:
        for x, y in zip(la, lb):
            if x != y:
                print('DIFF\n ', x, '\n ', y)
        print('lengths', len(la), len(lb)); sys.exit(1)
    nexc = sum(' EXC ' in l for l in la)
    print(f'identical: {len(la)} results ({nexc} exceptions)')
    sys.exit(0)

if __name__ == '__main__':
    main()
