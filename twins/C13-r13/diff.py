"""Differential check for property C13 (DIP node paths follow indentation, values are literals written).

usage: diff.py <unmodified tree root> <refactored tree root>
Runs the same DIP inputs against both trees (each in its own subprocess with its own
sys.path) and exits 0 iff every observable (node order, paths, keyword, dtype props,
dimension, value, unit, indent, raised exception type) is identical.
"""
import sys, os, json, subprocess

WORKER = r'''
import sys, json
root = sys.argv[1]
sys.path.insert(0, root + '/src')
import numpy as np
from scinumtools.dip import DIP
from scinumtools.dip.settings import Format

INPUTS = json.loads(sys.stdin.read())

def plain(v):
    if isinstance(v, np.ndarray):
        return ['ndarray', v.tolist()]
    if isinstance(v, (np.generic,)):
        return [type(v).__name__, v.item()]
    if isinstance(v, (list, tuple)):
        return [plain(x) for x in v]
    return [type(v).__name__, v] if not isinstance(v, (str, int, float, bool, type(None))) or isinstance(v, bool) else [type(v).__name__, v]

def run(code):
    try:
        with DIP() as p:
            p.add_string(code)
            env = p.parse()
        out = []
        for node in env.nodes:
            val = node.value
            out.append(dict(
                name=node.name,
                cls=type(node).__name__,
                keyword=node.keyword,
                dtype_prop=[str(x) for x in node.dtype_prop],
                precision=str(getattr(node, 'precision', None)),
                unsigned=str(getattr(node, 'unsigned', None)),
                vprecision=str(getattr(val, 'precision', None)),
                vunsigned=str(getattr(val, 'unsigned', None)),
                dimension=repr(node.dimension),
                indent=node.indent,
                vtype=type(val).__name__,
                value=repr(plain(getattr(val, 'value', val))),
                unit=repr(getattr(val, 'unit', None)),
                units_raw=repr(node.units_raw),
                value_raw=repr(node.value_raw),
                defined=node.defined,
                code=node.code,
                source=repr(node.source[1]),
            ))
        data = env.data(format=Format.TUPLE)
        return dict(ok=True, nodes=out, keys=list(data.keys()), data=repr({k: plain(v) for k, v in data.items()}),
                    parents=[(q.indent, q.name) for q in env.hierarchy.parents])
    except BaseException as e:
        return dict(ok=False, exc=type(e).__name__, nargs=len(e.args))

print(json.dumps([run(c) for c in INPUTS]))
'''

INPUTS = [
# 1 flat scalars of every type with units, suffixes
'''
adult bool = true
child bool = false
age int = 20 yr
big uint64 = 18446744073709551615
small int16 = -12
weight float = 63.3 kg
half float32 = 0.5
quad float128 = 1.5e3 cm
name str = 'Laura'
nothing float = none
''',
# 2 nested tree with 2-space indentation
'''
box
  width float = 2.5 m
  height float = 3 m
  lid
    colour str = red
    open bool = false
  depth float = 1e-2 km
sphere
  radius float = 1 cm
''',
# 3 same tree, mixed indentation widths, comments and blank lines
'''
# leading comment
box         # group comment

      width float = 2.5 m   # width
      height float = 3 m
      lid
         # inner comment
         colour str = red

         open bool = false
      depth float = 1e-2 km
sphere
 radius float = 1 cm
''',
# 4 dotted names and dotted group lines
'''
a.b
    c.d int = 1
    e
        f.g.h float = 2.
    i int = 3
a.j str = "x y"
k-l_M.n9 bool = true
''',
# 5 float notations and integer signs
'''
f1 float = 1
f2 float = -1.
f3 float = .5
f4 float = 1e3
f5 float = 1.5E-3
f6 float = +2.25e+2
f7 float = 6.022e23 mol-1
i1 int = -0
i2 int = +7
i3 int = 007
''',
# 6 strings: bare, quoted, escaped, hash, braces, empty
'''
country str = Canada              # bare
name str = "Johannes Brahms"      # quoted
girl_friend str = "\\"l'amie\\""
boy_friend str = '"l\\'ami"'
hashtag str = '#nocomment'        # comment
anticommutator str = '{a,b}'
empty str = ""
nn str = none
''',
# 7 inline arrays of all types, ranges
'''
counts int[3] = [4234,34,2]
lengths float[2:,2] = [[4234,34],[234,34]] cm
colleagues str[:] = ["John","Patricia","Lena"]
logic bool[2] = [true,false]
spaced int[:3] = "[0, 1, 2]"
answers bool[1:] = "[true, false]"
names str[2] = '["Jolana", "Anastasia"]'
''',
# 8 block array and block text inside a group
'''
grid
    matrix float[2,3] = """
[[1,2,3],
 [4,5,6]]
    """ mm
    text str = """
   tripple qotes # ' "
block of text
"""
    after int = 5
''',
# 9 tables (scalar and array columns), nested in a group
'''
run
  outputs table = """
time float s
snapshot int
intensity float32 W/m2
flag bool

0.234 0 2.34 true
1.355 1 9.4 false
2.535 2 3.4 true
  """  # endquotes can be indented
  people table = """
name str
numbers int[3]

"John Smith" [2,3,4]
"Jennyfer Milton" [5,6,7]
"""
  tail int = 1
''',
# 10 declarations, later definitions and modifications; order of first appearance
'''
cash bool
weight float kg
g
   x int = 1
   y int = 2
cash = true
weight = 77
g.x = 5
g
   y = 9
   z int = 3
''',
# 11 dedent over several levels and siblings after deep nesting
'''
l1
 l2
  l3
   l4
    deep int = 4
  back2 int = 2
 back1 int = 1
root int = 0
l1.l2.other str = q
''',
# 12 errors: bad name
'wrong$name int = 3',
# 13 errors: unknown type
'a complex = 3',
# 14 errors: unit on boolean / string
'age bool = true a',
'name str = Johannes Brahms',
# 16 errors: dimension mismatch, array to scalar, undefined declaration
'counts int[2] = [4234,34,2]',
'counts int[2,3:] = [[234,4234],[234,34]]',
'counts int = [[234,4234],[234,34]]',
'counts int',
# 20 errors: table header format / column count / missing blank line / unterminated block
'''
t table = """
a int
b float =

1 2
"""
''',
'''
t table = """
a int
b float

1 2 3
"""
''',
'''
t table = """
a int
b table

1 2
"""
''',
'''
t str = """
never closed
''',
# 24 error: value missing, bad boolean, bad int
'x int = ',
'b bool = maybe',
'i int = 1.5x',
# 27 table with a single column and blank trailing rows; table declared only
'''
t table = """
v float km

1
2.5

"""
u int = 2
''',
# 28 name-with-dimension-like suffix / name directly followed by non-space
'a[2] int = 1',
# 29 value forms: reference-looking / function / expression heads that are absent
'''
a int = 5
b int = {?a}
c float = {?a}
d str = {?a}
''',
'''
a float = ("1 + 2 * 3")
b bool = ("true || false")
s str = ("text")
c float = ("{?a} * 10 m") cm
''',
# 31 tabs and trailing whitespace
"g\n\tx int = 1   \n\ty int = 2\t\n",
# 32 options/constant property lines after nodes (do not create parameters)
'''
g
  a int = 2
    !options [1,2,3]
  b str = x
    !constant
  c float = 2 m
    = 2 m
    = 300 cm
''',
# 33 table with header only (no rows), followed by sibling; table after deep nesting
'''
a
  b
    t table = """
x int m
y str

"""
  c int = 1
t2 table = """
p uint16 s
q float64[2] kg
r bool

1 [1.5,2] true
2 [3,4e1] false
"""
'''
,
# 34 table whose header uses an invalid column name / missing type
'''
t table = """
x$ int

1
"""
''',
'''
t table = """
x

1
"""
''',
# 36 value heads: undefined function, quotes inside quotes, comment glued to value, two quoted chunks
'a int = (myfn)',
'''
g
  s1 str = 'say "hi"'   # c
  s2 str = "it's"#glued
  s3 str = "a" # and "b"
  s4 str = 'x' 'y'
  v int = 3#glued
  w float = 2.5e0 m#glued
''',
'''
g
  a int[2] = [1,2]
  b int = {?g.a}[1]
  c int[1] = {?g.a}[0:1]
''',
]

def run(root):
    r = subprocess.run([sys.executable, '-c', WORKER, root], input=json.dumps(INPUTS),
                       capture_output=True, text=True, cwd='/tmp')
    if r.returncode != 0:
        print('worker failed for', root, r.stderr[-2000:])
        sys.exit(2)
    return json.loads(r.stdout.strip().splitlines()[-1])

def main():
    base, new = os.path.abspath(sys.argv[1]), os.path.abspath(sys.argv[2])
    a, b = run(base), run(new)
    assert len(a) == len(b) == len(INPUTS) and len(INPUTS) >= 12
    bad = 0
    nok = sum(1 for x in a if x['ok'])
    for i, (x, y) in enumerate(zip(a, b)):
        if x != y:
            bad += 1
            print(f'DIFF input #{i+1}:\n  base={x}\n  new ={y}')
    print(f'{len(INPUTS)} inputs ({nok} parsed, {len(INPUTS)-nok} raised on base), {bad} differences')
    sys.exit(1 if bad else 0)

if __name__ == '__main__':
    main()
