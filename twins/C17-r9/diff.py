#!/usr/bin/env python
"""Differential check for property C17 (references deliver the referenced node's value and unit).

usage: diff.py <unmodified tree root> <refactored tree root>
Runs the same DIP programs against both trees (each in its own subprocess with its own
sys.path) and exits 0 iff all observable outputs are identical.
"""
import json
import os
import subprocess
import sys
import tempfile

WORKER = r'''
import sys, os, json
root, workdir = sys.argv[1], sys.argv[2]
sys.path.insert(0, os.path.join(root, 'src'))
import numpy as np
import scinumtools
assert os.path.realpath(scinumtools.__file__).startswith(os.path.realpath(root) + os.sep), scinumtools.__file__
from scinumtools.dip import DIP
from scinumtools.dip.settings import Format
from scinumtools.dip.datatypes import NumberType, Type

os.chdir(workdir)

REMOTE = """
energy float = 13 J
count int = 7
flag bool = true
label str = 'remote text'
vec float[4] = [1,2,3,4] km
tree
  leaf1 int = 1 m
    !options [1,2,3] m
  leaf2 float = 2.5 s
    !condition ('{?} > 1 s')
  sub
    deep str = 'x'
      !constant
"""
with open(os.path.join(workdir, 'remote.dip'), 'w') as f:
    f.write(REMOTE)
with open(os.path.join(workdir, 'matrix.txt'), 'w') as f:
    f.write("[[1,2,3],[4,5,6]]")
with open(os.path.join(workdir, 'text.txt'), 'w') as f:
    f.write("some block\ntext here\n")

def jsonable(v):
    if isinstance(v, np.ndarray):
        return ['ndarray', str(v.dtype), v.tolist()]
    if isinstance(v, np.generic):
        return [type(v).__name__, v.item()]
    if isinstance(v, (list, tuple)):
        return [jsonable(x) for x in v]
    if isinstance(v, (str, int, float, bool)) or v is None:
        return [type(v).__name__, v]
    return [type(v).__name__, repr(v)]

def dump_env(env):
    out = []
    for node in env.nodes:
        val = node.value
        rec = dict(
            name=node.name,
            cls=type(node).__name__,
            keyword=node.keyword,
            indent=node.indent,
            vtype=type(val).__name__,
            value=jsonable(val.value) if isinstance(val, Type) else jsonable(val),
            unit=getattr(val, 'unit', None) if isinstance(val, NumberType) else None,
            units_raw=node.units_raw,
            value_raw=jsonable(node.value_raw),
            constant=node.constant,
            condition=node.condition,
            options=repr(getattr(node, 'options', None)),
            tags=repr(getattr(node, 'tags', None)),
            defined=node.defined,
            strnode=str(node),
        )
        out.append(rec)
    units = {str(k): {kk: (list(vv) if isinstance(vv, (list, tuple)) else vv) for kk, vv in v.items()} for k, v in env.units.items()}
    units = json.loads(json.dumps(units, default=repr, sort_keys=True))
    return dict(nodes=out, units=units, data=jsonable(list(env.data(format=Format.TUPLE).items())))

def run(fn):
    try:
        return dict(ok=fn())
    except Exception as e:
        args = [a if isinstance(a, (str, int, float, bool, type(None))) else repr(a) for a in e.args]
        return dict(exc=type(e).__name__, args=args)

def fix(code):
    for fname in ('remote.dip', 'matrix.txt', 'text.txt'):
        code = code.replace('= ' + fname, '= ' + os.path.join(workdir, fname))
    return code

def simple(code):
    code = fix(code)
    def fn():
        with DIP(name='t') as p:
            p.add_string(code)
            return dump_env(p.parse())
    return fn

def on_base(base_code, code):
    base_code, code = fix(base_code), fix(code)
    def fn():
        with DIP(name='b') as p:
            p.add_string(base_code)
            env0 = p.parse()
        before = dump_env(env0)
        with DIP(env0, name='c') as p:
            p.add_string(code)
            env1 = p.parse()
        after_base = dump_env(env0)
        return dict(before=before, after_base=after_base, same=(before == after_base), new=dump_env(env1))
    return fn

def docs(code):
    code = fix(code)
    def fn():
        with DIP(name='d') as p:
            p.add_string(code)
            d = p.parse_docs()
        return sorted(n.name for n in d.env.nodes) if hasattr(d, 'env') else repr(type(d))
    return fn

CASES = {}
CASES['inject_local_units'] = simple("""
size1 float = 34 cm
size2 float = {?size1} m
size3 float = {?size2}
size1 = {?size2}
size4 float = {?size1} mm
""")
CASES['inject_after_modification'] = simple("""
a float = 1 km
b float = {?a}
a = 2500 m
c float = {?a}
d float = {?a} m
a = 3
e int = {?a}
""")
CASES['inject_types'] = simple("""
f bool = true
g bool = {?f}
s str = 'hello world'
t str = {?s}
i int = 42 kg
j int = {?i} g
k float = {?i}
l int = {?k} t
f = false
h bool = {?f}
""")
CASES['inject_slices'] = simple("""
sizes float[3] = [34,23.34,1e34] cm
mysize float[2] = {?sizes}[:2]
one float = {?sizes}[1] m
last float[1:] = {?sizes}[1:]
masses float[2,2] = [[34,23.34],[1,1e34]] g
mymass float[2] = {?masses}[:,1]
row float[2] = {?masses}[0] kg
small float[2,2] = [[3,4.6],[5,6]] g
irow int[2] = {?small}[:,0] kg
icell int = {?small}[0,1]
cell float = {?masses}[1,0]
""")
CASES['inject_slice_overflow_error'] = simple("""
masses float[2,2] = [[34,23.34],[1,1e34]] g
row int[2] = {?masses}[1] kg
""")
CASES['inject_slice_scalar_error'] = simple("""
sizes float[3] = [34,23.34,1e34] cm
mysize float = {?sizes}[:2]
""")
CASES['inject_none_selected'] = simple("""
a float = 1 m
b float = {?missing}
""")
CASES['inject_several_selected'] = simple("""
g
  a float = 1 m
  b float = 2 m
c float = {?g.*}
""")
CASES['inject_all_selected'] = simple("""
a float = 1 m
b float = 2 m
c float = {?*}
""")
CASES['inject_remote'] = simple("""
$source remote = remote.dip
energy float = 34 erg
energy float = {remote?energy}
energy = {remote?energy} eV
energy = {remote?energy}
n int = {remote?count}
fl bool = {remote?flag}
lb str = {remote?label}
v float[2] = {remote?vec}[1:3] m
leaf float = {remote?tree.leaf1} cm
""")
CASES['inject_remote_errors'] = simple("""
$source remote = remote.dip
x float = {remote?*}
""")
CASES['inject_remote_missing_source'] = simple("""
x float = {nosuch?energy}
""")
CASES['inject_block'] = simple("""
$source matrix = matrix.txt
$source text = text.txt
m int[2,3] = {matrix}
mf float[2,3] = {matrix} m
mrow int[3] = {matrix}[1]
t str = {text}
""")
CASES['inject_none_value'] = simple("""
a float = none m
b float = {?a}
c float = {?a} cm
s str = none
t str = {?s}
""")
CASES['inject_declared'] = simple("""
a float m
b float = {?a}
""")
CASES['import_local'] = simple("""
icecream
  waffle str = 'standard'
  scoops
    strawberry int = 1 kg
      !options [1,2] kg
    chocolate float = 2 g
      !condition ('{?} > 1 g')
    deep
      core bool = true
        !constant

bowl
  {?icecream.scoops.*}
plate {?icecream.waffle}
tray.inner {?icecream.scoops.deep.*}
""")
CASES['import_all_local'] = simple("""
a int = 1 m
g
  b float = 2 s
copy {?*}
""")
CASES['import_root_and_modify'] = simple("""
src
  a int = 1 m
  b float = 2 s
dst {?src.*}
dst.a = 5 cm
src.b = 3 ms
again {?src.*}
after {?dst.a}
""")
CASES['import_remote'] = simple("""
$source remote = remote.dip
{remote?*}
box
  {remote?tree.*}
one {remote?tree.sub.deep}
bag.inner {remote?energy}
""")
CASES['import_none_selected'] = simple("""
a int = 1
g {?nothing.*}
h {?nothing}
b int = 2
""")
CASES['import_remote_none_selected'] = simple("""
$source remote = remote.dip
g {remote?nothing.*}
b int = 2
""")
CASES['import_no_local_nodes'] = simple("""
g {?a}
""")
CASES['import_constraints_enforced'] = simple("""
$source remote = remote.dip
box {remote?tree.*}
box.leaf1 = 7 m
""")
CASES['import_constant_enforced'] = simple("""
$source remote = remote.dip
box {remote?tree.sub.*}
box.deep = 'y'
""")
CASES['base_env_inject_import'] = on_base("""
$unit len = 2 m
w float = 3 [len]
g
  x int = 4 km
    !options [4,5] km
  y str = 'txt'
""", """
w2 float = {?w} m
w3 float = {?w}
x2 int = {?g.x} m
cp {?g.*}
cp.x = 5 km
g.y = 'changed'
w = 10 m
""")
CASES['base_env_remote'] = on_base("""
$source remote = remote.dip
q float = {remote?energy} erg
""", """
r float = {remote?energy}
q = {remote?energy}
u float = {remote?tree.leaf2} ms
s float = {?q}
t {remote?tree.*}
""")
CASES['docs_missing_source'] = docs("""
a float = 1 m
b float = {nosuch?x}
c float = {?a}
g {nosuch?*}
h {?a}
""")
CASES['unit_and_source_injection'] = simple("""
fac float = 2.5
$unit big = {?fac} km
d float = 2 [big]
e float = {?d} m
e2 float = {?d}
file str = remote.dip
$source remote = {?file}
{remote?count}
c2 int = {remote?count}
""".replace('str = remote.dip', 'str = ' + os.path.join(workdir, 'remote.dip')))
CASES['case_reference'] = simple("""
sim
  gravity bool = true
@case ("{?sim.gravity}")
  stars int = 30
@else
  stars int = 10
@end
n int = {?stars}
""")
CASES['expression_reference'] = simple("""
a float = 1 m
b float = 20 cm
c float = ("{?a} + {?b} + 10 m") cm
d float = {?c} m
""")

results = {name: run(fn) for name, fn in CASES.items()}
print("@@RESULT@@" + json.dumps(results, sort_keys=True, default=repr))
'''


def run_tree(root, workdir):
    env = dict(os.environ)
    env.pop('PYTHONPATH', None)
    env['PYTHONDONTWRITEBYTECODE'] = '1'
    proc = subprocess.run(
        [sys.executable, '-c', WORKER, root, workdir],
        capture_output=True, text=True, env=env, cwd=workdir,
    )
    if proc.returncode != 0:
        sys.stderr.write(proc.stderr)
        raise SystemExit(2)
    for line in proc.stdout.splitlines():
        if line.startswith('@@RESULT@@'):
            return json.loads(line[len('@@RESULT@@'):])
    sys.stderr.write(proc.stdout + proc.stderr)
    raise SystemExit(2)


def main():
    if len(sys.argv) != 3:
        print(__doc__)
        raise SystemExit(2)
    base = os.path.abspath(sys.argv[1])
    new = os.path.abspath(sys.argv[2])
    # the same work directory is used for both runs so that paths in outputs coincide
    with tempfile.TemporaryDirectory(prefix='c17diff_') as workdir:
        res_base = run_tree(base, workdir)
        res_new = run_tree(new, workdir)
    bad = 0
    for name in sorted(set(res_base) | set(res_new)):
        a, b = res_base.get(name), res_new.get(name)
        if a != b:
            bad += 1
            print(f"DIFF in case {name}:\n  base: {json.dumps(a, sort_keys=True)[:2000]}\n  new:  {json.dumps(b, sort_keys=True)[:2000]}")
    n_ok = sum(1 for r in res_base.values() if 'ok' in r)
    print(f"{len(res_base)} cases ({n_ok} ok, {len(res_base) - n_ok} raising in base); {bad} differing")
    raise SystemExit(1 if bad else 0)


if __name__ == '__main__':
    main()
