#!/venv/bin/python
"""Differential check for property C02 (a solver instance is unaffected by what it solved before).

usage: diff.py <unmodified tree root> <refactored tree root>

Each tree is exercised in its own subprocess (own sys.path).  The driver runs many
sequences of solve() calls on ONE solver instance (including calls that fail at various
token positions) for several solver configurations and records, for every call, either
the value (and units where present) or the raised exception type.  Exit 0 iff the
records of both trees are identical.
"""
import json
import subprocess
import sys

DRIVER = r'''
import sys, json, warnings
warnings.filterwarnings("ignore")
root = sys.argv[1]
sys.path.insert(0, root + "/src")
import numpy as np
from scinumtools.solver import *
from scinumtools.solver.tokens import Tokens
from scinumtools.solver.expression import Expression

def show(v):
    val = getattr(v, "value", v)
    out = {"type": type(v).__name__, "value": repr(val)}
    for name in ("baseunits", "units", "magnitude"):
        if hasattr(v, name):
            try:
                out[name] = repr(getattr(v, name))
            except Exception as e:
                out[name] = "ERR:" + type(e).__name__
    return out

def run_sequence(es, exprs):
    rec = []
    for e in exprs:
        try:
            r = es.solve(e)
            rec.append(["ok", show(r), len(es.tokens.left), len(es.tokens.right)])
        except BaseException as ex:
            rec.append(["err", type(ex).__name__])
    return rec

# ---- custom atoms ---------------------------------------------------------
class AtomVars(AtomBase):
    table = {"foo": 3.0, "bar": 4.0}
    def __init__(self, value):
        if isinstance(value, str):
            value = value.strip()
            if value in self.table:
                self.value = self.table[value]
            elif value == "boom":
                raise KeyError("atom constructor raising")
            else:
                self.value = float(value)
        else:
            self.value = value

class AtomStr(AtomBase):
    def __init__(self, value):
        if value == "bad":
            raise RuntimeError("bad atom")
        self.value = str(value)
    def __add__(self, other):
        return AtomStr(self.value + other.value)
    def __gt__(self, other):
        return AtomStr(len(self.value) > len(other.value))

class OperatorSquare(OperatorBase):
    symbol = "~"
    def operate_unary(self, tokens):
        right = tokens.get_right()
        tokens.put_left(right * right)

class OperatorCube(OperatorBase):
    symbol = "^"
    def operate_unary(self, tokens):
        left = tokens.get_left()
        tokens.put_left(left * left * left)

class OperatorWord(OperatorNot):
    symbol = "not"

results = {}

# 1-6: default configuration, AtomBase
default_sequences = {
    "plain": ["1 + 2", "2 * 3 ** 2", "-3 + 4", "10 / 4 - 1", "1 + 2"],
    "unknown_atom_then_ok": ["1 + 2", "1 + abc", "1 + 2", "abc", "4 * 5"],
    "unbalanced_then_ok": ["(1 + 2", "1 + 2", "sin(1 + (2", "2 * (3 + 4)", "((1)"],
    "missing_operand_then_ok": ["1 +", "1 + 2", "* 3", "3 * 3", "1 + * 2", "2 ** ", "7 - 2"],
    "functions_and_failures": ["sin(0) + cos(0)", "logb(8, 2)", "logb(8)", "logb(8, 2)", "pow(2, x)",
                               "pow(2, 3)", "exp(log(3))", "sqrt(16) + log10(100)", "tan(0)"],
    "logic": ["1 < 2 && 3 >= 3", "!1 || 0", "1 == 1 &&", "1 != 2", "!!1", "2 <= 1 || 2 > 1", "! ", "1 && 0"],
    "leftovers": ["1 2", "1 + 2", "(1)(2)", "3", "", "5", "   ", "4 - - 4", "2 + + 2", "--1"],
    "nested_fail": ["(1 + (2 * (3 + q)))", "(1 + (2 * (3 + 4)))", "exp((1", "exp(0)", "sin()", "sin(0)"],
}
for name, seq in default_sequences.items():
    es = ExpressionSolver(AtomBase)
    results["default/" + name] = run_sequence(es, seq)
    # context-manager form and Expression objects as input
    with ExpressionSolver(AtomBase) as es2:
        results["default_expr/" + name] = run_sequence(es2, [Expression(s) for s in seq])
    # every expression on a fresh instance (history free reference)
    results["fresh/" + name] = [run_sequence(ExpressionSolver(AtomBase), [s]) for s in seq]

# 7: custom atom type with a raising constructor
es = ExpressionSolver(AtomVars)
results["atomvars"] = run_sequence(es, [
    "foo < bar && foo * bar == 12", "foo * boom", "foo * bar", "boom", "sin(foo)", "sin(boom)",
    "foo*bar**(2-233)", "(foo + boom) * 2", "(foo + bar) * 2", "baz + 1", "bar - foo",
])

# 8: subset of operators
es = ExpressionSolver(AtomBase, {"gt": OperatorGt, "eq": OperatorEq})
results["subset"] = run_sequence(es, ["23 > 4", "20 == 20", "1 + 2", "3 > ", "5 > 4", "> 4", "4 == 4 == 1", "2 > 1"])
es = ExpressionSolver(AtomBase, {"log": OperatorLog})
results["subset_log"] = run_sequence(es, ["23 > 4", "log(1)", "log(1", "log(x)", "log(1)", "log(1) 2", "log(1)"])
es = ExpressionSolver(AtomBase, {"not": OperatorWord})
results["subset_not"] = run_sequence(es, ["not 1", "not", "not 0", "not not 0", "1 not", "not 1"])

# 9: string atoms with subset and custom steps
ops = {"add": OperatorAdd, "gt": OperatorGt}
steps = [dict(operators=["add"], otype=Otype.BINARY), dict(operators=["gt"], otype=Otype.BINARY)]
es = ExpressionSolver(AtomStr, ops, steps)
results["atomstr_steps"] = run_sequence(es, [
    "foo + bar", "limit + 100 km/s > limit + 50000000000 km/s", "foo + bad", "foo + bar", "foo +", "foo > ",
    "a + b + c > d", "bad", "x",
])
ops = {"add": OperatorAdd, "gt": OperatorGt, "par": OperatorPar}
steps = [dict(operators=["par"], otype=Otype.ARGS), dict(operators=["add"], otype=Otype.BINARY),
         dict(operators=["gt"], otype=Otype.BINARY)]
es = ExpressionSolver(AtomStr, ops, steps)
results["atomstr_par"] = run_sequence(es, [
    "(limit + 100 km/s) > (limit + 50000000000 km/s)", "(a + bad) > c", "(a + b) > c", "(a + b > c", "(a + b) > (c",
    "(a + b) > c", "((a) + (b))", "(a)(b)", "a",
])

# 10: custom operators and custom step order (including names missing from the operator table)
ops = {"square": OperatorSquare, "cube": OperatorCube, "add": OperatorAdd}
steps = [dict(operators=["square", "cube"], otype=Otype.UNARY), dict(operators=["add"], otype=Otype.BINARY),
         dict(operators=["mul", "nothing"], otype=Otype.BINARY)]
es = ExpressionSolver(AtomBase, ops, steps)
results["custom_ops"] = run_sequence(es, ["~3 + 2^", "~ + 2", "~3 + 2^", "^", "~", "~3 + x^", "2^ + ~2", "1 + 1"])

# 11: reversed / unusual step order on default operators
steps = [
    dict(operators=["par", "sin", "cos"], otype=Otype.ARGS),
    dict(operators=["add", "sub"], otype=Otype.BINARY),
    dict(operators=["mul", "truediv"], otype=Otype.BINARY),
    dict(operators=["pow"], otype=Otype.TERNARY),
]
es = ExpressionSolver(AtomBase, None, steps)
results["odd_steps"] = run_sequence(es, ["1 + 2 * 3", "2 * (1 + 2", "1 + 2 * 3", "2 ** 3", "2 * 3", "sin(0) * 4 + 1", "* 2", "6 / 3 - 1"])

# 12: unit solver and quantity expressions built on the expression solver
try:
    from scinumtools.units.unit_solver import AtomParser
    ops = {"par": OperatorPar, "mul": OperatorMul, "truediv": OperatorTruediv}
    es = ExpressionSolver(AtomParser, ops)
    results["units"] = run_sequence(es, ["kg*m2/s2", "kg*xyzq", "kg*m2/s2", "(m/s", "m/s", "km/(s*Mpc)", "m*", "cm3"])
    from scinumtools.units import Quantity
    rec = []
    for u in ["kg*m2/s2", "km/s", "J/(kg*K)", "m/(s", "nonsense1", "N*m"]:
        try:
            q = Quantity(2.5, u)
            rec.append(["ok", str(q), repr(q.baseunits)])
        except BaseException as ex:
            rec.append(["err", type(ex).__name__])
    results["quantity"] = rec
except ImportError as ex:
    results["units"] = ["import", type(ex).__name__]

# 13: Tokens container used directly
t = Tokens(AtomBase)
rec = []
for item in (AtomBase(1), OperatorAdd(), AtomBase(2), OperatorMul(), AtomBase(4)):
    t.append(item)
rec.append([repr(t.left), repr(t.right)])
t.operate((OperatorMul,), Otype.BINARY)
rec.append([repr(t.left), repr(t.right)])
t.operate((OperatorMul,), Otype.TERNARY)
rec.append([repr(t.left), repr(t.right)])
t.operate((OperatorAdd,), Otype.BINARY)
rec.append([repr(t.left), repr(t.right)])
rec.append([repr(t.get_left()), repr(t.get_right()), repr(t.get_right())])
t.append(OperatorMul())
try:
    t.operate((OperatorMul,), Otype.UNARY)
    rec.append("no error")
except BaseException as ex:
    rec.append(["err", type(ex).__name__, repr(t.left), repr(t.right)])
results["tokens_direct"] = rec

print(json.dumps(results, sort_keys=True))
'''


def run(root):
    proc = subprocess.run([sys.executable, "-c", DRIVER, root], capture_output=True, text=True, timeout=600)
    if proc.returncode != 0:
        return {"__driver_failed__": proc.returncode, "stderr": proc.stderr[-2000:]}
    return json.loads(proc.stdout.strip().splitlines()[-1])


def main():
    base, new = sys.argv[1], sys.argv[2]
    a, b = run(base), run(new)
    if "__driver_failed__" in a or "__driver_failed__" in b:
        print("driver failed", a.get("stderr"), b.get("stderr"))
        return 2
    bad = [k for k in sorted(set(a) | set(b)) if a.get(k) != b.get(k)]
    ncalls = sum(len(v) for v in a.values())
    if bad:
        for k in bad:
            print("DIFF", k)
            print("  base:", a.get(k))
            print("  new :", b.get(k))
        return 1
    print(f"identical: {len(a)} groups, {ncalls} records")
    return 0


if __name__ == "__main__":
    sys.exit(main())
