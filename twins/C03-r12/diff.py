#!/venv/bin/python
"""Differential check for property C03 (unit expression = product of table entries).

usage: diff.py <unmodified tree root> <refactored tree root>
Runs the same probe set against both trees (each in its own subprocess with its
own sys.path) and exits 0 iff every observable output is identical.
"""
import json
import subprocess
import sys

PROBE = r'''
import sys, json, warnings
warnings.filterwarnings("ignore")
sys.path.insert(0, sys.argv[1] + "/src")
from scinumtools.units import Quantity, Unit, BaseUnits, UnitSolver, Fraction, Dimensions
from scinumtools.units.unit_solver import AtomParser
from scinumtools.units.base_units import get_unit_base
from scinumtools.units.settings import UNIT_STANDARD, UNIT_PREFIXES

EXPRS = [
    "m", "km", "kg", "g", "mg", "s", "ms", "K", "C", "cd", "mol", "rad",
    "kg*m2/s2", "kg*m2*s-2", "m/s", "km/h", "cm-1", "m1:2", "m-3:2", "km2:3",
    "kg*m2/(s2*A)", "(kg*m/s2)/(m2)", "((m))", "(m/s)2", "J/(mol*K)", "N*m",
    "2*m", "1000*g", "0.5*kg/m3", "1e3*m", "1.5e-3*s", "m*3", "m/2",
    "eV", "keV", "MeV", "erg", "dyn", "Pa", "hPa", "bar", "mbar", "atm",
    "[c]", "[h]", "[e]", "[k]", "[G]", "[c]2", "[h]/[c]", "[m_e]*[c]2",
    "Hz", "GHz", "W", "kW", "V", "mV", "Ohm", "kOhm", "T", "mT", "G", "uG",
    "deg", "'", "''", "sr", "au", "AU", "pc", "kpc", "ly", "l", "ml", "dal", "dam",
    "min", "h", "day", "yr", "kyr", "Cel", "degF", "degR", "dB", "Np", "%", "ppm",
    "cm3", "cm-3", "g/cm3", "kg/m3", "m2:4", "m4:2", "m0", "m*m-1", "m/m", "s*s",
    "Ym", "ym", "um", "dam2", "hm", "Em", "Pm", "Tm", "Zm", "zm", "am", "fm", "pm", "nm", "dm",
    "#m", "#s2", "#g*#m/#s2", "#SADO", "#CACC2", "#SACT*#SAOS", "#SDVI/#CDVI", "#AACT-1:2", "k#SADO", "#SADOx",
    # rejected
    "xyz", "qm", "km/xx", "kmin", "mday", "k[c]", "kdeg", "ddal", "mAU",
    "$m", "k$m", "m$", "_kg", "kkg", " m", "m ", "k m", "m**2", "m^2", "m2.5",
    "(m", "m)", "m//s", "*m", "m*", "", "()", "m:2", "m1:0", "m1:2:3", "1:2", "m--2", "m+2", "m+-2",
    "e3", "1e", "1.2.3", "-m", "-2*m", "kg m", "m,s",
]

def rec_exc(e):
    return {"exc": type(e).__name__}

def frac(f):
    return [type(f).__name__, getattr(f, "num", None), getattr(f, "den", None), str(f)]

def atom(a):
    return {"mag": repr(a.magnitude), "bu": [[k, frac(v)] for k, v in a.baseunits.items()], "str": str(a)}

def bu(b):
    return {"mag": repr(b.magnitude), "dim": b.dimensions.value(), "dimstr": str(b.dimensions),
            "units": b.units, "expr": b.expression, "nodim": b.nodim, "nobase": b.nobase,
            "str": str(b), "val": [[k, repr(v)] for k, v in b.value().items()]}

out = {}
def run(key, fn):
    try:
        out[key] = fn()
    except BaseException as e:
        out[key] = rec_exc(e)

for x in EXPRS:
    run("solve|" + x, lambda: atom(UnitSolver(x)))
    run("parse|" + x, lambda: atom(AtomParser(x)))
    run("base|" + x, lambda: bu(BaseUnits(x)))
    def q():
        v = Quantity(1, x)
        s = v.units()
        r = {"mag": repr(v.magnitude), "units": s, "str": str(v), "bu": bu(v.baseunits)}
        w = Quantity(1, s) if s else Quantity(1)
        r["rt"] = {"mag": repr(w.magnitude), "units": w.units(), "eq": bool(w.baseunits == v.baseunits)}
        return r
    run("quant|" + x, q)
    run("unit|" + x, lambda: str(Unit(x)))

# every table symbol x a few prefixes x a few exponents
for sym in UNIT_STANDARD.keys():
    for pre in ["", "k", "m", "da", "u", "Y"]:
        for ex in ["", "2", "-1", "3:2"]:
            x = pre + sym + ex
            run("tab|" + x, lambda: atom(UnitSolver(x)))
            run("tabq|" + x, lambda: (lambda v: [repr(v.magnitude), v.units(), v.baseunits.dimensions.value()])(Quantity(1, x)))
    for junk in ["$", "q", "1", "_"]:
        x = junk + sym
        run("junk|" + x, lambda: atom(UnitSolver(x)))

# get_unit_base directly
for uid in ["m", "k:m", "m:g", "da:m", "[c]", "k:eV", "#m", "#s", "#SADO", "#AACT", "#CDVI", "zz", "k:zz", "q:m", "a:b:c", ""]:
    for ex in [None, (1, 1), (2, 1), (-1, 1), (1, 2), (-3, 2), (4, 2), (0, 1), (2, -4)]:
        def g():
            f = None if ex is None else Fraction(*ex)
            b = get_unit_base(uid, f)
            return {"mag": repr(b.magnitude), "dim": b.dimensions.value(), "u": b.units, "e": b.expression,
                    "f": None if f is None else [f.num, f.den]}
        run("gub|%s|%s" % (uid, ex), g)

# Fraction parsing / rendering / normalisation
for s in ["1", "-1", "2", "0", "-0", "1:2", "-1:2", "2:4", "4:2", "3:-6", "-3:-6", "0:5", "1:0", "+2", "+1:2",
          "1:2:3", "", ":", "a", "1:a", "--2", "1.5"]:
    def f():
        fr = Fraction.from_string(s)
        pre = [fr.num, fr.den]
        return {"pre": pre, "str": str(fr), "repr": repr(fr), "post": [fr.num, fr.den],
                "tuple": repr(fr.value()), "float": repr(fr.value(dtype=float))}
    run("frac|" + s, f)
for a in [(1, 2), (-1, 2), (1, -2), (-1, -2), (0, -3), (6, 4), (-6, -4), (10, 5), (7, 1), (0, 1), (12, -18)]:
    def f():
        fr = Fraction(*a)
        r1 = repr(fr)
        fr2 = Fraction(*a); fr2.rebase()
        fr3 = Fraction(*a)
        return {"repr": r1, "reb": [fr2.num, fr2.den], "val": repr(fr3.value()), "after": [fr3.num, fr3.den],
                "str": str(Fraction(*a)), "neg": str(-Fraction(*a)),
                "add": str(Fraction(*a) + Fraction(1, 3)), "sub": str(Fraction(*a) - (1, 3)),
                "mul": str(Fraction(*a) * 0.5), "div": str(Fraction(*a) / Fraction(2, 3)),
                "eq": bool(Fraction(*a) == Fraction(a[0] * 2, a[1] * 2))}
    run("fr|%s" % (a,), f)

# arithmetic on parsed units
for l, r in [("kg*m2/s2", "J"), ("km", "m"), ("N", "kg*m/s2"), ("eV", "erg"), ("m1:2", "m3:2"), ("[c]", "km/s")]:
    def ar():
        a, b = Quantity(3, l), Quantity(2, r)
        m, d = a * b, a / b
        return {"mul": [repr(m.magnitude), m.units()], "div": [repr(d.magnitude), d.units()],
                "to": repr(a.to(r).magnitude), "pow": [repr((a ** 2).magnitude), (a ** 2).units()],
                "bu+": str(a.baseunits + b.baseunits), "bu-": str(a.baseunits - b.baseunits),
                "bu*": str(a.baseunits * 2), "bu/": str(a.baseunits / 2)}
    run("arith|%s|%s" % (l, r), ar)

print(json.dumps(out, sort_keys=True, default=repr))
'''


def probe(root):
    p = subprocess.run([sys.executable, "-c", PROBE, root], capture_output=True, text=True)
    if p.returncode != 0:
        sys.stderr.write(p.stderr)
        raise SystemExit(2)
    return json.loads(p.stdout.strip().splitlines()[-1])


def main():
    a, b = probe(sys.argv[1]), probe(sys.argv[2])
    bad = [k for k in sorted(set(a) | set(b)) if a.get(k) != b.get(k)]
    for k in bad[:40]:
        print("DIFF", k, "\n   base:", a.get(k), "\n   new :", b.get(k))
    nexc = sum(1 for v in a.values() if isinstance(v, dict) and set(v) == {"exc"})
    print("%d probes (%d raising), %d differences" % (len(a), nexc, len(bad)))
    sys.exit(1 if bad else 0)


if __name__ == "__main__":
    main()
