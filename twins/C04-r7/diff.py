#!/venv/bin/python
"""Differential check for property C04 (linear unit conversion).

usage: diff.py <unmodified tree root> <refactored tree root>

Runs the same set of conversions against each tree in a separate subprocess
(each with its own sys.path) and exits 0 iff every observable output (values,
units, raised exception types, state after refused conversions) is identical.
"""
import json
import os
import subprocess
import sys

WORKER = r'''
import sys, json
root = sys.argv[1]
sys.path.insert(0, root + '/src')
import numpy as np
import scinumtools
assert scinumtools.__file__.startswith(root), (scinumtools.__file__, root)
from decimal import Decimal
from scinumtools.units import Quantity, Unit
from scinumtools.units.base_units import BaseUnits, get_unit_base
from scinumtools.units.fraction import Fraction
from scinumtools.units.magnitude import Magnitude

def show(v):
    if isinstance(v, Quantity):
        return {'mag': show(v.magnitude.value), 'err': show(v.magnitude.error),
                'units': v.units(), 'base': repr(v.baseunits), 'str': str(v)}
    if isinstance(v, Magnitude):
        return {'value': show(v.value), 'error': show(v.error)}
    if isinstance(v, np.ndarray):
        return ['ndarray', str(v.dtype), [show(x) for x in v.tolist()]]
    if isinstance(v, (float, np.floating)):
        return ['float', type(v).__name__, float(v).hex() if np.isfinite(v) else repr(float(v))]
    if isinstance(v, Decimal):
        return ['Decimal', str(v)]
    if isinstance(v, (list, tuple)):
        return [show(x) for x in v]
    if isinstance(v, dict):
        return {str(k): show(x) for k, x in v.items()}
    if v is None or isinstance(v, (bool, int, str)):
        return [type(v).__name__, v]
    return ['repr', type(v).__name__, repr(v)]

results = []
def case(label, fn):
    try:
        out = ['ok', show(fn())]
    except BaseException as e:
        out = ['raise', type(e).__name__]
    results.append([label, out])

# --- same-dimension scalar conversions: x * factor(u) / factor(v) ---------
LINEAR = [
    (1.0, 'm', 'km'), (2.5, 'km', 'm'), (0.0, 'm', 'cm'), (-3.75, 'mm', 'um'),
    (1e300, 'm', 'km'), (1e-300, 'km', 'mm'), (5e-324, 'm', 'mm'), (-1e308, 'mm', 'm'),
    (12.0, 'kg*m2/s2', 'J'), (1.0, 'J', 'erg'), (3.0, 'eV', 'J'), (1.0, 'kW*h', 'MJ'),
    (7.0, 'km/h', 'm/s'), (1.0, 'N', 'dyn'), (101325.0, 'Pa', 'atm'), (1.0, 'bar', 'kPa'),
    (1.0, 'l', 'cm3'), (2.0, 'min', 's'), (1.5, 'h', 'min'), (1.0, 'yr', 'day'),
    (90.0, 'deg', 'rad'), (1.0, 'rad', 'deg'), (3.0, 'g/cm3', 'kg/m3'),
    (1.0, 'au', 'km'), (1.0, 'pc', 'ly'), (4.0, 'm1:2', 'cm1:2'), (9.0, 'kg2*m-2', 'g2*cm-2'),
    (1.0, 'T', 'G'), (1.0, 'C', 'A*s'), (5.0, 'Mpc', 'Gly'), (2.0, 'ns', 'ps'),
    (1.0, 'mol', 'mmol'), (1.0, 'cd', 'mcd'), (1.0, 'K', 'mK'), (1.0, 'W', 'erg/s'),
]
for x, u, v in LINEAR:
    case('to %r %s->%s' % (x, u, v), lambda: Quantity(x, u).to(v))
    case('value %r %s->%s' % (x, u, v), lambda: Quantity(x, u).value(v))
    case('roundtrip %r %s->%s->%s' % (x, u, v, u), lambda: Quantity(x, u).to(v).to(u))

# --- through an intermediate unit -----------------------------------------
for x, u, w, v in [(3.25, 'm', 'km', 'cm'), (1e-12, 'J', 'eV', 'erg'), (-8.0, 'km/h', 'm/s', 'cm/s'),
                   (1e200, 'g', 'kg', 'mg'), (6.0, 'Pa', 'bar', 'atm'), (0.0, 's', 'h', 'ms')]:
    case('via %r %s->%s->%s' % (x, u, w, v), lambda: Quantity(x, u).to(w).to(v))
    case('direct %r %s->%s' % (x, u, v), lambda: Quantity(x, u).to(v))

# --- arrays (element-wise) and lists ---------------------------------------
case('array m->km', lambda: Quantity(np.array([0.0, -1.5, 2e10, 1e-310]), 'm').to('km'))
case('array roundtrip', lambda: Quantity(np.linspace(-5, 5, 7), 'eV').to('J').to('eV'))
case('list cm->m', lambda: Quantity([1, 2, 3], 'cm').to('m'))
case('int array', lambda: Quantity(np.array([1, 2, 3]), 'km').to('m'))
case('2d array', lambda: Quantity(np.arange(6.0).reshape(2, 3), 'h').to('s'))

# --- reciprocal dimension ----------------------------------------------------
case('Hz->s', lambda: Quantity(4.0, 'Hz').to('s'))
case('s->Hz', lambda: Quantity(0.25, 's').to('Hz'))
case('ms->kHz', lambda: Quantity(2.0, 'ms').to('kHz'))
case('m-1->cm', lambda: Quantity(5.0, 'm-1').to('cm'))
case('array s->Hz', lambda: Quantity(np.array([1.0, 2.0, -8.0]), 's').to('Hz'))
case('recip roundtrip', lambda: Quantity(3.0, 'kHz').to('us').to('kHz'))

# --- bare number to radians ------------------------------------------------
case('bare->rad', lambda: Quantity(1.25).to('rad'))
case('bare array->rad', lambda: Quantity(np.array([0.0, 1.0, -2.0])).to('rad'))
case('bare->deg', lambda: Quantity(1.25).to('deg'))
case('bare->mrad', lambda: Quantity(1.25).to('mrad'))
case('bare->bare', lambda: Quantity(7.0).to(None))
case('rad->bare', lambda: Quantity(7.0, 'rad').to(None))
case('percent', lambda: Quantity(50.0, '%').to(None))

# --- refused conversions leave the quantity untouched ----------------------
def refused(x, u, v):
    q = Quantity(x, u)
    try:
        q.to(v)
        status = 'no error'
    except Exception as e:
        status = type(e).__name__
    return [status, show(q)]
for x, u, v in [(1.0, 'm', 's'), (2.0, 'kg', 'J'), (3.0, 'm', 'm2'), (1.0, 'm', None), (4.0, None, 'm'),
                (1.0, 'J', 'W'), (np.array([1.0, 2.0]), 'km', 'kg'), (1.0, 'Hz', 'm'), (1.0, 'm', 'rad'),
                (2.0, 'm2', 's-1'), (1.0, 'm*s', 'm/s')]:
    case('refused %s->%s' % (u, v), lambda: refused(x, u, v))
case('value refused', lambda: Quantity(1.0, 'm').value('s'))
case('unknown unit', lambda: Quantity(1.0, 'm').to('foo'))
case('add refused', lambda: Quantity(1.0, 'm') + Quantity(1.0, 's'))

# --- other argument forms of to() ---------------------------------------------
case('to Quantity', lambda: Quantity(6.0, 'm').to(Quantity(2.0, 'cm')))
case('to Unit', lambda: Quantity(6.0, 'm').to(Unit('km')))
case('to BaseUnits', lambda: Quantity(6.0, 'm').to(BaseUnits('km')))
case('to dict', lambda: Quantity(6.0, 'km').to({'m': 1}))
case('to dims list', lambda: Quantity(6.0, 'km').to([1, 0, 0, 0, 0, 0, 0, 0]))
case('to returns self', lambda: (lambda q: q.to('km') is q)(Quantity(1.0, 'm')))
case('to Quantity refused', lambda: refused(6.0, 'm', Quantity(2.0, 's')))
case('system unit', lambda: Quantity(3.0, 'm/s2').to('#CACC'))
case('system unit from', lambda: Quantity(3.0, '#CACC').to('m/s2'))

# --- errors, Decimal, mixed arithmetic that uses conversion --------------------
case('abse m->km', lambda: Quantity(1500.0, 'm', abse=25.0).to('km'))
case('rele J->erg', lambda: Quantity(2.0, 'J', rele=10).to('erg'))
case('abse Hz->s', lambda: Quantity(4.0, 'Hz', abse=0.5).to('s'))
case('abse array', lambda: Quantity([1.0, 2.0], 'km', abse=[0.1, 0.2]).to('m'))
case('Decimal', lambda: Quantity(Decimal('1.5'), 'km').to('m'))
case('add mixed', lambda: Quantity(1.0, 'km') + Quantity(250.0, 'm'))
case('sub mixed', lambda: Quantity(1.0, 'h') - Quantity(30.0, 'min'))
case('eq', lambda: Quantity(1.0, 'km') == Quantity(1000.0, 'm'))
case('neq', lambda: Quantity(1.0, 'km') == Quantity(1001.0, 'm'))
case('sin deg', lambda: np.sin(Quantity(30.0, 'deg')))
case('arcsin', lambda: np.arcsin(Quantity(0.5)))
case('rebase', lambda: Quantity(3.0, 'km*m/cm').rebase())
case('linspace', lambda: np.linspace(Quantity(1.0, 'km'), Quantity(3000.0, 'm'), 3))

# --- non-linear units must keep working the same ----------------------------
case('Cel->K', lambda: Quantity(25.0, 'Cel').to('K'))
case('K->degF', lambda: Quantity(300.0, 'K').to('degF'))
case('dBm->W', lambda: Quantity(3.0, 'dBm').to('W'))
case('Cel->m', lambda: refused(1.0, 'Cel', 'm'))

# --- factors / base unit internals used by the conversion ---------------------
for uid, exp in [('m', None), ('k:m', Fraction(2)), ('c:m', Fraction(-3)), ('m', Fraction(1, 2)),
                 ('m:g', Fraction(4, 2)), ('J', Fraction(-1)), ('eV', Fraction(0)), ('#SACC', Fraction(2)),
                 ('#CACT', None), ('u:s', Fraction(-2, -4))]:
    case('get_unit_base %s %s' % (uid, exp), lambda: (lambda b: [b.magnitude, repr(b.dimensions), b.units, b.expression])(get_unit_base(uid, exp)))
for expr in ['km', 'kg*m2/s2', 'm1:2', 'km-1', 'rad', None, 'MeV/c2', 'g*cm2*s-2', 'km0']:
    case('BaseUnits %s' % expr, lambda: (lambda b: [b.magnitude, repr(b.dimensions), b.units, b.expression, b.nodim, b.nobase, repr(b)])(BaseUnits(expr)))

print(json.dumps(results))
'''


def run(root):
    root = os.path.abspath(root)
    env = {k: v for k, v in os.environ.items() if k != 'PYTHONPATH'}
    proc = subprocess.run([sys.executable, '-c', WORKER, root], capture_output=True, text=True,
                          env=env, cwd='/')
    if proc.returncode != 0:
        sys.stderr.write(proc.stderr)
        raise SystemExit('worker failed for %s' % root)
    return json.loads(proc.stdout.strip().splitlines()[-1])


def main():
    base, new = run(sys.argv[1]), run(sys.argv[2])
    bad = 0
    if len(base) != len(new):
        print('different number of cases', len(base), len(new))
        bad += 1
    for (la, a), (lb, b) in zip(base, new):
        if la != lb or a != b:
            bad += 1
            print('DIFF', la, '\n   base:', a, '\n   new: ', b)
    ok = sum(1 for _, r in base if r[0] == 'ok')
    print('%d cases (%d ok / %d raising on base), %d differences' % (len(base), ok, len(base) - ok, bad))
    sys.exit(1 if bad else 0)


if __name__ == '__main__':
    main()
