#!/venv/bin/python
"""Differential check for property C08 (uncertainty propagation).

usage: diff.py <unmodified tree root> <refactored tree root>

Runs the same probe (below) against each tree in its own subprocess, with the
tree's own src/ on sys.path, and exits 0 iff the recorded observations
(values, units, absolute/relative uncertainties, raised exception types) are
identical.
"""
import json
import subprocess
import sys

PROBE = r'''
import sys, json, warnings
warnings.simplefilter("ignore")
sys.path.insert(0, sys.argv[1] + "/src")
import numpy as np
from decimal import Decimal
import scinumtools
from scinumtools.units import Quantity
from scinumtools.units.magnitude import Magnitude
assert scinumtools.__file__.startswith(sys.argv[1]), scinumtools.__file__

def plain(x):
    if x is None:
        return None
    if isinstance(x, np.ndarray):
        return ["nd", str(x.dtype)] + [plain(v) for v in x.tolist()]
    if isinstance(x, (list, tuple)):
        return [plain(v) for v in x]
    if isinstance(x, Decimal):
        return "D" + str(x)
    if isinstance(x, (bool, np.bool_)):
        return bool(x)
    if isinstance(x, (float, np.floating, int, np.integer)):
        return type(x).__name__ + ":" + repr(float(x))
    return repr(x)

def guarded(fn):
    try:
        return ["ok", fn()]
    except Exception as e:
        return ["exc", type(e).__name__]

def snap(q):
    if isinstance(q, Quantity):
        return ["Q", plain(q.magnitude.value), q.units(), plain(q.magnitude.error),
                guarded(lambda: plain(q.abse())), guarded(lambda: plain(q.rele())),
                guarded(lambda: str(q))]
    if isinstance(q, Magnitude):
        return ["M", plain(q.value), plain(q.error), guarded(lambda: plain(q.abse())),
                guarded(lambda: plain(q.rele())), guarded(lambda: str(q))]
    return ["raw", plain(q)]

def run(fn):
    r = guarded(fn)
    return [r[0], snap(r[1]) if r[0] == "ok" else r[1]]

out = {}

# ---- Magnitude level: every pairing of exact / uncertain, both signs, scalar / array / Decimal
MAGS = {
    "exact_pos":   lambda: Magnitude(4.0),
    "exact_neg":   lambda: Magnitude(-2.5),
    "abs_pos":     lambda: Magnitude(4.0, 0.2),
    "abs_neg":     lambda: Magnitude(-3.0, 0.6),
    "rel_pos":     lambda: Magnitude(8.0, rele=5),
    "rel_neg":     lambda: Magnitude(-8.0, rele=12.5),
    "zero_err":    lambda: Magnitude(5.0, 0.0),
    "neg_abse":    lambda: Magnitude(5.0, -0.5),
    "big_err":     lambda: Magnitude(1.0, 3.0),
    "int_val":     lambda: Magnitude(7, 1),
    "arr_exact":   lambda: Magnitude([1.0, -2.0, 4.0]),
    "arr_abs":     lambda: Magnitude([1.0, -2.0, 4.0], 0.25),
    "arr_rel":     lambda: Magnitude(np.array([2.0, 5.0, -10.0]), rele=10),
    "dec_exact":   lambda: Magnitude(Decimal("1.5")),
    "zero_val":    lambda: Magnitude(0.0, 0.1),
    "number":      lambda: 3,
    "neg_number":  lambda: -0.5,
}
BIN = {
    "add": lambda a, b: a + b, "sub": lambda a, b: a - b,
    "mul": lambda a, b: a * b, "div": lambda a, b: a / b,
}
for an, mka in MAGS.items():
    for bn, mkb in MAGS.items():
        if an in ("number", "neg_number") and bn in ("number", "neg_number"):
            continue
        for on, op in BIN.items():
            out["M/%s/%s/%s" % (on, an, bn)] = run(lambda: op(mka(), mkb()))
    if an in ("number", "neg_number"):
        continue
    out["M/neg/" + an] = run(lambda: -mka())
    for pw in (2, 3, -1, 0.5, 0, -2, 1.5):
        out["M/pow/%s/%r" % (an, pw)] = run(lambda: mka() ** pw)
    out["M/set_abse/" + an] = run(lambda: mka().abse(0.75))
    out["M/set_rele/" + an] = run(lambda: mka().rele(20))
    out["M/get/" + an] = [guarded(lambda: plain(mka().abse())), guarded(lambda: plain(mka().rele()))]

out["M/both_errors"] = run(lambda: Magnitude(1.0, abse=0.1, rele=10))
out["M/bad_value"] = run(lambda: Magnitude("abc"))

# ---- Quantity level: arithmetic with units and unit conversion
QS = {
    "len_exact":  lambda: Quantity(3.0, "m"),
    "len_abs":    lambda: Quantity(12.0, "m", abse=0.3),
    "len_cm":     lambda: Quantity(50.0, "cm", abse=2.0),
    "len_neg":    lambda: Quantity(-7.0, "km", abse=0.07),
    "time_rel":   lambda: Quantity(8.0, "s", rele=5),
    "arr_len":    lambda: Quantity([1.0, 2.0, -4.0], "m", abse=0.5),
    "arr_rel":    lambda: Quantity(np.array([10.0, 20.0]), "cm", rele=1),
    "dimless":    lambda: Quantity(2.0, abse=0.1),
    "energy":     lambda: Quantity(5.0, "J", rele=2),
    "mag_in":     lambda: Quantity(Magnitude(6.0, 0.6), "kg"),
    "mag_in_abs": lambda: Quantity(Magnitude(6.0), "kg", abse=0.3),
    "mag_in_rel": lambda: Quantity(Magnitude(6.0, 0.1), "kg", rele=50),
    "temp":       lambda: Quantity(300.0, "K", abse=1.5),
    "log":        lambda: Quantity(20.0, "dB", abse=0.5),
}
for an, mka in QS.items():
    for bn, mkb in QS.items():
        for on, op in BIN.items():
            out["Q/%s/%s/%s" % (on, an, bn)] = run(lambda: op(mka(), mkb()))
    for k in (3, -2.0, 0.5, 0):
        out["Q/scal/%s/%r" % (an, k)] = [run(lambda: mka() * k), run(lambda: k * mka()),
                                        run(lambda: mka() / k), run(lambda: k / mka()),
                                        run(lambda: mka() + k), run(lambda: k - mka())]
    out["Q/neg/" + an] = run(lambda: -mka())
    for pw in (2, -1, 0.5, (1, 2), 3):
        out["Q/pow/%s/%r" % (an, pw)] = run(lambda: mka() ** pw)
    out["Q/set/" + an] = [run(lambda: mka().abse(0.2)), run(lambda: mka().rele(4)),
                          run(lambda: mka().abse(0.2).rele(4))]

CONV = [("len_abs", "cm"), ("len_abs", "km"), ("len_cm", "m"), ("len_neg", "m"), ("len_neg", "mm"),
        ("time_rel", "ms"), ("time_rel", "min"), ("time_rel", "Hz"), ("arr_len", "cm"), ("arr_rel", "m"),
        ("energy", "erg"), ("energy", "eV"), ("mag_in", "g"), ("temp", "Cel"), ("temp", "degF"),
        ("log", "Np"), ("log", "PR"), ("len_exact", "cm"), ("dimless", "rad"), ("len_abs", "s")]
for qn, tgt in CONV:
    out["Q/to/%s/%s" % (qn, tgt)] = [run(lambda: QS[qn]().to(tgt)),
                                    guarded(lambda: plain(QS[qn]().value(tgt))),
                                    run(lambda: QS[qn]().to(tgt).to(QS[qn]().units())),
                                    run(lambda: QS[qn]().to(tgt) + QS[qn]()),
                                    run(lambda: QS[qn]().rebase())]
print(json.dumps(out, sort_keys=True))
'''


def run(tree):
    proc = subprocess.run([sys.executable, "-c", PROBE, tree.rstrip("/")],
                          capture_output=True, text=True)
    if proc.returncode != 0:
        print("probe failed for", tree, "\n", proc.stderr[-3000:])
        sys.exit(2)
    return json.loads(proc.stdout.strip().splitlines()[-1])


def main():
    base, new = sys.argv[1], sys.argv[2]
    a, b = run(base), run(new)
    bad = [k for k in sorted(set(a) | set(b)) if a.get(k) != b.get(k)]
    for k in bad[:20]:
        print("DIFF", k)
        print("  base:", json.dumps(a.get(k))[:600])
        print("  new :", json.dumps(b.get(k))[:600])
    print("%d cases compared, %d differ" % (len(a), len(bad)))
    sys.exit(1 if bad else 0)


if __name__ == "__main__":
    main()
