#!/venv/bin/python
"""Differential check for property C19 (configuration exports).

usage: diff.py <unmodified tree root> <refactored tree root>

Runs the same set of environments / back-ends / options against each tree in a
separate subprocess (each with its own sys.path) and exits 0 iff every
observable output (exported text, data dictionary, raised exception type) is
identical.
"""
import sys, os, json, subprocess

CHILD = r'''
import sys, json, traceback
root = sys.argv[1]
sys.path.insert(0, root + "/src")
import numpy as np
from scinumtools.dip import DIP
from scinumtools.dip.settings import Format
from scinumtools.dip.config import *

SOURCES = {
 "basic": """
simulation
  name str = 'Configuration test'
  output bool = true
box
  height float = 15 cm
num_cells int = 100
  !tags ["selection"]
""",
 "derived": """
box
  width float32 = 12 cm
    !tags ["selection"]
density float128 = 23 g/cm3
num_groups uint64 = 2399495729
""",
 "widths": """
a int16 = -12
b int32 = 70000
c int64 = -9000000000
d uint16 = 65535
e uint32 = 4000000000
f uint64 = 18000000000000000000
g float32 = 1.5
h float64 = -2.25e-3 m
i float128 = 1e30
""",
 "odd": """
o1 int = -5
o2 int = 200
o3 float = 1.5
o4 float = 2.5
o5 float = 3.5 m
o6 int = 7
o7 int[2] = [1,2]
""",
 "text": """
t str = \"\"\"
line "one"
line two
\"\"\"
""",
 "arrays": """
primes int[3] = [3,5,7]
sizes float[3] = [23.4,46,96.4] cm
flags bool[2] = [true,false]
words str[2] = ["ab","cd"]
""",
 "matrix": """
m int[2,3] = [[1,2,3],[4,5,6]]
r float32[3,2] = [[1.5,2.5],[3.5,4.5],[5.5,6.5]] m
t uint16[2,2,2] = [[[1,2],[3,4]],[[5,6],[7,8]]]
bm bool[2,2] = [[true,false],[false,true]]
""",
 "strings": """
q str = 'say "hi" $HOME `x`'
p str = "back\\\\slash"
empty str = ""
off bool = false
""",
 "none": """
particles
  stars int = none
  tracers int = 23
  mass float = none
  label str = none
""",
 "units": """
group
  len float = 2.5 km
    !tags ["phys","len"]
  cnt int = 4
    !tags ["count"]
  t float32 = 3 s
    !tags ["phys"]
other
  len float = 1 mm
""",
}

from scinumtools.dip.datatypes import IntegerType, FloatType
# data types that the DIP syntax cannot spell but the type classes can carry
ODD = {
 "o1": lambda v: IntegerType(v.value, v.unit, precision=8),
 "o2": lambda v: IntegerType(v.value, v.unit, precision=8, unsigned=True),
 "o3": lambda v: FloatType(v.value, v.unit, precision=16),
 "o4": lambda v: FloatType(v.value, v.unit, precision=80),
 "o5": lambda v: FloatType(v.value, v.unit, precision=96),
 "o6": lambda v: IntegerType(v.value, v.unit, precision=128, unsigned=True),
 "o7": lambda v: IntegerType(v.value, v.unit, precision=8, unsigned=True),
}

def env_of(*names):
    with DIP() as dip:
        for n in names:
            if n.startswith("odd:"):
                dip.add_string(SOURCES["odd"])
            else:
                dip.add_string(SOURCES[n])
        env = dip.parse()
    for n in names:
        if n.startswith("odd:"):
            keep = n[4:]
            for node in list(env.nodes):
                if node.name in ODD:
                    node.value = ODD[node.name](node.value)
            env.nodes.nodes = [node for node in env.nodes if node.name == keep or node.name not in ODD] \
                if hasattr(env.nodes, "nodes") else env.nodes
    return env

def norm(v):
    if isinstance(v, dict):
        return {str(k): norm(x) for k, x in v.items()}
    if isinstance(v, (list, tuple)):
        return [norm(x) for x in v]
    if isinstance(v, np.ndarray):
        return norm(v.tolist())
    if isinstance(v, (str, int, float, bool)) or v is None:
        return v
    return repr(v)

results = []
def run(label, fn):
    try:
        out = fn()
        results.append([label, "ok", norm(out)])
    except BaseException as e:
        results.append([label, "exc", type(e).__name__])

BACKENDS = {
 "dip": ExportConfig, "c": ExportConfigC, "cpp": ExportConfigCPP,
 "rust": ExportConfigRust, "fortran": ExportConfigFortran, "bash": ExportConfigBash,
 "json": ExportConfigJSON, "yaml": ExportConfigYAML, "toml": ExportConfigTOML,
}
ENVSETS = [("basic",), ("basic","derived"), ("widths",), ("odd:o1",), ("odd:o2",), ("odd:o3",), ("odd:o4",),
           ("odd:o5",), ("odd:o6",), ("odd:o7",), ("text",), ("arrays",),
           ("matrix",), ("strings",), ("none",), ("units",), ("basic","derived","arrays","none"),
           ("widths","matrix","strings")]

def export(cls, names, ckw=None, pkw=None, sel=None, twice=False):
    def fn():
        env = env_of(*names)
        with cls(env, **(ckw or {})) as exp:
            if sel is not None:
                exp.select(**sel)
            text = exp.parse(**(pkw or {}))
            out = [text, exp.text, sorted(exp.data.keys())]
            if hasattr(exp, "includes"):
                out.append(list(exp.includes))
            if twice:
                out.append(exp.parse(**(pkw or {})))
                out.append(exp.text)
            return out
    return fn

# 1. every back-end on every environment set, default options, rename on/off
for names in ENVSETS:
    for bname, cls in BACKENDS.items():
        run(f"default/{bname}/{'+'.join(names)}", export(cls, names))
        run(f"norename/{bname}/{'+'.join(names)}", export(cls, names, ckw={"rename": False}))
        run(f"twice/{bname}/{'+'.join(names)}", export(cls, names, twice=True))

# 2. units on/off for the parameter formats
for names in [("basic","derived","arrays"), ("units",), ("matrix",), ("none",)]:
    for bname in ("json","yaml","toml"):
        for units in (True, False):
            run(f"units={units}/{bname}/{'+'.join(names)}",
                export(BACKENDS[bname], names, pkw={"units": units}, twice=True))
run("json/indent", export(ExportConfigJSON, ("basic","arrays"), pkw={"indent": 2, "sort_keys": True}))
run("yaml/flow", export(ExportConfigYAML, ("basic","arrays"), pkw={"default_flow_style": True}))

# 3. define / const selection and guards (C, C++), module (Fortran), export flag (Bash)
for names in [("basic","derived","none"), ("widths",), ("arrays","matrix"), ("strings",)]:
    keys = {"basic": ("simulation.name","simulation.output","num_cells"), "widths": ("a","f","i"),
            "arrays": ("primes","m"), "strings": ("q","off","empty")}[names[0]]
    run(f"c/define/{names[0]}", export(ExportConfigC, names, pkw={"define": keys, "guard": "MY_H"}))
    run(f"c/define-list/{names[0]}", export(ExportConfigC, names, pkw={"define": list(keys[:1])}))
    run(f"cpp/define/{names[0]}", export(ExportConfigCPP, names, pkw={"define": keys[:1], "const": keys[1:], "guard": "G"}))
    run(f"cpp/const/{names[0]}", export(ExportConfigCPP, names, pkw={"const": keys}))
    run(f"cpp/define-norename/{names[0]}", export(ExportConfigCPP, names, ckw={"rename": False}, pkw={"define": keys}))
    run(f"fortran/module/{names[0]}", export(ExportConfigFortran, names, pkw={"module": "Mod"}))
    run(f"bash/noexport/{names[0]}", export(ExportConfigBash, names, pkw={"export": False}))
    run(f"bash/export/{names[0]}", export(ExportConfigBash, names, pkw={"export": True}))

# 4. selection by query / tags through every back-end
SELS = [{"query": "box.*"}, {"tags": ["selection"]}, {"query": "*", "tags": ["selection"]},
        {"query": "simulation.name"}, {"query": "nothing.*"}]
for sel in SELS:
    for bname, cls in BACKENDS.items():
        run(f"select/{bname}/{json.dumps(sel, sort_keys=True)}", export(cls, ("basic","derived"), sel=sel))
for sel in [{"query": "group.*"}, {"tags": ["phys"]}, {"query": "group.*", "tags": ["len"]}, {"tags": ["count","len"]}]:
    for bname, cls in BACKENDS.items():
        run(f"select-units/{bname}/{json.dumps(sel, sort_keys=True)}", export(cls, ("units",), sel=sel))

# 5. explicit dtype option, wrong environment type, private helpers
for bname, cls in BACKENDS.items():
    run(f"dtype-value/{bname}", export(cls, ("basic","arrays"), ckw={"dtype": Format.VALUE}))
    run(f"dtype-type/{bname}", export(cls, ("basic","arrays"), ckw={"dtype": Format.TYPE}))
    run(f"dtype-tuple/{bname}", export(cls, ("basic","arrays"), ckw={"dtype": Format.TUPLE}))
    if bname != "yaml":   # a YAML dump of node objects contains id()-based source names
        run(f"dtype-node/{bname}", export(cls, ("basic","arrays"), ckw={"dtype": Format.NODE}))
    run(f"dtype-quantity/{bname}", export(cls, ("basic","arrays"), ckw={"dtype": Format.QUANTITY}))
    run(f"dtype-bogus/{bname}", export(cls, ("basic","arrays"), ckw={"dtype": 99}))
    run(f"dtype-type-sel/{bname}", export(cls, ("units",), ckw={"dtype": Format.TYPE, "rename": False}, sel={"tags": ["phys"]}))
    def bad(cls=cls):
        env = env_of("basic")
        env.envtype = None
        return cls(env).parse()
    run(f"badenv/{bname}", bad)
    def noparse_save(cls=cls):
        env = env_of("basic")
        exp = cls(env)
        exp.save("/nonexistent-dir/x.txt")
    run(f"save-before-parse/{bname}", noparse_save)

# 6. user supplied includes (C, C++), empty arrays, direct calls of the line builders
def includes(cls, names, pkw):
    def fn():
        env = env_of(*names)
        with cls(env) as exp:
            exp.include("<math.h>")
            exp.include("<stdint.h>")
            exp.include("<math.h>")
            return [exp.parse(**pkw), list(exp.includes), exp.parse(**pkw)]
    return fn
for cls in (ExportConfigC, ExportConfigCPP):
    run(f"includes/{cls.__name__}/bool", includes(cls, ("basic",), {}))
    run(f"includes/{cls.__name__}/nobool", includes(cls, ("widths",), {"guard": "W_H"}))
    run(f"includes/{cls.__name__}/define", includes(cls, ("basic",), {"define": ("simulation.output",)}))

def empty_array(cls):
    def fn():
        env = env_of("arrays")
        for node in env.nodes:
            if node.name == "primes":
                node.value.value = []
            if node.name == "sizes":
                node.value.value = [[], []]
        with cls(env) as exp:
            return exp.parse()
    return fn
for bname, cls in BACKENDS.items():
    run(f"empty-array/{bname}", empty_array(cls))

def builders():
    env = env_of("basic", "derived", "matrix", "strings", "none")
    out = []
    with ExportConfigCPP(env) as exp:
        for name, param in exp.data.items():
            for meth in (exp.parse_define, exp.parse_const, exp.parse_constexpr):
                try:
                    out.append(meth(name, param))
                except Exception as e:
                    out.append(type(e).__name__)
        out.append(exp._escape('a"b\\c\nd'))
        out.append(exp._escape('a"b$c`d\ne', "\"$`", newline=None))
        out.append(exp._rename("a.b.c"))
    with ExportConfigBash(env, rename=False) as exp:
        out.append(exp._rename("a.b.c"))
        for v in (None, True, False, 0, 1, 2.5, "x y", "", [1, 2], [[1, 2], [3, 4]]):
            try:
                out.append(exp._parse_scalar(v))
            except Exception as e:
                out.append(type(e).__name__)
    return out
run("builders", builders)

def saving():
    import tempfile, os
    env = env_of("basic", "derived")
    out = []
    for bname, cls in BACKENDS.items():
        with cls(env) as exp:
            exp.parse()
            fd, path = tempfile.mkstemp()
            os.close(fd)
            exp.save(path)
            with open(path) as f:
                out.append(f.read())
            os.remove(path)
    return out
run("saving", saving)

print(json.dumps(results))
'''

def run_tree(root):
    p = subprocess.run([sys.executable, "-c", CHILD, os.path.abspath(root)],
                       capture_output=True, text=True, cwd="/tmp")
    if p.returncode != 0:
        sys.stderr.write(p.stderr)
        raise SystemExit(2)
    return json.loads(p.stdout.strip().splitlines()[-1])

def main():
    a = run_tree(sys.argv[1])
    b = run_tree(sys.argv[2])
    bad = 0
    if len(a) != len(b):
        print("different number of results", len(a), len(b))
        bad += 1
    for x, y in zip(a, b):
        if x != y:
            bad += 1
            print("DIFF", x[0])
            print("   base:", json.dumps(x[1:])[:400])
            print("   new :", json.dumps(y[1:])[:400])
    nexc = sum(1 for x in a if x[1] == "exc")
    print(f"{len(a)} cases compared ({nexc} raising in base), {bad} differences")
    sys.exit(1 if bad else 0)

if __name__ == "__main__":
    main()
