#!/usr/bin/env python
"""Differential check for property C15 (nested @case/@else/@end selection).

usage: diff.py <unmodified tree root> <refactored tree root>
Runs the same DIP inputs against both trees (each in its own subprocess with
its own sys.path) and exits 0 iff all observable outputs are identical.
"""
import sys, os, json, subprocess, itertools

RUNNER = r'''
import sys, json, io, contextlib
root = sys.argv[1]
sys.path.insert(0, root + '/src')
from scinumtools.dip import DIP
from scinumtools.dip.settings import Format
from scinumtools.dip.datatypes import NumberType

cases = json.loads(sys.stdin.read())
out = []
for code in cases:
    try:
        with DIP() as p:
            p.add_string(code)
            env = p.parse()
        res = []
        for node in env.nodes:
            v = node.value
            unit = getattr(v, 'unit', None)
            val = v.value if v is not None else None
            if hasattr(val, 'tolist'):
                val = val.tolist()
            res.append([node.name, node.keyword, repr(val), repr(unit),
                        repr(getattr(node, 'options', None)), repr(node.constant),
                        repr(getattr(node, 'tags', None)), repr(getattr(node, 'description', None)),
                        repr(node.condition), repr(getattr(node, 'format', None))])
        br = env.branching
        state = [list(br.state), br.num_cases, br.num_branches,
                 sorted((k, list(b.cases), list(b.types), sorted(b.nodes.items())) for k, b in br.branches.items()),
                 sorted((k, c.path, repr(c.value), c.code, repr(c.expr), c.branch_id, c.branch_part, c.case_id, c.case_type, c.indent)
                        for k, c in br.cases.items())]
        out.append(['ok', res, state])
    except Exception as e:
        out.append(['err', type(e).__name__, [repr(a) for a in e.args]])
    # documentation mode uses the same branching list
    try:
        with DIP() as p:
            p.add_string(code)
            docs = p.parse_docs()
        out.append(['docs-ok'])
    except Exception as e:
        out.append(['docs-err', type(e).__name__, [repr(a) for a in e.args]])
print(json.dumps(out))
'''

def tf(b):
    return 'true' if b else 'false'

def build_inputs():
    inputs = []
    # 1-3: fixed hand-written inputs (explicit @end, indentation end, compact names)
    inputs.append('''
a int = 1
@case false
  flower str = 'rose'
@else
  flower str = 'dandelion'
  @case false
    color str = 'red'
  @case false
    color str = 'blue'
  @else
    @case true
      leaves int = 234
    color str = 'yellow'
tree str = 'maple'
''')
    inputs.append('''
climate
  @case true
    warming bool = true
      increase float = 2 Cel

  temperature float = 10.2 Cel
''')
    inputs.append('''
plant.@case false
    flower str = 'green'
plant.@case true
    flower str = 'yellow'
plant.@else
    flower str = 'red'
after int = 3 m
''')
    # misplaced clauses
    inputs.append('@end\n')
    inputs.append("@else\n  car str = 'BMW'\n")
    inputs.append('@case true\n  @end\n')
    inputs.append('@case true\n  a int = 1\n@end\n@end\n')
    inputs.append('@case true\n  a int = 1\n@end\n@else\n  a int = 2\n')
    inputs.append('a int = 1\n  @case true\n    b int = 2\n  @end\n@else\n  c int = 3\n')
    inputs.append('@case true\n  a int = 1\nb int = 2\n@else\n  a int = 3\n')
    inputs.append('@case true\n  a int = 1\nb int = 2\n@end\n')
    # modifications, properties inside clauses
    inputs.append('''
star str = 'Sun'
size float = 1 km
@case false
  star = 'Sirius'
  nebula str = 'Orion'
  size = 3 m
@else
  star = 'Wega'
  nebula str = 'Crab'
  size = 2000 m
nebula = 'Eagle'
''')
    inputs.append('''
x int = 2
  @case false
    !options [1,2]
  @case true
    !options [2,3,4]
    !tags ["a"]
  @else
    !options [5]
  @end
  !description "after"
y int = 3
''')
    inputs.append('''
x int = 2
  @case false
    !constant
  @end
x = 3
''')
    inputs.append('''
x int = 2
  @case true
    !constant
  @end
x = 3
''')
    inputs.append('''
x int = 2
@case ("{?x} == 2")
  y float = 2.5 cm
@case ("{?x} == 3")
  y float = 3.5 cm
@else
  y float = 4.5 cm
@end
z float = {?y}
@case ("{?z} > 1 cm && false")
  w int = 1
@else
  w int = 2
''')
    inputs.append('@case maybe\n  a int = 1\n')
    inputs.append('@case true\n  @case true\n    a int = 1\n  @end\n  b int = 2\n@end\nc int = 3\n')
    inputs.append('@case false\n  @else\n    a int = 1\n')
    inputs.append('@case false\n  junk that does not parse\n@end\nc int = 3\n')
    inputs.append('g\n  @case false\n    a int = 1\n  @case true\n    a int = 2\n  b int = 3\nh int = 4\n')
    inputs.append('g\n  @case true\n    a int = 1\n  g2\n    @case false\n      b int = 2\n    @else\n      b int = 3\n    c int = 4\n  d int = 5\n')

    # clause keyword lexing
    inputs.append('@case\n  a int = 1\n')
    inputs.append('@case true\n  a int = 1\n@elsewhere\n  a int = 2\n')
    inputs.append('@case true\n  a int = 1\n@end # done\nb int = 2 # comment\n')
    inputs.append('x.@case   false   # comment\n  a int = 1\nx.@else # other\n  a int = 2\nx.@end\n')
    inputs.append('@case true\n  a int = 1\n@end extra\n')
    inputs.append('@casetrue\n  a int = 1\n')
    inputs.append('@case [true,false]\n  a int = 1\n@else\n  a int = 2\n')
    # systematic: depth-3 nesting, all truth assignments, explicit @end vs indentation
    for explicit in (True, False):
        for t1, t2, t3, t4 in itertools.product((False, True), repeat=4):
            lines = ['before int = 0']
            lines += ['@case %s' % tf(t1),
                      '  a1 int = 11',
                      '  @case %s' % tf(t2),
                      '    a2 int = 21',
                      '    @case %s' % tf(t3),
                      '      a3 int = 31',
                      '    @case %s' % tf(t4),
                      '      a3 int = 32',
                      '    @else',
                      '      a3 int = 33']
            if explicit:
                lines += ['    @end']
            lines += ['    tail2 float = 2 m',
                      '  @else',
                      '    a2 int = 22',
                      '    before = 5']
            if explicit:
                lines += ['  @end']
            lines += ['  tail1 float = 1 s',
                      '@case %s' % tf(t2),
                      '  a1 int = 12',
                      '@else',
                      '  a1 int = 13',
                      '  @case %s' % tf(t3),
                      '    deep str = "x"']
            if explicit:
                lines += ['  @end', '@end']
            lines += ['after bool = true']
            inputs.append('\n'.join(lines) + '\n')
    # systematic: group-prefixed compact clauses in a group hierarchy
    for t1, t2 in itertools.product((False, True), repeat=2):
        inputs.append('\n'.join([
            'grp',
            '  @case %s' % tf(t1),
            '    n int = 1',
            '    sub.@case %s' % tf(t2),
            '      m int = 2',
            '    sub.@else',
            '      m int = 3',
            '    sub.@end',
            '    k int = 4',
            '  @else',
            '    n int = 5',
            '  o int = 6',
            'p int = 7',
        ]) + '\n')
    return inputs

def run(root, inputs):
    r = subprocess.run([sys.executable, '-c', RUNNER, root], input=json.dumps(inputs),
                       capture_output=True, text=True, cwd='/tmp')
    if r.returncode != 0:
        print(r.stderr)
        raise SystemExit(2)
    return json.loads(r.stdout.strip().splitlines()[-1])

def main():
    base, new = os.path.abspath(sys.argv[1]), os.path.abspath(sys.argv[2])
    inputs = build_inputs()
    a = run(base, inputs)
    b = run(new, inputs)
    bad = 0
    for i, code in enumerate(inputs):
        if a[2*i:2*i+2] != b[2*i:2*i+2]:
            bad += 1
            print('DIFFERENCE on input', i)
            print(code)
            print(' base:', a[2*i:2*i+2])
            print(' new :', b[2*i:2*i+2])
    nerr = sum(1 for x in a if x[0] == 'err')
    nok = sum(1 for x in a if x[0] == 'ok')
    print('%d inputs (%d ok, %d raising on base), %d differences' % (len(inputs), nok, nerr, bad))
    sys.exit(1 if bad else 0)

if __name__ == '__main__':
    main()
