#!/venv/bin/python
"""Differential check for property C12 (densities, volume and masses of matter).

usage: diff.py <unmodified tree root> <refactored tree root>

Runs the same set of inputs against both trees (each in its own subprocess with
its own sys.path) and exits 0 iff every observable output (values, units, table
contents, printed text, raised exception types) is identical.
"""
import json
import os
import subprocess
import sys

WORKER = r'''
import sys, io, json, contextlib, warnings
root = sys.argv[1]
sys.path.insert(0, root + '/src')
warnings.simplefilter('ignore')
import numpy as np
import scinumtools
assert scinumtools.__file__.startswith(root + '/'), scinumtools.__file__
from scinumtools.units import Quantity
from scinumtools.materials import Element, Substance, Material, Norm

def q(x):
    # faithful textual form of a value (magnitude with full precision + units)
    if x is None:
        return None
    if isinstance(x, Quantity):
        v = x.value()
        v = repr(float(v)) if isinstance(v, (int, float, np.integer, np.floating)) else repr(v)
        return ['Q', v, str(x.units()), repr(x.baseunits), str(x)]
    if isinstance(x, (float, np.floating)):
        return ['f', repr(float(x))]
    if isinstance(x, (int, np.integer)):
        return ['i', int(x)]
    return [type(x).__name__, repr(x)]

def table(pt):
    if pt is None:
        return None
    out = {}
    for key, row in pt.items():
        d = row if isinstance(row, dict) else row.__dict__
        out[str(key)] = {str(c): q(v) for c, v in d.items()}
    return out

def observe(m):
    res = {
        'class': type(m).__name__,
        'number_density': q(m.number_density),
        'mass_density': q(m.mass_density),
        'volume': q(m.volume),
        'mass': q(m.mass),
        'composite_mass': q(getattr(m, 'composite_mass', None)),
        'component_mass': q(getattr(m, 'component_mass', None)),
        'proportion_norm': q(getattr(m, 'proportion_norm', None)),
        'number_density_given': q(getattr(m, 'number_density_given', None)),
    }
    for label, kw in (('matter_q', {}), ('matter_s', {'quantity': False})):
        try:
            res[label] = table(m.data_matter(**kw))
        except Exception as e:
            res[label] = ['EXC', type(e).__name__]
    if hasattr(m, 'components') and m.components:
        first = list(m.components)[:1]
        try:
            res['matter_sel'] = table(m.data_matter(components=first))
        except Exception as e:
            res['matter_sel'] = ['EXC', type(e).__name__]
        try:
            res['composite'] = table(m.data_composite(quantity=False))
        except Exception as e:
            res['composite'] = ['EXC', type(e).__name__]
        for label, fn, kw in (('composite_q', 'data_composite', {}),
                              ('components_q', 'data_components', {}),
                              ('components_s', 'data_components', {'quantity': False})):
            try:
                res[label] = table(getattr(m, fn)(**kw))
            except Exception as e:
                res[label] = ['EXC', type(e).__name__]
        res['parts'] = {k: [q(c.proportion), q(c.component_mass), q(getattr(c, 'composite_mass', None))]
                        for k, c in m.components.items()}
    buf = io.StringIO()
    try:
        with contextlib.redirect_stdout(buf):
            m.print()
            if m.mass_density:
                m.print_matter()
        res['printed'] = buf.getvalue()
    except Exception as e:
        res['printed'] = ['EXC', type(e).__name__, buf.getvalue()]
    return res

Q = Quantity
def late_add():
    s = Substance('H2', mass_density=Q(0.5, 'g/cm3'), volume=Q(3, 'cm3'))
    s.add('O', 1)
    return s
def late_add_n():
    s = Substance('C', number_density=Q(2e22, 'cm-3'), volume=Q(1, 'l'))
    s.add('O', 2)
    return s
def late_add_material():
    m = Material('1 <H2O>', number_density=Q(1e22, 'cm-3'))
    m.add('NaCl', 0.5)
    return m
def set_after():
    s = Substance('CO2')
    s.mass_density = Q(1.98, 'kg/m3')
    s.volume = Q(2, 'm3')
    s._norm()
    return s
def scaled_substance():
    s = Substance('H2O', mass_density=Q(997, 'kg/m3'), volume=Q(1, 'l'))
    return s * 2
def summed_material():
    a = Material('1 <H2O>', mass_density=Q(1, 'g/cm3'))
    b = Material('2 <NaCl>')
    return a + b

CASES = {
    'el_rho':          lambda: Element('O', mass_density=Q(1.429, 'g/l')),
    'el_rho_vol':      lambda: Element('Fe', mass_density=Q(7874, 'kg/m3'), volume=Q(2, 'dm3')),
    'el_n':            lambda: Element('He', number_density=Q(2.5e19, 'cm-3')),
    'el_n_m3_vol':     lambda: Element('He', number_density=Q(2.5e25, 'm-3'), volume=Q(1, 'm3')),
    'el_prop_n':       lambda: Element('O', proportion=2, number_density=Q(1e20, 'cm-3'), volume=Q(5, 'cm3')),
    'el_iso_ion':      lambda: Element('O{16-2}', mass_density=Q(3, 'g/cm3'), volume=Q(1, 'mm3')),
    'el_nucleon':      lambda: Element('[p]', number_density=Q(1, 'cm-3'), volume=Q(1, 'km3')),
    'el_both':         lambda: Element('C', number_density=Q(1e22, 'cm-3'), mass_density=Q(2.2, 'g/cm3')),
    'el_plain':        lambda: Element('N'),
    'el_vol_only':     lambda: Element('N', volume=Q(1, 'l')),
    'sub_rho':         lambda: Substance('H2O', mass_density=Q(997, 'kg/m3')),
    'sub_rho_vol':     lambda: Substance('H2O', mass_density=Q(0.997, 'g/cm3'), volume=Q(1, 'l')),
    'sub_rho_vol_si':  lambda: Substance('H2O', mass_density=Q(997, 'kg/m3'), volume=Q(0.001, 'm3')),
    'sub_n':           lambda: Substance('CO2', number_density=Q(2.7e19, 'cm-3')),
    'sub_n_vol':       lambda: Substance('CaCO3', number_density=Q(1.63e28, 'm-3'), volume=Q(10, 'cm3')),
    'sub_dict':        lambda: Substance({'H': 2, 'O': 1}, mass_density=Q(1, 'g/cm3'), volume=Q(18, 'cm3')),
    'sub_dict_n':      lambda: Substance({'Na': 1, 'Cl': 1}, number_density=Q(2.2e22, 'cm-3'), volume=Q(1, 'cm3')),
    'sub_iso':         lambda: Substance('D2O', natural=False, mass_density=Q(1.107, 'g/ml'), volume=Q(250, 'ml')),
    'sub_paren':       lambda: Substance('Ca(OH)2', mass_density=Q(2211, 'kg/m3'), volume=Q(1, 'm3')),
    'sub_both':        lambda: Substance('H2O', number_density=Q(3e22, 'cm-3'), mass_density=Q(1, 'g/cm3'), volume=Q(1, 'cm3')),
    'sub_plain':       lambda: Substance('H2O'),
    'sub_vol_only':    lambda: Substance('H2O', volume=Q(1, 'l')),
    'sub_empty':       lambda: Substance(mass_density=Q(1, 'g/cm3')),
    'sub_bad_rho':     lambda: Substance('H2O', mass_density=Q(1, 'm')),
    'sub_bad_n':       lambda: Substance('H2O', number_density=Q(1, 'g/cm3')),
    'sub_bad_vol':     lambda: Substance('H2O', mass_density=Q(1, 'g/cm3'), volume=Q(1, 's')),
    'sub_late_add':    late_add,
    'sub_late_add_n':  late_add_n,
    'sub_set_after':   set_after,
    'sub_scaled':      scaled_substance,
    'mat_rho':         lambda: Material('0.8 <N2> + 0.2 <O2>', mass_density=Q(1.2, 'kg/m3')),
    'mat_rho_vol':     lambda: Material('78 <N2> + 21 <O2> + 1 <Ar>', mass_density=Q(1.2e-3, 'g/cm3'), volume=Q(1, 'm3')),
    'mat_n_vol':       lambda: Material('1 <H2O> + 0.1 <NaCl>', number_density=Q(3e22, 'cm-3'), volume=Q(2, 'l')),
    'mat_dict':        lambda: Material({'H2O': 0.9, 'C2H5OH': 0.1}, mass_density=Q(0.98, 'g/ml'), volume=Q(0.5, 'l')),
    'mat_dict_n':      lambda: Material({'N2': 4, 'O2': 1}, number_density=Q(2.5e25, 'm-3'), volume=Q(1, 'cm3')),
    'mat_massfrac':    lambda: Material('20 <H2O> + 80 <CO2>', norm_type=Norm.MASS_FRACTION),
    'mat_massfrac_rho': lambda: Material('20 <H2O> + 80 <CO2>', norm_type=Norm.MASS_FRACTION, mass_density=Q(2, 'g/cm3'), volume=Q(1, 'cm3')),
    'mat_massfrac_n':  lambda: Material('20 <H2O> + 80 <CO2>', norm_type=Norm.MASS_FRACTION, number_density=Q(1e22, 'cm-3'), volume=Q(1, 'cm3')),
    'mat_massfrac_dict': lambda: Material({'H2O': 30.0, 'NaCl': 70.0}, norm_type=Norm.MASS_FRACTION),
    'mat_massfrac_sum': lambda: Material('1 <Fe>', norm_type=Norm.MASS_FRACTION) + Material('3 <C>', norm_type=Norm.MASS_FRACTION),
    'mat_massfrac_mul': lambda: 2.5 * Material('20 <H2O> + 80 <CO2>', norm_type=Norm.MASS_FRACTION),
    'mat_number_n':    lambda: Material({'H2O': 2, 'CO2': 1}, norm_type=Norm.NUMBER, number_density=Q(1e21, 'cm-3'), volume=Q(1, 'dm3')),
    'mat_empty':       lambda: Material(),
    'sub_of_sub':      lambda: Substance('H2O', natural=False, number_density=Q(1e28, 'm-3'), volume=Q(1, 'ml')) + Substance('NaCl', natural=False),
    'mat_number':      lambda: Material('2 <H2O> + 1 <CO2>', norm_type=Norm.NUMBER, mass_density=Q(1.5, 'g/cm3'), volume=Q(3, 'cm3')),
    'mat_plain':       lambda: Material('1 <H2O>'),
    'mat_bad_rho':     lambda: Material('1 <H2O>', mass_density=Q(1, 'J')),
    'mat_late_add':    late_add_material,
    'mat_summed':      summed_material,
}

out = {}
for name, build in CASES.items():
    try:
        out[name] = observe(build())
    except Exception as e:
        out[name] = ['EXC', type(e).__name__]
json.dump(out, sys.stdout, sort_keys=True)
'''


def run(root):
    root = os.path.abspath(root)
    env = {k: v for k, v in os.environ.items() if k != 'PYTHONPATH'}
    proc = subprocess.run([sys.executable, '-c', WORKER, root], capture_output=True, text=True, env=env, cwd='/')
    if proc.returncode != 0:
        sys.stderr.write(proc.stderr)
        raise SystemExit(2)
    return json.loads(proc.stdout)


def main():
    a = run(sys.argv[1])
    b = run(sys.argv[2])
    assert len(a) >= 12
    bad = [k for k in sorted(set(a) | set(b)) if a.get(k) != b.get(k)]
    for k in bad:
        print('DIFFERENT:', k)
        print('  base:', json.dumps(a.get(k), sort_keys=True)[:600])
        print('  new :', json.dumps(b.get(k), sort_keys=True)[:600])
    nexc = sum(1 for v in a.values() if isinstance(v, list))
    print(f'{len(a)} cases compared ({nexc} raise at construction), {len(bad)} differ')
    sys.exit(1 if bad else 0)


if __name__ == '__main__':
    main()
