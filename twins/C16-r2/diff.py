#!/venv/bin/python
"""Differential check for property C16 (options / !condition / !format / dimensions /
declared-but-undefined validation).

usage: diff.py <unmodified tree root> <refactored tree root>
Runs the same DIP inputs against both trees (each in its own subprocess with its
own sys.path) and exits 0 iff all observable outputs are identical.
"""
import sys, json, subprocess

RUNNER = r'''
import sys, json
root = sys.argv[1]
sys.path.insert(0, root + '/src')
import numpy as np
from scinumtools.dip import DIP
from scinumtools.dip.settings import Format

def show(v):
    val = getattr(v, 'value', v)
    if isinstance(val, np.ndarray):
        val = val.tolist()
    return [type(v).__name__, repr(val), repr(getattr(v, 'unit', None))]

def run(code):
    try:
        with DIP() as p:
            p.add_string(code)
            env = p.parse()
            data = env.data(Format.TYPE, verbose=True)
        out = {k: show(v) for k, v in data.items()}
        opts = {n.name: [show(o.value) for o in (getattr(n, 'options', None) or [])] for n in env.nodes}
        return {'ok': out, 'options': opts, 'autoref': repr(env.autoref)}
    except Exception as e:
        return {'exc': type(e).__name__, 'args': [repr(a) for a in e.args]}

cases = json.loads(sys.stdin.read())
print(json.dumps([run(c) for c in cases], sort_keys=True))
'''

def inputs():
    codes = []
    # --- options, per-line form, integers
    for v in (0, 1, 2, 3, 4):
        codes.append(f"coord int = {v}\n  = 1  # linear\n  = 2\n  = 3\n")
    # --- options with units, per-line form, compared after conversion
    for v in ("12 cm", "0.12 m", "120 mm", "34 cm", "0.34 m", "13 cm", "12 m", "12.0000001 cm"):
        codes.append(f"length float = {v}\n  = 12 cm\n  = 0.34 m\n")
    # --- list form with units; modification after declaration
    for v in ("23 m", "2300 cm", "13", "11", "16 cm", "26 m", "22"):
        codes.append("size float cm\n  !options [12,13,14,15,16] cm\n  !options [22,23,24,25] m\n"
                     f"size = {v}\n")
    # --- integer list options with units
    for v in ("2 km", "2000 m", "3 km", "1500 m"):
        codes.append(f"dist int = {v}\n  !options [1,2] km\n  = 3000 m\n")
    # --- string options
    for v in ("red", "green", "blue", "Red", "''"):
        codes.append(f"color str = {v}\n  = red\n  = green\n  !options [\"cyan\",\"blue\"]\n")
    # --- options on unsupported node
    codes.append("dep bool = true\n  = true\n  = false\n")
    # --- declared but undefined
    codes.append("length float cm\n  = 12 cm\n  = 34 cm\n")
    codes.append("a int\n")
    codes.append("a int\na = 3\n")
    codes.append("name str\n  !format '[a-z]+'\n")
    codes.append("flag bool\nother int = 1\n")
    # --- numeric conditions on, near and off the boundary
    for v in ("23 cm", "20 cm", "200.0001 mm", "30 cm", "29.9999 cm", "0.25 m", "31 cm", "19 cm"):
        codes.append(f"size float = {v}\n  !condition ('200 mm < {{?}} && {{?}} < 30 cm')\n")
    for v in (4, 5, 6):
        codes.append(f"n int = {v}\n  !condition ('{{?}} >= 5')\nm int = 1\n  !condition ('{{?n}} > 4 || {{?}} == 1')\n")
    # --- boolean / string conditions
    for v in ("true", "false"):
        codes.append(f"flag bool = {v}\n  !condition ('{{?}}')\n")
        codes.append(f"flag bool = {v}\n  !condition ('!{{?}}')\nz int = 2\n")
    for v in ("abc", "abd"):
        codes.append(f"word str = {v}\n  !condition ('{{?}} == \"abc\"')\n")
    # --- condition checked against the final (modified) value
    for v in (3, 30):
        codes.append(f"k int = 1\n  !condition ('{{?}} < 10')\nk = {v}\n")
    # --- formats, anchored and not
    for v in ("John", "7-up", "John7", "J", "''"):
        codes.append(f"name str = {v}\n  !format '[a-zA-Z]+'\n")
        codes.append(f"name str = {v}\n  !format '^[a-zA-Z]+$'\n")
    codes.append("size float = 23 cm\n  !format '[a-zA-Z]+'\n")
    codes.append("name str = abc\n  !format '[a-z]+'\nname = 123\n")
    # --- dimensions
    for decl, val in (("int[2]", "[4234,34,2]"), ("int[2]", "[4234]"), ("int[2]", "[1,2]"),
                      ("int[:2]", "[4234,34,2]"), ("int[:2]", "[1]"), ("int[:2]", "[1,2]"),
                      ("int[2:]", "[4234]"), ("int[2:]", "[1,2]"), ("int[2:]", "[1,2,3]"),
                      ("int[1:3]", "[1,2,3]"), ("int[1:3]", "[1,2,3,4]"),
                      ("int[2,3:]", "[[234,4234],[234,34]]"), ("int[2,3:]", "[[1,2,3],[4,5,6]]"),
                      ("int[2,:3]", "[[1,2,3,4],[4,5,6,7]]"), ("int[:,2]", "[[1,2],[3,4],[5,6]]"),
                      ("float[1:2,2:3]", "[[1.5,2.5,3.5]]"), ("float[1:2,2:3]", "[[1.5],[2.5]]"),
                      ("int", "[[234,4234],[234,34]]"), ("str[2]", "[\"a\",\"b\"]"), ("str[2]", "[\"a\"]"),
                      ("bool[1:]", "[true,false]"), ("bool[3:]", "[true,false]")):
        codes.append(f"counts {decl} = {val}\n")
    # dimension checked on modification too
    codes.append("c int[2:3] = [1,2]\nc = [1,2,3]\n")
    codes.append("c int[2:3] = [1,2]\nc = [1,2,3,4]\n")
    codes.append("c int[2:3] = [1,2]\nc = [1]\n")
    # --- combinations of constraints
    for v in ("12 cm", "13 cm", "14 cm"):
        codes.append(f"w float = {v}\n  !options [12,13] cm\n  !condition ('{{?}} > 125 mm')\n")
    for v in ("ab", "cd", "ef"):
        codes.append(f"s str = {v}\n  = ab\n  = cd\n  = 12\n  !format '[a-c]+'\n  !condition ('{{?}} != \"zz\"')\n")
    # several nodes, only the last one violates
    codes.append("a int = 1\n  = 1\nb float = 2 m\n  !condition ('{?} > 1 m')\nc str = x\n  !format 'y'\n")
    codes.append("grp\n  a int = 1\n    = 1\n    = 2\n  b float = 2 m\n    !condition ('{?} > 1 m && {?grp.a} == 1')\ngrp.a = 2\n")
    return codes

def run(root, codes):
    p = subprocess.run([sys.executable, '-c', RUNNER, root], input=json.dumps(codes),
                       capture_output=True, text=True, timeout=600)
    if p.returncode != 0:
        sys.stderr.write(p.stderr)
        raise SystemExit(2)
    return json.loads(p.stdout.strip().splitlines()[-1])

def main():
    base, new = sys.argv[1], sys.argv[2]
    codes = inputs()
    r1, r2 = run(base, codes), run(new, codes)
    bad = 0
    for i, (c, x, y) in enumerate(zip(codes, r1, r2)):
        if x != y:
            bad += 1
            print(f"DIFF in input {i}:\n{c}\n base: {x}\n new:  {y}")
    nexc = sum('exc' in x for x in r1)
    print(f"{len(codes)} inputs, {nexc} raising, {bad} differences")
    sys.exit(1 if bad else 0)

if __name__ == '__main__':
    main()
