#!/venv/bin/python
"""Differential check for property C19 (configuration exports).

usage: diff.py <unmodified tree root> <refactored tree root>

Runs the same set of environments through every export back-end and option in
a subprocess per tree (each with its own sys.path) and exits 0 iff every
observable output (exported text, includes, raised exception type) is identical.
"""
import sys, json, subprocess

CHILD = r'''
import sys, json, itertools
root = sys.argv[1]
sys.path.insert(0, root + '/src')
import numpy as np
from scinumtools.dip import DIP
from scinumtools.dip.config import (ExportConfig, ExportConfigC, ExportConfigCPP,
    ExportConfigRust, ExportConfigFortran, ExportConfigBash, ExportConfigJSON,
    ExportConfigTOML, ExportConfigYAML)
from scinumtools.dip.settings import Format

SOURCES = {
 "basic": """
simulation
  name str = 'Configuration test'
  output bool = true
box
  height float = 15 cm
num_cells int = 100
  !tags ["selection"]
""",
 "derived": """
box
  width float32 = 12 cm
    !tags ["selection"]
density float128 = 23 g/cm3
num_groups uint64 = 2399495729
""",
 "ints": """
b int16 = -300
c int32 = 70000
d int64 = -5000000000
f uint16 = 60000
g uint32 = 4000000000
h uint64 = 18000000000000000000
""",
 "uint8": """
e uint8 = 200
""",
 "floats": """
x float32 = 1.5
y float64 = -2.25e-3 m
z float128 = 1e30 kg
w float = 0.1
""",
 "float16": """
q float16 = 0.5
""",
 "arrays": """
primes int[3] = [3,5,7]
sizes float[3] = [23.4,46,96.4] cm
flags bool[2] = [true,false]
names str[2] = ["ab","cd"]
""",
 "matrix": """
m int[2,3] = [[1,2,3],[4,5,6]]
r float32[2,2] = [[1.5,2.5],[3.5,4.5]] m
t int16[2,2,2] = [[[1,2],[3,4]],[[5,6],[7,8]]]
bm bool[2,2] = [[true,false],[false,true]]
sm str[2,2] = [["a","b"],["c","d"]]
""",
 "strings": """
s1 str = 'with "quotes" inside'
s2 str = "back\\\\slash and $dollar `tick`"
s3 str = ''
group
  s4 str = "nested.name"
""",
 "none": """
particles
  stars int = none
  tracers int = 23
  label str = none
  flag bool = none
  mass float = none
""",
 "booleans": """
on bool = true
off bool = false
deep
  er
    flag bool = false
""",
 "tags": """
a int = 1
  !tags ["x"]
b float = 2 cm
  !tags ["x","y"]
c str = "z"
  !tags ["y"]
grp
  d int = 4
  e bool = true
    !tags ["x"]
""",
}

def env_of(key):
    with DIP() as dip:
        dip.add_string(SOURCES[key])
        return dip.parse()

def attempt(fn):
    try:
        return ["ok", fn()]
    except BaseException as e:
        return ["exc", type(e).__name__]

results = {}

def record(label, fn):
    results[label] = attempt(fn)

def run(cls, key, ctor_kwargs, select, parse_kwargs):
    env = env_of(key)
    with cls(env, **ctor_kwargs) as exp:
        if select is not None:
            exp.select(**select)
        text = exp.parse(**parse_kwargs)
        again = exp.text
        out = {"text": text, "same": text == again}
        if hasattr(exp, "includes"):
            out["includes"] = list(exp.includes)
        return out

BACKENDS = {
 "dip":  (ExportConfig,        [{}]),
 "c":    (ExportConfigC,       [{}, {"guard": "MY_H"}]),
 "cpp":  (ExportConfigCPP,     [{}, {"guard": "MY_HPP"}]),
 "rust": (ExportConfigRust,    [{}]),
 "f90":  (ExportConfigFortran, [{}, {"module": "Mod"}]),
 "bash": (ExportConfigBash,    [{}, {"export": False}]),
 "json": (ExportConfigJSON,    [{}, {"units": False}, {"indent": 2}]),
 "toml": (ExportConfigTOML,    [{}, {"units": False}]),
 "yaml": (ExportConfigYAML,    [{}, {"units": False}]),
}

for key in SOURCES:
    record("parse:"+key, lambda: sorted(env_of(key).data(Format.VALUE).keys()) and True)
    for bname, (cls, popts) in BACKENDS.items():
        for rename in (True, False):
            for pk in popts:
                label = f"{bname}|{key}|rename={rename}|{sorted(pk.items())}"
                record(label, lambda: run(cls, key, {"rename": rename}, None, pk))

# define / const selection for C and C++
DEFS = {
 "basic": [("simulation.name","num_cells"), ("simulation.output",), ("box.height",)],
 "none": [("particles.stars","particles.label"), ("particles.flag","particles.mass")],
 "arrays": [("primes",), ("names","flags")],
 "strings": [("s1","s2","s3"), ("group.s4",)],
 "booleans": [("on","off"), ("deep.er.flag",)],
 "derived": [("density",), ("box.width","num_groups")],
}
for key, sets in DEFS.items():
    for d in sets:
        for rename in (True, False):
            record(f"c-define|{key}|{d}|{rename}",
                   lambda: run(ExportConfigC, key, {"rename": rename}, None, {"define": d}))
            record(f"cpp-define|{key}|{d}|{rename}",
                   lambda: run(ExportConfigCPP, key, {"rename": rename}, None, {"define": d}))
            record(f"cpp-const|{key}|{d}|{rename}",
                   lambda: run(ExportConfigCPP, key, {"rename": rename}, None, {"const": d}))
            record(f"cpp-both|{key}|{d}|{rename}",
                   lambda: run(ExportConfigCPP, key, {"rename": rename}, None,
                               {"define": d[:1], "const": d[1:], "guard": "G"}))

# selection by query / tags through every back-end
SELECTS = [
 ("basic", {"query": "box.*"}), ("basic", {"tags": ["selection"]}),
 ("basic", {"query": "simulation.*"}), ("basic", {"query": "num_cells"}),
 ("tags", {"tags": ["x"]}), ("tags", {"tags": ["y"]}), ("tags", {"tags": ["x","y"]}),
 ("tags", {"query": "grp.*"}), ("tags", {"query": "grp.*", "tags": ["x"]}),
 ("tags", {"query": "*", "tags": ["nothing"]}), ("derived", {"query": "box.width"}),
 ("matrix", {"query": "m"}), ("arrays", {"query": "sizes"}),
]
for key, sel in SELECTS:
    for bname, (cls, popts) in BACKENDS.items():
        for pk in popts[:2]:
            record(f"select|{bname}|{key}|{sorted(sel.items())}|{sorted(pk.items())}",
                   lambda: run(cls, key, {}, sel, pk))

# explicit dtype option and extra includes
for bname, (cls, popts) in BACKENDS.items():
    for fmt in (Format.VALUE, Format.TYPE, Format.TUPLE):
        for key in ("basic", "arrays", "none"):
            record(f"dtype|{bname}|{key}|{fmt}", lambda: run(cls, key, {"dtype": fmt}, None, {}))

def with_includes(cls, key):
    env = env_of(key)
    with cls(env) as exp:
        exp.include("<stdint.h>")
        exp.include("\"my.h\"")
        exp.include("<stdint.h>")
        first = exp.parse()
        second = exp.parse(guard="AGAIN_H")
        return [first, second, list(exp.includes)]
for cls in (ExportConfigC, ExportConfigCPP):
    for key in ("basic", "ints", "booleans"):
        record(f"includes|{cls.__name__}|{key}", lambda: with_includes(cls, key))

# hand-made typed data reaching widths the DIP grammar does not produce
from scinumtools.dip.datatypes import StringType, BooleanType, IntegerType, FloatType
def handmade():
    return {
      "i8": IntegerType(-5, precision=8), "u8": IntegerType(200, precision=8, unsigned=True),
      "i128": IntegerType(5, precision=128), "u16": IntegerType(7, "m", precision=16, unsigned=True),
      "f16": FloatType(0.5, precision=16), "f80": FloatType(0.5, "s", precision=80),
      "f96": FloatType(0.25, precision=96), "f128": FloatType([1.0, 2.0], precision=128),
      "multi.line": StringType("two\nlines"), "empty": IntegerType([], precision=32),
      "tup": IntegerType((1, 2), precision=64), "nd": FloatType(np.array([[1.0, 2.0], [3.0, 4.0]]), precision=32),
      "b": BooleanType(False), "bn": BooleanType(None), "sn": StringType(None),
      "sa": StringType(["x\"y", "z"]),
    }
def run_handmade(cls, name, rename, pk):
    exp = cls(env_of("basic"), rename=rename)
    item = handmade()[name]
    if cls in (ExportConfigBash,):
        item = item.value
    elif cls in (ExportConfigJSON, ExportConfigTOML, ExportConfigYAML):
        item = (item.value, item.unit) if getattr(item, "unit", None) else item.value
    exp.data = {name: item}
    out = {"text": exp.parse(**pk)}
    if hasattr(exp, "includes"):
        out["includes"] = list(exp.includes)
    return out
for name in handmade():
    for bname, (cls, popts) in BACKENDS.items():
        for rename in (True, False):
            record(f"handmade|{bname}|{name}|{rename}", lambda: run_handmade(cls, name, rename, {}))
    for cls in (ExportConfigC, ExportConfigCPP):
        record(f"handmade-define|{cls.__name__}|{name}", lambda: run_handmade(cls, name, True, {"define": (name,)}))
    record(f"handmade-const|{name}", lambda: run_handmade(ExportConfigCPP, name, True, {"const": (name,)}))

# a definitions environment is refused
def not_data():
    from scinumtools.dip.settings import EnvType
    env = env_of("basic")
    env.envtype = EnvType.DOCS if hasattr(EnvType, "DOCS") else None
    return ExportConfig(env).parse()
record("not-data", not_data)

# private helpers that the back-ends share
def escapes():
    exp = ExportConfig(env_of("basic"))
    vals = ['a"b', "back\\slash", "new\nline", "$x `y`", 12, None]
    return [[exp._escape(v), exp._escape(v, "\"$`", newline=None), exp._rename("a.b.c")] for v in vals]
record("escape", escapes)

print(json.dumps(results, sort_keys=True, default=repr))
'''

def run(root):
    p = subprocess.run([sys.executable, "-c", CHILD, root], capture_output=True, text=True, cwd="/tmp")
    if p.returncode != 0:
        print("child failed for", root, "\n", p.stderr[-3000:])
        sys.exit(2)
    return json.loads(p.stdout)

def main():
    a = run(sys.argv[1].rstrip("/"))
    b = run(sys.argv[2].rstrip("/"))
    bad = [k for k in sorted(set(a) | set(b)) if a.get(k) != b.get(k)]
    n_ok = sum(1 for v in a.values() if v[0] == "ok")
    print(f"{len(a)} cases ({n_ok} ok, {len(a)-n_ok} raising); {len(bad)} differences")
    for k in bad[:20]:
        print("DIFF", k, "\n   base:", a.get(k), "\n   new: ", b.get(k))
    sys.exit(1 if bad else 0)

if __name__ == "__main__":
    main()
