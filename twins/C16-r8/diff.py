#!/usr/bin/env python
"""Differential check for property C16 (parse() returns only environments that
satisfy every declared constraint).

usage: diff.py <unmodified tree root> <refactored tree root>

Each tree is exercised in its own subprocess (own sys.path) with the same set
of DIP inputs; the script exits 0 iff every observable output is identical.
"""
import json
import os
import subprocess
import sys

CASES = [
    # --- options, per-line form -------------------------------------------
    ("opt_int_ok",        "coordinates int = 1\n  = 1  # linear\n  = 2  # cylindrical\n  = 3\n"),
    ("opt_int_off",       "coordinates int = 4\n  = 1\n  = 2\n  = 3\n"),
    ("opt_int_mod_ok",    "coordinates int = 1\n  = 1\n  = 2\ncoordinates = 2\n"),
    ("opt_int_mod_off",   "coordinates int = 1\n  = 1\n  = 2\ncoordinates = 3\n"),
    ("opt_decl_noval",    "length float cm\n  = 12 cm\n  = 34 cm\n"),
    ("opt_bool",          "deposition bool = true\n  = true\n  = false\n"),
    ("opt_units_ok",      "width float = 2 m\n  = 2 m\n  = 3 m\nwidth = 3000 mm\n"),
    ("opt_units_off",     "size float = 24 cm\n  = 24 cm\n  = 25 m\nsize = 25 cm\n"),
    ("opt_units_near",    "size float = 24 cm\n  = 24 cm\n  = 25 cm\nsize = 250.001 mm\n"),
    ("opt_units_close",   "size float = 24 cm\n  = 24 cm\n  = 25 cm\nsize = 250.0000001 mm\n"),
    ("opt_int_units",     "n int = 2 m\n  = 2 m\n  = 300 cm\nn = 3 m\n"),
    ("opt_int_units_off", "n int = 2 m\n  = 2 m\n  = 300 cm\nn = 4 m\n"),
    ("opt_str_ok",        "fruit str = apple\n  = apple\n  = 'pear'\nfruit = pear\n"),
    ("opt_str_off",       "fruit str = apple\n  = apple\n  = pear\nfruit = plum\n"),
    ("opt_str_case",      "fruit str = Apple\n  = apple\n  = pear\n"),
    # --- options, list form -------------------------------------------------
    ("opts_list_ok",      "size float cm\n  !options [12,13,14,15,16] cm\n  !options [22,23,24,25] m\nsize = 23 m\n"),
    ("opts_list_off",     "size float cm\n  !options [12,13,14,15,16] cm\nsize = 11\n"),
    ("opts_list_edge",    "size float cm\n  !options [12,13,14,15,16] cm\nsize = 160 mm\n"),
    ("opts_list_over",    "size float cm\n  !options [12,13,14,15,16] cm\nsize = 161 mm\n"),
    ("opts_list_int",     "k int = 5\n  !options [1,3,5]\n"),
    ("opts_list_int_off", "k int = 4\n  !options [1,3,5]\n"),
    ("opts_list_str",     "c str = red\n  !options [\"red\",\"green\"]\n"),
    ("opts_list_str_off", "c str = blue\n  !options [\"red\",\"green\"]\n"),
    ("opts_mixed",        "k int = 7\n  !options [1,3,5]\n  = 7\n"),
    ("opts_on_bool",      "b bool = true\n  !options [1,2]\n"),
    # --- conditions -----------------------------------------------------------
    ("cond_ok",           "size float = 23 cm\n  !condition ('200 mm < {?} && {?} < 30 cm')\n"),
    ("cond_off",          "size float = 23 cm\n  !condition ('250 mm < {?} && {?} < 30 cm')\n"),
    ("cond_edge_lt",      "size float = 30 cm\n  !condition ('{?} < 30 cm')\n"),
    ("cond_edge_le",      "size float = 30 cm\n  !condition ('{?} <= 30 cm')\n"),
    ("cond_mod_off",      "size float = 23 cm\n  !condition ('{?} < 30 cm')\nsize = 31 cm\n"),
    ("cond_mod_ok",       "size float = 33 cm\n  !condition ('{?} < 30 cm')\nsize = 29 cm\n"),
    ("cond_int",          "n int = 5\n  !condition ('{?} >= 5')\n"),
    ("cond_int_off",      "n int = 4\n  !condition ('{?} >= 5')\n"),
    ("cond_bool_ok",      "flag bool = true\n  !condition ('{?} == true')\n"),
    ("cond_bool_off",     "flag bool = false\n  !condition ('{?} == true')\n"),
    ("cond_str_ok",       "name str = John\n  !condition ('{?} == \"John\"')\n"),
    ("cond_str_off",      "name str = Jane\n  !condition ('{?} == \"John\"')\n"),
    ("cond_other_node",   "a int = 3\nb int = 4\n  !condition ('{?} > {?a}')\n"),
    ("cond_other_off",    "a int = 5\nb int = 4\n  !condition ('{?} > {?a}')\n"),
    ("cond_two_nodes",    "a int = 3\n  !condition ('{?} < 5')\nb int = 9\n  !condition ('{?} < 5')\n"),
    ("cond_invalid",      "a int = 3\n  !condition ('{?} <')\n"),
    # --- formats --------------------------------------------------------------
    ("fmt_ok",            "name str = John\n  !format \"[a-zA-Z]+\"\n"),
    ("fmt_off",           "name str = 7-up\n  !format '[a-zA-Z]+'\n"),
    ("fmt_anchor_ok",     "name str = John\n  !format '^[a-zA-Z]+$'\n"),
    ("fmt_anchor_off",    "name str = John7\n  !format '^[a-zA-Z]+$'\n"),
    ("fmt_prefix",        "name str = John7\n  !format '[a-zA-Z]+'\n"),
    ("fmt_mod_off",       "name str = John\n  !format '^[a-zA-Z]+$'\nname = J0hn\n"),
    ("fmt_on_float",      "size float = 23 cm\n  !format '[a-zA-Z]+'\n"),
    ("fmt_on_int",        "size int = 23\n  !format '[0-9]+'\n"),
    # --- dimensions -------------------------------------------------------------
    ("dim_ok",            "counts int[3] = [4234,34,2]\nlengths float[2:,2] = [[4234,34],[234,34]] cm\n"
                          "colleagues str[:] = [\"John\",\"Patricia\",\"Lena\"]\nlogic bool[2] = [true,false]\n"),
    ("dim_over",          "counts int[2] = [4234,34,2]\n"),
    ("dim_under",         "counts int[2] = [4234]\n"),
    ("dim_max_over",      "counts int[:2] = [4234,34,2]\n"),
    ("dim_max_edge",      "counts int[:2] = [4234,34]\n"),
    ("dim_min_under",     "counts int[2:] = [4234]\n"),
    ("dim_min_edge",      "counts int[2:] = [4234,1]\n"),
    ("dim_range_ok",      "counts int[1:3] = [1,2,3]\n"),
    ("dim_range_over",    "counts int[1:3] = [1,2,3,4]\n"),
    ("dim_second",        "counts int[2,3:] = [[234,4234],[234,34]]\n"),
    ("dim_second_ok",     "counts float[2,:3] = [[1,2,3],[4,5,6]] m\n"),
    ("dim_second_over",   "counts float[2,:2] = [[1,2,3],[4,5,6]] m\n"),
    ("dim_scalar_array",  "counts int = [[234,4234],[234,34]]\n"),
    ("dim_mod_over",      "counts int[:2] = [1,2]\ncounts = [1,2,3]\n"),
    ("dim_mod_ok",        "counts int[:3] = [1,2]\ncounts = [1,2,3]\n"),
    ("dim_str_under",     "names str[2:] = [\"a\"]\n"),
    # --- declared nodes need a value -------------------------------------------
    ("decl_noval",        "age int\n"),
    ("decl_later",        "age int\nage = 30\n"),
    ("decl_none",         "age int = none\n"),
    ("decl_float_unit",   "w float kg\nw = 3 g\n"),
    # --- combinations ------------------------------------------------------------
    ("combo_ok",          "size float = 23 cm\n  = 23 cm\n  = 0.3 m\n  !condition ('{?} > 10 cm')\nname str = Ab\n  !format '^[A-Z][a-z]$'\n  = Ab\n  = Cd\n"),
    ("combo_opt_fail",    "size float = 23 cm\n  = 24 cm\n  !condition ('{?} > 10 cm')\n"),
    ("combo_cond_fail",   "size float = 23 cm\n  = 23 cm\n  !condition ('{?} > 1 m')\n"),
    ("combo_fmt_fail",    "name str = Ab\n  = Ab\n  !format '^[a-z]+$'\n"),
    ("combo_group",       "box\n  size float = 2 m\n    = 2 m\n    = 4 m\n  tag str = ab\n    !format '^a'\nbox.size = 400 cm\n"),
    ("combo_group_off",   "box\n  size float = 2 m\n    = 2 m\n    = 4 m\nbox.size = 401 cm\n"),
    ("combo_case",        "a bool = true\n@case ('{?a}')\n  n int = 3\n    !condition ('{?} < 3')\n@else\n  n int = 1\n@end\n"),
    ("combo_case_skip",   "a bool = false\n@case ('{?a}')\n  n int = 3\n    !condition ('{?} < 3')\n@else\n  n int = 1\n    !options [1,2]\n@end\n"),
    ("combo_constant",    "size float = 30 cm\n  !constant\n  = 30 cm\nsize = 23\n"),
]

RUNNER = r'''
import sys, json
root = sys.argv[1]
sys.path.insert(0, root + '/src')
import numpy as np
import scinumtools
assert scinumtools.__file__.startswith(root + '/'), (scinumtools.__file__, root)
from scinumtools.dip import DIP
from scinumtools.dip.datatypes import Type

cases = json.loads(sys.stdin.read())

def show(v):
    if isinstance(v, Type):
        return [type(v).__name__, show(v.value), v.unit]
    if isinstance(v, np.ndarray):
        return ['ndarray', str(v.dtype), v.tolist()]
    if isinstance(v, (list, tuple)):
        return [show(x) for x in v]
    if isinstance(v, (np.generic,)):
        return [type(v).__name__, v.item()]
    return [type(v).__name__, repr(v)]

out = {}
for name, code in cases:
    try:
        with DIP() as p:
            p.add_string(code)
            env = p.parse()
        nodes = []
        for node in env.nodes:
            nodes.append(dict(
                name=node.name, keyword=node.keyword, value=show(node.value),
                units_raw=node.units_raw, condition=node.condition,
                format=getattr(node, 'format', None),
                dimension=show(node.dimension) if node.dimension else None,
                constant=node.constant,
                options=[[show(o.value), show(o.value_raw), o.units_raw] for o in (getattr(node, 'options', None) or [])],
            ))
        res = dict(ok=True, nodes=nodes, autoref=env.autoref, cursor=env.nodes.cursor)
    except BaseException as e:
        res = dict(ok=False, etype=type(e).__name__, args=[show(a) for a in e.args])
    out[name] = res
print(json.dumps(out, sort_keys=True))
'''


def run(root):
    root = os.path.abspath(root)
    env = dict(os.environ)
    env.pop('PYTHONPATH', None)
    env['PYTHONDONTWRITEBYTECODE'] = '1'
    proc = subprocess.run(
        [sys.executable, '-c', RUNNER, root],
        input=json.dumps(CASES), capture_output=True, text=True, cwd=root, env=env,
    )
    if proc.returncode != 0:
        sys.stderr.write(proc.stderr)
        raise SystemExit(2)
    return json.loads(proc.stdout.strip().splitlines()[-1])


def main():
    base = os.path.abspath(sys.argv[1])
    new = os.path.abspath(sys.argv[2])
    a = run(base)
    b = run(new)
    bad = 0
    for name, _ in CASES:
        if a[name] != b[name]:
            bad += 1
            print(f"DIFF in {name}:\n  base: {a[name]}\n  new : {b[name]}")
    accepted = sum(1 for v in a.values() if v['ok'])
    print(f"{len(CASES)} cases ({accepted} accepted, {len(CASES)-accepted} rejected by base); {bad} differences")
    sys.exit(1 if bad else 0)


if __name__ == '__main__':
    main()
