"""Literal evaluator: turns AST expressions that denote data into Python data
without running repository code."""
import ast
import math
import re

from .model import AnalysisError


class NotLiteral(AnalysisError):
    pass


class ClassRef:
    def __init__(self, module, node):
        self.module = module
        self.node = node
        self.name = node.name

    def __repr__(self):
        return f"<class {self.name}>"

    def __eq__(self, other):
        return isinstance(other, ClassRef) and other.name == self.name and other.module.relpath == self.module.relpath

    def __hash__(self):
        return hash((self.name, self.module.relpath))


class FuncRef:
    def __init__(self, module, node):
        self.module = module
        self.node = node
        self.name = node.name

    def __repr__(self):
        return f"<function {self.name}>"


_NP_CONST = {"np.e": math.e, "np.pi": math.pi, "math.e": math.e, "math.pi": math.pi,
             "numpy.e": math.e, "numpy.pi": math.pi}


class Evaluator:
    def __init__(self, repo, module, env=None):
        self.repo = repo
        self.module = module
        self.env = dict(env or {})

    def ev(self, node):
        m = getattr(self, "_" + type(node).__name__, None)
        if m is None:
            raise NotLiteral(f"not a literal: {type(node).__name__} at {self.module.relpath}:{getattr(node,'lineno','?')}")
        return m(node)

    def _Constant(self, n):
        return n.value

    def _Tuple(self, n):
        return tuple(self._seq(n.elts))

    def _List(self, n):
        return list(self._seq(n.elts))

    def _Set(self, n):
        return set(self._seq(n.elts))

    def _seq(self, elts):
        out = []
        for e in elts:
            if isinstance(e, ast.Starred):
                out.extend(self.ev(e.value))
            else:
                out.append(self.ev(e))
        return out

    def _Dict(self, n):
        d = {}
        for k, v in zip(n.keys, n.values):
            if k is None:
                d.update(self.ev(v))
            else:
                d[self.ev(k)] = self.ev(v)
        return d

    def _UnaryOp(self, n):
        v = self.ev(n.operand)
        if isinstance(n.op, ast.USub):
            return -v
        if isinstance(n.op, ast.UAdd):
            return +v
        if isinstance(n.op, ast.Not):
            return not v
        raise NotLiteral("unary op")

    def _BinOp(self, n):
        a, b = self.ev(n.left), self.ev(n.right)
        try:
            if isinstance(n.op, ast.Add):
                return a + b
            if isinstance(n.op, ast.Sub):
                return a - b
            if isinstance(n.op, ast.Mult):
                return a * b
            if isinstance(n.op, ast.Div):
                return a / b
            if isinstance(n.op, ast.FloorDiv):
                return a // b
            if isinstance(n.op, ast.Pow):
                return a ** b
            if isinstance(n.op, ast.Mod):
                return a % b
            if isinstance(n.op, ast.BitOr):
                return a | b
        except Exception as e:
            raise NotLiteral(f"arith: {e}")
        raise NotLiteral("binop")

    def _JoinedStr(self, n):
        out = []
        for v in n.values:
            if isinstance(v, ast.Constant):
                out.append(str(v.value))
            elif isinstance(v, ast.FormattedValue):
                val = self.ev(v.value)
                spec = ""
                if v.format_spec is not None:
                    spec = self._JoinedStr(v.format_spec)
                out.append(format(val, spec))
            else:
                raise NotLiteral("fstring")
        return "".join(out)

    def _Name(self, n):
        if n.id in self.env:
            return self.env[n.id]
        if n.id in ("True", "False", "None"):
            return {"True": True, "False": False, "None": None}[n.id]
        r = self.repo.resolve(self.module, n.id)
        if r is None:
            raise NotLiteral(f"unresolved name {n.id} in {self.module.relpath}")
        mod, kind, node = r
        if kind == "class":
            return ClassRef(mod, node)
        if kind == "function":
            return FuncRef(mod, node)
        if kind == "assign":
            return Evaluator(self.repo, mod).ev(node)
        raise NotLiteral(f"name {n.id} is a {kind}")

    def _Attribute(self, n):
        from .model import dotted_name
        dn = dotted_name(n)
        if dn in _NP_CONST:
            return _NP_CONST[dn]
        base = self.ev(n.value)
        if isinstance(base, ClassRef):
            r = self.repo.class_attr(base.module, base.node, n.attr)
            if r is None:
                raise NotLiteral(f"class {base.name} has no literal attribute {n.attr}")
            return Evaluator(self.repo, r[0]).ev(r[1])
        raise NotLiteral(f"attribute {n.attr} of non-class")

    def _Call(self, n):
        from .model import dotted_name
        fn = dotted_name(n.func)
        if fn == "dict" and not n.args:
            return {k.arg: self.ev(k.value) for k in n.keywords}
        if fn == "dict" and len(n.args) == 1 and not n.keywords:
            return dict(self.ev(n.args[0]))
        if fn in ("list", "tuple", "set") and len(n.args) <= 1:
            v = self.ev(n.args[0]) if n.args else []
            return {"list": list, "tuple": tuple, "set": set}[fn](v)
        if fn == "re.escape" and len(n.args) == 1:
            return re.escape(self.ev(n.args[0]))
        if fn in ("np.log", "math.log", "numpy.log") and len(n.args) == 1:
            return math.log(self.ev(n.args[0]))
        if fn in ("np.log10", "math.log10") and len(n.args) == 1:
            return math.log10(self.ev(n.args[0]))
        if fn in ("np.sqrt", "math.sqrt") and len(n.args) == 1:
            return math.sqrt(self.ev(n.args[0]))
        if fn in ("float", "int", "str") and len(n.args) == 1:
            return {"float": float, "int": int, "str": str}[fn](self.ev(n.args[0]))
        if fn == "len" and len(n.args) == 1:
            return len(self.ev(n.args[0]))
        raise NotLiteral(f"call {fn}")

    def _Subscript(self, n):
        base = self.ev(n.value)
        idx = self.ev(n.slice)
        try:
            return base[idx]
        except Exception as e:
            raise NotLiteral(f"subscript: {e}")

    def _Slice(self, n):
        return slice(self.ev(n.lower) if n.lower is not None else None,
                     self.ev(n.upper) if n.upper is not None else None,
                     self.ev(n.step) if n.step is not None else None)

    def _IfExp(self, n):
        return self.ev(n.body) if self.ev(n.test) else self.ev(n.orelse)

    # comprehensions over literal iterables (bounded): [f(x) for x in TABLE if p(x)]
    def _comp(self, n, build):
        out = []

        def rec(gi, env):
            if gi == len(n.generators):
                sub = Evaluator(self.repo, self.module, env)
                out.append(build(sub))
                return
            g = n.generators[gi]
            it = Evaluator(self.repo, self.module, env).ev(g.iter)
            if isinstance(it, dict):
                it = list(it.keys())
            if not isinstance(it, (list, tuple, set, str)) or len(it) > 5000:
                raise NotLiteral("comprehension over a non-literal iterable")
            for item in it:
                e2 = dict(env)
                self._bind(g.target, item, e2)
                sub = Evaluator(self.repo, self.module, e2)
                if all(sub.ev(c) for c in g.ifs):
                    rec(gi + 1, e2)
        rec(0, dict(self.env))
        return out

    def _bind(self, target, value, env):
        if isinstance(target, ast.Name):
            env[target.id] = value
        elif isinstance(target, (ast.Tuple, ast.List)) and isinstance(value, (tuple, list)) and len(value) == len(target.elts):
            for t, v in zip(target.elts, value):
                self._bind(t, v, env)
        else:
            raise NotLiteral("comprehension target")

    def _ListComp(self, n):
        return self._comp(n, lambda sub: sub.ev(n.elt))

    def _GeneratorExp(self, n):
        return self._comp(n, lambda sub: sub.ev(n.elt))

    def _SetComp(self, n):
        return set(self._comp(n, lambda sub: sub.ev(n.elt)))

    def _DictComp(self, n):
        return dict(self._comp(n, lambda sub: (sub.ev(n.key), sub.ev(n.value))))

    def _Compare(self, n):
        left = self.ev(n.left)
        for op, c in zip(n.ops, n.comparators):
            right = self.ev(c)
            ok = {ast.Eq: lambda a, b: a == b, ast.NotEq: lambda a, b: a != b, ast.In: lambda a, b: a in b, ast.NotIn: lambda a, b: a not in b,
                  ast.Lt: lambda a, b: a < b, ast.LtE: lambda a, b: a <= b, ast.Gt: lambda a, b: a > b, ast.GtE: lambda a, b: a >= b,
                  ast.Is: lambda a, b: a is b, ast.IsNot: lambda a, b: a is not b}.get(type(op))
            if ok is None:
                raise NotLiteral("comparison")
            try:
                if not ok(left, right):
                    return False
            except Exception as e:
                raise NotLiteral(f"comparison: {e}")
            left = right
        return True

    def _BoolOp(self, n):
        vals = [self.ev(v) for v in n.values]
        if isinstance(n.op, ast.And):
            r = True
            for v in vals:
                r = v
                if not v:
                    break
            return r
        for v in vals:
            if v:
                return v
        return vals[-1]


def evaluate(repo, module, node, env=None):
    return Evaluator(repo, module, env).ev(node)
