"""Structure of regular-expression literals via the stdlib regex front-end (re._parser).
Only the *pattern* is analysed; nothing is matched."""
import re._parser as sp   # noqa
from re._constants import error as re_error   # noqa

from .model import AnalysisError

try:
    from re._constants import SUBPATTERN, LITERAL, MAX_REPEAT, MIN_REPEAT, IN, CATEGORY, BRANCH, AT, ANY, NOT_LITERAL
except ImportError:   # pragma: no cover
    raise


class Elem:
    """Top-level element of a pattern: a group (with number and children), a literal string, or other."""

    def __init__(self, kind, group=None, text=None, children=None, blank=False, nullable=False, digits=False):
        self.kind, self.group, self.text = kind, group, text      # kind: group | literal | other
        self.digits = digits        # matches only decimal digits
        self.children = children or []
        self.blank = blank          # matches only whitespace
        self.nullable = nullable    # may match the empty string

    def __repr__(self):
        if self.kind == "group":
            return f"g{self.group}" + (f"[{','.join(map(repr, self.children))}]" if self.children else "")
        if self.kind == "literal":
            return repr(self.text)
        return "<blank>" if self.blank else "<other>"


def _only_space(items):
    """Does the sub-pattern match only whitespace?"""
    for op, av in items:
        if op in (MAX_REPEAT, MIN_REPEAT):
            if not _only_space(av[2]):
                return False
        elif op is IN:
            if not all(o is CATEGORY and str(a) == "CATEGORY_SPACE" for o, a in av):
                return False
        elif op is LITERAL:
            if chr(av) not in " \t":
                return False
        else:
            return False
    return True


def _only_digits(items):
    """Does the sub-pattern match only decimal digits (or nothing)?"""
    if not items:
        return False
    for op, av in items:
        if op in (MAX_REPEAT, MIN_REPEAT):
            if not _only_digits(av[2]):
                return False
        elif op is IN:
            for o, a in av:
                if o is CATEGORY and str(a) == "CATEGORY_DIGIT":
                    continue
                if str(o) == "RANGE" and chr(a[0]).isdigit() and chr(a[1]).isdigit():
                    continue
                if o is LITERAL and chr(a).isdigit():
                    continue
                return False
        elif op is LITERAL:
            if not chr(av).isdigit():
                return False
        else:
            return False
    return True


def _nullable(items):
    for op, av in items:
        if op in (MAX_REPEAT, MIN_REPEAT):
            if av[0] > 0 and not _nullable(av[2]):
                return False
        elif op is SUBPATTERN:
            if not _nullable(av[3]):
                return False
        elif op is BRANCH:
            if not any(_nullable(b) for b in av[1]):
                return False
        elif op is AT:
            continue
        else:
            return False
    return True


def _elements(items):
    out = []
    buf = ""
    for op, av in items:
        if op is LITERAL:
            buf += chr(av)
            continue
        if buf:
            out.append(Elem("literal", text=buf))
            buf = ""
        if op is SUBPATTERN:
            gid, _, _, sub = av
            kids = _elements(sub)
            partition = bool(kids) and all(k.kind == "group" for k in kids)
            out.append(Elem("group", group=gid, children=kids if partition else [], blank=_only_space(sub), nullable=_nullable(sub), digits=_only_digits(list(sub))))
        elif op is AT:
            continue
        else:
            out.append(Elem("other", blank=_only_space([(op, av)]), nullable=_nullable([(op, av)])))
    if buf:
        out.append(Elem("literal", text=buf))
    return out


def top_level(pattern):
    try:
        t = sp.parse(pattern)
    except re_error as e:
        raise AnalysisError(f"regex does not parse: {pattern!r}: {e}")
    return _elements(list(t)), t.state.groups - 1


def group_count(pattern):
    try:
        return sp.parse(pattern).state.groups - 1
    except re_error as e:
        raise AnalysisError(f"regex does not parse: {pattern!r}: {e}")


def anchored(pattern):
    t = list(sp.parse(pattern))
    start = bool(t) and t[0][0] is AT and str(t[0][1]) in ("AT_BEGINNING", "AT_BEGINNING_STRING")
    end = bool(t) and t[-1][0] is AT and str(t[-1][1]) in ("AT_END", "AT_END_STRING")
    return start, end


def group1_spans_all(pattern):
    """Is the whole pattern (anchors aside) exactly capturing group 1?  (what `_strip(m.group(1))` relies on)"""
    t = [x for x in sp.parse(pattern) if x[0] is not AT]
    return len(t) == 1 and t[0][0] is SUBPATTERN and t[0][1][0] == 1
