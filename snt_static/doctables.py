"""Readers for documentation tables (RST csv-table / list-table, CSV files)."""
import csv
import io
import re

from .model import AnalysisError


def csv_table(repo, relpath, title):
    """Rows (lists of stripped cells, header excluded) of `.. csv-table:: <title>`."""
    txt = repo.read_text(relpath)
    lines = txt.split("\n")
    for i, ln in enumerate(lines):
        if re.match(r"\s*\.\.\s+csv-table::\s*" + re.escape(title) + r"\s*$", ln):
            body = []
            j = i + 1
            # options and blank lines
            while j < len(lines) and (lines[j].strip().startswith(":") or not lines[j].strip()):
                j += 1
            while j < len(lines) and (lines[j].startswith("   ") or not lines[j].strip()):
                if lines[j].strip():
                    body.append(lines[j].strip())
                elif body:
                    # blank line ends the table once rows have started and next line is not indented
                    if j + 1 < len(lines) and not lines[j + 1].startswith("   "):
                        break
                j += 1
            rows = list(csv.reader(io.StringIO("\n".join(body)), skipinitialspace=True))
            rows = [[c.strip() for c in r] for r in rows if r]
            if len(rows) < 2:
                raise AnalysisError(f"csv-table '{title}' in {relpath} has no rows")
            return rows[1:]
    raise AnalysisError(f"csv-table '{title}' not found in {relpath}")


def list_table(repo, relpath, title):
    """Rows of `.. list-table:: <title>` (header excluded)."""
    txt = repo.read_text(relpath)
    lines = txt.split("\n")
    for i, ln in enumerate(lines):
        if re.match(r"\s*\.\.\s+list-table::\s*" + re.escape(title) + r"\s*$", ln):
            rows, cur = [], None
            j = i + 1
            while j < len(lines):
                s = lines[j]
                if s.strip() and not s.startswith(" ") and not s.startswith("\t"):
                    break
                m = re.match(r"\s*\*\s+-\s?(.*)$", s)
                m2 = re.match(r"\s+-\s?(.*)$", s)
                if m:
                    cur = [m.group(1).strip()]
                    rows.append(cur)
                elif m2 and cur is not None:
                    cur.append(m2.group(1).strip())
                j += 1
            if len(rows) < 2:
                raise AnalysisError(f"list-table '{title}' in {relpath} has no rows")
            return rows[1:]
    raise AnalysisError(f"list-table '{title}' not found in {relpath}")
