"""Driver: python -m snt_static.check <Cxx> [--tier quick|thorough] [--explain] [--replay file]"""
import argparse
import importlib
import json
import os
import sys
import traceback


def main(argv=None):
    ap = argparse.ArgumentParser()
    ap.add_argument("prop")
    ap.add_argument("--tier", default=os.environ.get("VERIF_TIER") or "quick", choices=["quick", "thorough"])
    ap.add_argument("--explain", action="store_true")
    ap.add_argument("--replay")
    a = ap.parse_args(argv)
    try:
        mod = importlib.import_module(f"snt_static.rules.{a.prop}")
    except ImportError as e:
        print(f"ANALYSIS-ERROR property={a.prop} no rule module: {e}")
        return 2
    from snt_static.report import run_property
    key = None
    if a.replay:
        try:
            key = json.load(open(a.replay))["key"]
        except Exception as e:
            print(f"ANALYSIS-ERROR cannot read replay file: {e}")
            return 2
    try:
        rc = run_property(a.prop, mod.RULES, mod.__doc__ or "", a.tier, explain=a.explain or bool(a.replay), replay_key=key)
        if rc != 1 and a.tier == "thorough" and not a.replay and hasattr(mod, "THOROUGH"):
            pass
        return rc
    except Exception:
        print(f"ANALYSIS-ERROR property={a.prop} machinery failure")
        traceback.print_exc()
        return 2


if __name__ == "__main__":
    sys.exit(main())
