"""Path-wise symbolic execution of small functions: predtable drives the branches
under one valuation, SymEval computes the terms bound to names along that path."""
import ast

from .model import dotted_name, norm
from .predtable import Handler, Unrecognised, run_block
from .symexpr import NotSymbolic, SymEval, Term


class NoneVal:
    def __repr__(self):
        return "None"

    def key(self):
        return "None"


NONE = NoneVal()


class SymHandler(Handler):
    def __init__(self, decide, env=None, inline=None, opaque_ok=True):
        super().__init__()
        self.decide = decide                  # callback(test_node, handler) -> bool | None
        self.sym = SymEval(env or {}, inline=inline)
        self.ret = None
        self.returned = False
        self.raised = False
        self.opaque_ok = opaque_ok
        self.calls = []                       # expression statements (calls) seen on the path

    @property
    def env(self):
        return self.sym.env

    def boolval(self, node):
        """Truth of a condition when it is decidable from what is known on this path: `x is None` from the NONE-ness of
        the bound value, boolean locals, and/or/not over such parts; anything else goes to the rule's decide callback."""
        if isinstance(node, ast.Constant) and isinstance(node.value, bool):
            return node.value
        if isinstance(node, ast.Name) and isinstance(self.env.get(node.id), bool):
            return self.env[node.id]
        if isinstance(node, ast.UnaryOp) and isinstance(node.op, ast.Not):
            v = self.boolval(node.operand)
            return None if v is None else not v
        if isinstance(node, ast.BoolOp):
            vs = [self.boolval(v) for v in node.values]
            if isinstance(node.op, ast.And):
                if any(v is False for v in vs):
                    return False
                return None if any(v is None for v in vs) else True
            if any(v is True for v in vs):
                return True
            return None if any(v is None for v in vs) else False
        if isinstance(node, ast.Compare) and len(node.ops) == 1 and isinstance(node.ops[0], (ast.Is, ast.IsNot)) \
                and isinstance(node.comparators[0], ast.Constant) and node.comparators[0].value is None:
            d = dotted_name(node.left)
            if d is not None and d in self.env:
                isnone = self.env[d] is NONE
                return isnone if isinstance(node.ops[0], ast.Is) else not isnone
        return self.decide(node, self)

    def test(self, node):
        return self.boolval(node)

    def value(self, node):
        if isinstance(node, ast.IfExp):
            t = self.decide(node.test, self)
            if t is None and isinstance(node.test, ast.UnaryOp) and isinstance(node.test.op, ast.Not):
                t = self.decide(node.test.operand, self)
                t = None if t is None else not t
            if t is not None:
                return self.value(node.body if t else node.orelse)
        if isinstance(node, ast.Constant) and node.value is None:
            return NONE
        if isinstance(node, ast.Name) and self.env.get(node.id) is NONE:
            return NONE
        d = dotted_name(node)
        if d is not None and self.env.get(d) is NONE:
            return NONE
        try:
            return self.sym.ev(node)
        except NotSymbolic:
            if not self.opaque_ok:
                raise
            return Term.sym(f"<{norm(node)}>")

    def bind(self, target, val):
        if isinstance(target, ast.Name):
            self.env[target.id] = val
        elif isinstance(target, ast.Attribute):
            d = dotted_name(target)
            if d is None:
                raise Unrecognised(f"assignment target {norm(target)}")
            self.env[d] = val
        elif isinstance(target, ast.Subscript):
            self.env[norm(target)] = val
        else:
            raise Unrecognised(f"assignment target {norm(target)}")

    def stmt(self, node):
        if isinstance(node, ast.Assign):
            for t in node.targets:
                if isinstance(t, (ast.Tuple, ast.List)):
                    if isinstance(node.value, (ast.Tuple, ast.List)) and len(node.value.elts) == len(t.elts):
                        vals = [self.value(v) for v in node.value.elts]
                        for tt, vv in zip(t.elts, vals):
                            self.bind(tt, vv)
                    else:
                        for i, tt in enumerate(t.elts):
                            self.bind(tt, Term.sym(f"<{norm(node.value)}>[{i}]"))
                else:
                    if isinstance(node.value, (ast.BoolOp, ast.Compare)) or (isinstance(node.value, ast.UnaryOp) and isinstance(node.value.op, ast.Not)):
                        b = self.boolval(node.value)
                        if b is not None:
                            self.bind(t, b)       # a boolean local decided on this path
                            continue
                    self.bind(t, self.value(node.value))
        elif isinstance(node, ast.AnnAssign):
            if node.value is not None:
                self.bind(node.target, self.value(node.value))
        elif isinstance(node, ast.AugAssign):
            cur = self.value(node.target)
            v = self.value(node.value)
            if cur is NONE or v is NONE:
                raise Unrecognised("augmented assignment on None")
            op = type(node.op)
            if op is ast.Add:
                r = cur + v
            elif op is ast.Sub:
                r = cur - v
            elif op is ast.Mult:
                r = cur * v
            elif op is ast.Div:
                r = cur / v
            else:
                raise Unrecognised(f"augmented op {op.__name__}")
            self.bind(node.target, r)
        elif isinstance(node, ast.Return):
            self.returned = True
            self.ret = node.value
        elif isinstance(node, ast.Raise):
            self.raised = True
        elif isinstance(node, ast.Expr):
            self.calls.append(node.value)
            # a call handed a local container may fill or change it: what is read from that container afterwards is
            # whatever the callee left there, not a free symbol
            if isinstance(node.value, ast.Call):
                for a in list(node.value.args) + [k.value for k in node.value.keywords]:
                    if isinstance(a, ast.Name):
                        self.sym.escaped.add(a.id)
        else:
            raise Unrecognised(f"statement {norm(node)}")


def execute(fn, decide, env=None, inline=None, body=None):
    h = SymHandler(decide, env, inline)
    sig = run_block(body if body is not None else fn.body, h)
    return h, sig
