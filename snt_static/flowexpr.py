"""Path-wise forward substitution: every expression met on a path through a function is rewritten in
terms of the function's parameters, globals and opaque loop/handler values, so that rules compare
*values* (what text is searched, what slice is taken, what is tested) and not local variable names,
temporaries or statement order.  Nothing is executed: the environment maps names to expression trees.
"""
import ast
from collections import namedtuple

from .model import AnalysisError, dotted_name, norm
from .normalise import clone, is_pure

Event = namedtuple("Event", "kind node resolved extra")     # kind: test/assign/store/expr/return/raise/loop


class PathState:
    __slots__ = ("env", "events", "status", "loops")

    def __init__(self, env=None, events=None, status=None, loops=0):
        self.env = dict(env or {})
        self.events = list(events or [])
        self.status = status
        self.loops = loops

    def fork(self):
        return PathState(self.env, self.events, self.status, self.loops)

    def tests(self):
        return [e for e in self.events if e.kind == "test"]

    def signature(self):
        return tuple((norm(e.resolved), e.extra) for e in self.events if e.kind == "test")


class _Resolver(ast.NodeTransformer):
    def __init__(self, state):
        self.state = state
        self.shadow = []

    def _shadowed(self, name):
        return any(name in s for s in self.shadow)

    def visit_Name(self, n):
        if isinstance(n.ctx, ast.Load) and not self._shadowed(n.id) and n.id in self.state.env:
            return clone(self.state.env[n.id])
        return n

    def visit_Attribute(self, n):
        d = dotted_name(n)
        if d is not None and isinstance(n.ctx, ast.Load) and d in self.state.env and not self._shadowed(d.split(".")[0]):
            return clone(self.state.env[d])
        self.generic_visit(n)
        return n

    def visit_NamedExpr(self, n):
        v = self.visit(n.value)
        self.state.env[n.target.id] = v
        return clone(v)

    def _comp(self, n):
        names = set()
        for g in n.generators:
            g.iter = self.visit(g.iter)
            names |= {x.id for x in ast.walk(g.target) if isinstance(x, ast.Name)}
            self.shadow.append(names)
            g.ifs = [self.visit(i) for i in g.ifs]
            self.shadow.pop()
        self.shadow.append(names)
        if isinstance(n, ast.DictComp):
            n.key, n.value = self.visit(n.key), self.visit(n.value)
        else:
            n.elt = self.visit(n.elt)
        self.shadow.pop()
        return n

    visit_ListComp = visit_SetComp = visit_GeneratorExp = visit_DictComp = _comp

    def visit_Lambda(self, n):
        self.shadow.append({a.arg for a in n.args.args})
        n.body = self.visit(n.body)
        self.shadow.pop()
        return n


def _constlike(e):
    """Constant, tuple of such, or a dotted name of a class-level constant / enum member (Otype.UNARY, Keyword.CASE):
    compared by spelling."""
    if isinstance(e, ast.Constant):
        return True
    if isinstance(e, ast.Tuple):
        return all(_constlike(x) for x in e.elts)
    d = dotted_name(e)
    return d is not None and "." in d and d.split(".")[0][:1].isupper() and "@" not in d


def prefix_slice_index(n):
    """X[:k][i] with literal 0 <= i < k is X[i] for every sequence X (both raise IndexError together)."""
    if isinstance(n, ast.Subscript) and isinstance(n.slice, ast.Constant) and isinstance(n.slice.value, int) and not isinstance(n.slice.value, bool) \
            and isinstance(n.value, ast.Subscript) and isinstance(n.value.slice, ast.Slice):
        sl = n.value.slice
        low0 = sl.lower is None or (isinstance(sl.lower, ast.Constant) and sl.lower.value == 0)
        if low0 and sl.step is None and isinstance(sl.upper, ast.Constant) and isinstance(sl.upper.value, int) and 0 <= n.slice.value < sl.upper.value:
            return ast.Subscript(value=n.value.value, slice=n.slice, ctx=n.ctx)
    return None


class _Simplifier(ast.NodeTransformer):
    """Partial evaluation of what is decidable from spelling alone: lookups in literal dicts with constant keys,
    comparisons between constants / enum members, boolean operators and conditional expressions over the results,
    getattr with a literal name."""

    def visit_Call(self, n):
        self.generic_visit(n)
        f = n.func
        if isinstance(f, ast.Attribute) and f.attr == "get" and isinstance(f.value, ast.Dict) and 1 <= len(n.args) <= 2 and not n.keywords \
                and all(k is not None and _constlike(k) for k in f.value.keys) and _constlike(n.args[0]):
            key = norm(n.args[0])
            for k, v in zip(f.value.keys, f.value.values):
                if norm(k) == key:
                    return v
            return n.args[1] if len(n.args) == 2 else ast.Constant(value=None)
        if isinstance(f, ast.Name) and f.id == "str" and len(n.args) == 1 and not n.keywords and isinstance(n.args[0], ast.Constant) \
                and isinstance(n.args[0].value, (int, str)) and not isinstance(n.args[0].value, bool):
            return ast.Constant(value=str(n.args[0].value))
        if isinstance(f, ast.Name) and f.id == "getattr" and len(n.args) == 2 and isinstance(n.args[1], ast.Constant) and isinstance(n.args[1].value, str) \
                and n.args[1].value.isidentifier():
            return ast.Attribute(value=n.args[0], attr=n.args[1].value, ctx=ast.Load())
        if isinstance(f, ast.Name) and f.id == "dict" and len(n.args) == 1 and not n.keywords and isinstance(n.args[0], (ast.Tuple, ast.List)) \
                and all(isinstance(e, (ast.Tuple, ast.List)) and len(e.elts) == 2 for e in n.args[0].elts):
            return ast.Dict(keys=[e.elts[0] for e in n.args[0].elts], values=[e.elts[1] for e in n.args[0].elts])
        return n

    def visit_Subscript(self, n):
        self.generic_visit(n)
        if isinstance(n.value, ast.Dict) and all(k is not None and _constlike(k) for k in n.value.keys) and _constlike(n.slice):
            key = norm(n.slice)
            for k, v in zip(n.value.keys, n.value.values):
                if norm(k) == key:
                    return v
        if isinstance(n.value, (ast.Tuple, ast.List)) and isinstance(n.slice, ast.Constant) and isinstance(n.slice.value, int) \
                and not any(isinstance(e, ast.Starred) for e in n.value.elts) and -len(n.value.elts) <= n.slice.value < len(n.value.elts):
            return n.value.elts[n.slice.value]
        r = prefix_slice_index(n)
        return n if r is None else r

    def visit_BinOp(self, n):
        self.generic_visit(n)
        if isinstance(n.left, ast.Constant) and isinstance(n.right, ast.Constant) and isinstance(n.op, (ast.Add, ast.Mult, ast.Sub)):
            a, b = n.left.value, n.right.value
            try:
                if isinstance(n.op, ast.Add) and type(a) is type(b) and isinstance(a, (str, int, float)) and not isinstance(a, bool):
                    return ast.Constant(value=a + b)
                if isinstance(n.op, ast.Sub) and isinstance(a, (int, float)) and isinstance(b, (int, float)) and not isinstance(a, bool) and not isinstance(b, bool):
                    return ast.Constant(value=a - b)
                if isinstance(n.op, ast.Mult) and isinstance(a, int) and isinstance(b, int) and not isinstance(a, bool) and not isinstance(b, bool):
                    return ast.Constant(value=a * b)
            except Exception:
                return n
        return n

    def visit_JoinedStr(self, n):
        self.generic_visit(n)
        parts = []
        for v in n.values:
            if isinstance(v, ast.Constant) and isinstance(v.value, str):
                parts.append(v.value)
            elif isinstance(v, ast.FormattedValue) and isinstance(v.value, ast.Constant) and v.format_spec is None and v.conversion == -1 \
                    and isinstance(v.value.value, (str, int)) and not isinstance(v.value.value, bool):
                parts.append(str(v.value.value))
            else:
                return n
        return ast.Constant(value="".join(parts))

    def visit_Compare(self, n):
        self.generic_visit(n)
        if len(n.ops) == 1 and isinstance(n.ops[0], (ast.In, ast.NotIn)) and _constlike(n.left) and isinstance(n.comparators[0], (ast.Dict, ast.List, ast.Tuple, ast.Set)):
            c = n.comparators[0]
            keys = c.keys if isinstance(c, ast.Dict) else c.elts
            if all(k is not None and _constlike(k) for k in keys):
                hit = norm(n.left) in {norm(k) for k in keys}
                return ast.Constant(value=hit if isinstance(n.ops[0], ast.In) else not hit)
        if len(n.ops) == 1 and _constlike(n.left) and _constlike(n.comparators[0]) and isinstance(n.ops[0], (ast.Eq, ast.NotEq, ast.Is, ast.IsNot)):
            a, b = n.left, n.comparators[0]
            if isinstance(a, ast.Constant) and isinstance(b, ast.Constant):
                same = a.value == b.value and type(a.value) is type(b.value)
            elif isinstance(a, ast.Constant) or isinstance(b, ast.Constant):
                c = a if isinstance(a, ast.Constant) else b
                if c.value is None or isinstance(n.ops[0], (ast.Is, ast.IsNot)):
                    same = False      # an enum member / class constant is not None and not identical to a literal
                else:
                    return n
            else:
                same = norm(a) == norm(b)
                if not same and norm(a).split(".")[0] != norm(b).split(".")[0]:
                    return n          # members of different classes: not decidable by spelling
            return ast.Constant(value=same if isinstance(n.ops[0], (ast.Eq, ast.Is)) else not same)
        return n

    def visit_UnaryOp(self, n):
        self.generic_visit(n)
        if isinstance(n.op, ast.Not) and isinstance(n.operand, ast.Constant):
            return ast.Constant(value=not n.operand.value)
        return n

    truth_context = False

    def visit_BoolOp(self, n):
        # truth-preserving only: neutral constants are dropped, an absorbing constant ends the chain - applied to tests,
        # never to value expressions (`x or 0` is 0 when x is falsy)
        self.generic_visit(n)
        if not self.truth_context:
            return n
        is_and = isinstance(n.op, ast.And)
        vals = []
        for v in n.values:
            if isinstance(v, ast.Constant):
                if bool(v.value) != is_and:
                    vals.append(ast.Constant(value=not is_and))
                    break
                continue
            vals.append(v)
        if not vals:
            return ast.Constant(value=is_and)
        if isinstance(vals[0], ast.Constant) or len(vals) == 1:
            return vals[0]
        return ast.BoolOp(op=n.op, values=vals)

    def visit_IfExp(self, n):
        self.generic_visit(n)
        if isinstance(n.test, ast.Constant):
            return n.body if n.test.value else n.orelse
        return n


def simplify(expr, test=False):
    if expr is None:
        return None
    sm = _Simplifier()
    sm.truth_context = test
    return sm.visit(expr)


def resolve(expr, state, test=False):
    return simplify(_Resolver(state).visit(clone(expr)), test)


def _assigned_names(stmts):
    out = set()
    for s in stmts:
        for n in ast.walk(s):
            if isinstance(n, ast.Name) and isinstance(n.ctx, ast.Store):
                out.add(n.id)
    return out


class Explorer:
    def __init__(self, max_paths=4000, opaque_calls=False):
        self.max_paths = max_paths
        self.count = 0
        self.opaque_calls = opaque_calls
        self.prune = True
        self.iterations_all = {}
        self.iterations = {}          # id(loop node) -> (loop node, index of the first event of the iteration, [PathState])

    def _value(self, expr, st, node):
        """Resolved value of an assignment's right-hand side.  With opaque_calls, the result of an impure call is
        a token `<callee>#<k>` (k-th call of that callee on the path): objects are named by where they come from,
        not by the variable that holds them."""
        v = resolve(expr, st)
        if self.opaque_calls and isinstance(v, ast.Call) and not is_pure(v):
            callee = norm(v.func)
            k = 1 + sum(1 for e in st.events if e.kind == "call" and e.extra.split("#")[0] == callee)
            tok = f"{callee}#{k}"
            st.events.append(Event("call", node, v, tok))
            return ast.Name(id=tok, ctx=ast.Load())
        return v

    def bind(self, target, value, st, node):
        if isinstance(target, ast.Name):
            st.env[target.id] = value
            st.events.append(Event("assign", node, value, target.id))
        elif isinstance(target, (ast.Tuple, ast.List)):
            if isinstance(value, (ast.Tuple, ast.List)) and len(value.elts) == len(target.elts):
                for t, v in zip(target.elts, value.elts):
                    self.bind(t, v, st, node)
            else:
                for i, t in enumerate(target.elts):
                    self.bind(t, ast.Subscript(value=clone(value), slice=ast.Constant(value=i), ctx=ast.Load()), st, node)
        elif isinstance(target, ast.Attribute):
            # field stores are events, not bindings: a later read of the field stays a field read (the object may
            # be changed by any call in between)
            st.events.append(Event("store", node, value, norm(resolve_target(target, st))))
        elif isinstance(target, ast.Subscript):
            st.events.append(Event("store", node, value, norm(resolve_target(target, st))))
        elif isinstance(target, ast.Starred):
            self.bind(target.value, value, st, node)

    def block(self, stmts, states):
        for s in stmts:
            nxt = []
            for st in states:
                if st.status is not None:
                    nxt.append(st)
                else:
                    nxt.extend(self.stmt(s, st))
            states = nxt
            if len(states) > self.max_paths:
                raise AnalysisError(f"more than {self.max_paths} paths")
        return states

    @staticmethod
    def _invalidate(expr, st):
        """A method call on a named object may change its fields: forget what was recorded for `name.*`."""
        if expr is None:
            return
        for c in ast.walk(expr):
            if isinstance(c, ast.Call) and isinstance(c.func, ast.Attribute):
                r = dotted_name(c.func.value)
                if r:
                    for k in [k for k in st.env if k.startswith(r + ".")]:
                        del st.env[k]

    @staticmethod
    def _fresh_list(v):
        """The expression denotes a list created here (not an alias of stored state)."""
        if isinstance(v, (ast.List, ast.ListComp)):
            return True
        if isinstance(v, ast.Call) and isinstance(v.func, ast.Attribute) and v.func.attr in ("split", "rsplit", "splitlines"):
            return True
        if isinstance(v, ast.Call) and isinstance(v.func, ast.Name) and v.func.id in ("list", "sorted"):
            return True
        if isinstance(v, ast.BinOp) and isinstance(v.op, ast.Add):
            return Explorer._fresh_list(v.left) or Explorer._fresh_list(v.right)
        if isinstance(v, ast.Subscript) and isinstance(v.slice, ast.Slice):
            return Explorer._fresh_list(v.value)
        return False

    def _list_update(self, call, st):
        """x.pop() / x.append(v) / x.extend(v) / x.insert(0, v) on a local that holds a list created in this function:
        the local's value becomes the corresponding list expression (x[:-1], x + [v], x + v, [v] + x)."""
        if not (isinstance(call, ast.Call) and isinstance(call.func, ast.Attribute) and isinstance(call.func.value, ast.Name)):
            return
        name, m = call.func.value.id, call.func.attr
        cur = st.env.get(name)
        if cur is None or not self._fresh_list(cur) or call.keywords:
            return
        args = [resolve(a, st) for a in call.args]
        if m == "pop" and not args:
            st.env[name] = ast.Subscript(value=cur, slice=ast.Slice(lower=None, upper=ast.UnaryOp(op=ast.USub(), operand=ast.Constant(value=1)), step=None), ctx=ast.Load())
        elif m == "append" and len(args) == 1:
            st.env[name] = ast.BinOp(left=cur, op=ast.Add(), right=ast.List(elts=[args[0]], ctx=ast.Load()))
        elif m == "extend" and len(args) == 1:
            st.env[name] = ast.BinOp(left=cur, op=ast.Add(), right=args[0])
        elif m == "insert" and len(args) == 2 and isinstance(args[0], ast.Constant) and args[0].value == 0:
            st.env[name] = ast.BinOp(left=ast.List(elts=[args[1]], ctx=ast.Load()), op=ast.Add(), right=cur)

    def stmt(self, s, st):
        if isinstance(s, ast.Assign):
            v = self._value(s.value, st, s)
            self._invalidate(s.value, st)
            for t in s.targets:
                self.bind(t, v, st, s)
            return [st]
        if isinstance(s, ast.AnnAssign):
            if s.value is not None:
                self.bind(s.target, resolve(s.value, st), st, s)
            return [st]
        if isinstance(s, ast.AugAssign):
            cur = resolve(ast.Name(id=s.target.id, ctx=ast.Load()), st) if isinstance(s.target, ast.Name) else resolve(_as_load(s.target), st)
            v = ast.BinOp(left=cur, op=s.op, right=resolve(s.value, st))
            self.bind(s.target, v, st, s)
            return [st]
        if isinstance(s, ast.Expr):
            st.events.append(Event("expr", s, resolve(s.value, st), None))
            self._invalidate(s.value, st)
            self._list_update(s.value, st)
            return [st]
        if isinstance(s, ast.Return):
            st.events.append(Event("return", s, resolve(s.value, st) if s.value is not None else None, None))
            st.status = "return"
            return [st]
        if isinstance(s, ast.Raise):
            st.events.append(Event("raise", s, resolve(s.exc, st) if s.exc is not None else None, None))
            st.status = "raise"
            return [st]
        if isinstance(s, ast.If):
            t = resolve(s.test, st, test=True)        # may bind walrus targets in st.env
            if isinstance(t, ast.Constant) and self.prune:
                # decided by partial evaluation: only one branch is feasible
                st.events.append(Event("test", s, t, bool(t.value)))
                return self.block(s.body if t.value else s.orelse, [st])
            a, b = st.fork(), st.fork()
            a.events.append(Event("test", s, t, True))
            b.events.append(Event("test", s, t, False))
            return self.block(s.body, [a]) + self.block(s.orelse, [b])
        if isinstance(s, (ast.For, ast.While)):
            st.loops += 1
            tag = f"@loop{st.loops}"
            if isinstance(s, ast.For):
                st.events.append(Event("loop", s, resolve(s.iter, st), norm(s.target)))
            havoc = _assigned_names(s.body) | ({x.id for x in ast.walk(s.target) if isinstance(x, ast.Name)} if isinstance(s, ast.For) else set())
            for n in havoc:
                st.env[n] = ast.Name(id=n + tag, ctx=ast.Load())
            if isinstance(s, ast.While):
                st.events.append(Event("loop", s, resolve(s.test, st, test=True), None))
            start = len(st.events)
            inner = self.block(s.body, [st.fork()])
            self.iterations.setdefault(id(s), (s, start, inner))
            self.iterations_all.setdefault(id(s), []).append((s, start, inner))     # one entry per state that reaches the loop
            out = []
            for p in inner:
                if p.status in ("return", "raise"):
                    out.append(p)
            # the path that leaves the loop normally: keep the events of one representative iteration
            cont = [p for p in inner if p.status in (None, "break", "continue")]
            rep = cont[0] if cont else st
            after = PathState(st.env, rep.events, None, st.loops)
            for n in havoc:
                after.env[n] = ast.Name(id=n + tag + "'", ctx=ast.Load())
            out.extend(self.block(s.orelse, [after]) if s.orelse else [after])
            return out
        if isinstance(s, (ast.Break, ast.Continue)):
            st.status = "break" if isinstance(s, ast.Break) else "continue"
            return [st]
        if isinstance(s, ast.With):
            for it in s.items:
                v = resolve(it.context_expr, st)
                st.events.append(Event("expr", s, v, "with"))
                if it.optional_vars is not None and isinstance(it.optional_vars, ast.Name):
                    st.env.pop(it.optional_vars.id, None)      # the value of __enter__ stays an opaque name
            return self.block(s.body, [st])
        if isinstance(s, ast.Try):
            entry = st.fork()
            out = self.block(s.body, [st])
            if s.orelse:
                out = self.block(s.orelse, out)
            for h in s.handlers:
                hs = entry.fork()
                for n in _assigned_names(s.body):
                    hs.env[n] = ast.Name(id=n + "@try", ctx=ast.Load())
                hs.events.append(Event("test", h, h.type if h.type is not None else ast.Constant(value="except"), True))
                if h.name:
                    hs.env[h.name] = ast.Name(id=h.name + "@exc", ctx=ast.Load())
                out.extend(self.block(h.body, [hs]))
            if s.finalbody:
                fin = []
                for p in out:
                    keep = p.status
                    p.status = None
                    for q in self.block(s.finalbody, [p]):
                        if q.status is None:
                            q.status = keep
                        fin.append(q)
                out = fin
            return out
        if isinstance(s, ast.Delete):
            for t in s.targets:
                st.events.append(Event("delete", s, resolve_target(t, st), None))
            return [st]
        if isinstance(s, (ast.FunctionDef, ast.AsyncFunctionDef, ast.ClassDef, ast.Pass, ast.Import, ast.ImportFrom, ast.Global, ast.Nonlocal)):
            return [st]
        if isinstance(s, ast.Assert):
            st.events.append(Event("expr", s, resolve(s.test, st), "assert"))
            return [st]
        raise AnalysisError(f"statement kind {type(s).__name__} not handled by the path explorer")


def _as_load(t):
    c = clone(t)
    for n in ast.walk(c):
        if hasattr(n, "ctx"):
            n.ctx = ast.Load()
    return c


def resolve_target(target, st):
    c = _as_load(target)
    if isinstance(c, ast.Attribute):
        c.value = resolve(c.value, st)
    elif isinstance(c, ast.Subscript):
        c.value = resolve(c.value, st)
        c.slice = resolve(c.slice, st)
    return c


def explore(fn, max_paths=4000, env=None, opaque_calls=False):
    """Explorer with .paths (all paths through fn; loops contribute one representative iteration) and
    .iterations (every path through one iteration of each loop)."""
    ex = Explorer(max_paths, opaque_calls)
    out = ex.block(fn.body, [PathState(env)])
    for p in out:
        if p.status in ("break", "continue"):
            p.status = None
    ex.paths = out
    return ex


def paths(fn, max_paths=4000, env=None, opaque_calls=False):
    return explore(fn, max_paths, env, opaque_calls).paths


def expr_from(template, **parts):
    """Build an expression from a template string, substituting names by given ASTs."""
    tree = ast.parse(template, mode="eval").body

    class T(ast.NodeTransformer):
        def visit_Name(self, n):
            if n.id in parts:
                return clone(parts[n.id])
            return n
    return T().visit(tree)


def same(a, b):
    return a is not None and b is not None and norm(a) == norm(b)


def truth(expr, atom):
    """Truth of a resolved test under a valuation of its atoms: atom(node) -> True/False/None (unknown)."""
    if isinstance(expr, ast.BoolOp):
        vs = [truth(v, atom) for v in expr.values]
        if isinstance(expr.op, ast.And):
            if any(v is False for v in vs):
                return False
            return None if any(v is None for v in vs) else True
        if any(v is True for v in vs):
            return True
        return None if any(v is None for v in vs) else False
    if isinstance(expr, ast.UnaryOp) and isinstance(expr.op, ast.Not):
        v = truth(expr.operand, atom)
        return None if v is None else not v
    if isinstance(expr, ast.Constant):
        return bool(expr.value)
    from .predtable import expand_quantifier
    ex = expand_quantifier(expr)
    if ex is not None:
        return truth(ex, atom)
    return atom(expr)


def consistent(paths_, atom, start=0):
    """Paths whose every test (from event index `start`) has the outcome the valuation gives it.
    -> (paths, [texts of tests the valuation does not decide])"""
    out, unknown = [], []
    for q in paths_:
        ok = True
        for e in q.events[start:]:
            if e.kind != "test" or not isinstance(e.resolved, ast.AST):
                continue
            v = truth(e.resolved, atom)
            if v is None:
                unknown.append(norm(e.resolved))
                ok = False
                break
            if v != e.extra:
                ok = False
                break
        if ok:
            out.append(q)
    return out, unknown


def reduce_ifexp(expr, atom):
    """Replace conditional expressions whose test the valuation decides by the selected branch, and value-level
    `a or b` / `a and b` whose left operand's truth the valuation decides by the operand Python would return."""
    class T(ast.NodeTransformer):
        def visit_BoolOp(self, n):
            self.generic_visit(n)
            vals = list(n.values)
            while len(vals) > 1:
                t = truth(vals[0], atom)
                if t is None:
                    break
                if isinstance(n.op, ast.Or):
                    if t:
                        return vals[0]
                    vals = vals[1:]
                else:
                    if not t:
                        return vals[0]
                    vals = vals[1:]
            if len(vals) == 1:
                return vals[0]
            return ast.BoolOp(op=n.op, values=vals)

        def visit_IfExp(self, n):
            self.generic_visit(n)
            t = truth(n.test, atom)
            if t is None:
                return n
            return n.body if t else n.orelse
    return T().visit(clone(expr)) if expr is not None else None
