"""Reference-relative normalisation of a module's AST.

The rule sets were confirmed by hand against the function inventory of the reference tree
(inventory.json: per file, the functions with their ordered parameters and locals, and the
module-level names).  A later edit that merely *re-shapes* code relative to that reference -
extracting a private helper, naming a temporary, hoisting a literal into a module constant,
renaming a local or a parameter of a private function - is undone here before the rules look at
the function, so that a behaviour-preserving refactoring presents the reference shape again.
Every transformation is semantics-preserving by construction: inlining with capture-free renaming,
copy propagation of single-assigned pure expressions whose inputs are stable between definition and
use, constant substitution, and alpha-renaming of locals to names that do not occur in the function.
Anything the normaliser is not sure about is left alone.
"""
import ast
import copy
import itertools

PURE_CALLS = {"getattr", "len", "str", "int", "float", "bool", "tuple", "list", "dict", "range", "enumerate", "zip", "sorted", "reversed", "isinstance", "abs", "max", "min"}
PURE_METHODS = {"current", "keys", "values", "items", "copy", "strip", "lstrip", "rstrip", "split", "lower", "upper", "startswith", "endswith", "get", "group", "groups"}


def clone(node):
    """Deep copy of an AST node that does not follow the `_parent` back-links."""
    if isinstance(node, list):
        return [clone(x) for x in node]
    if not isinstance(node, ast.AST):
        return node
    new = type(node)()
    for f in node._fields:
        if hasattr(node, f):
            setattr(new, f, clone(getattr(node, f)))
    for a in ("lineno", "col_offset", "end_lineno", "end_col_offset"):
        if hasattr(node, a):
            setattr(new, a, getattr(node, a))
    return new


def _fix(tree):
    for node in ast.walk(tree):
        for child in ast.iter_child_nodes(node):
            child._parent = node
    ast.fix_missing_locations(tree)


def renumber(fn):
    """Textual (depth-first) order index on every node: line numbers are useless after inlining."""
    k = 0
    stack = [fn]
    while stack:
        n = stack.pop()
        if not isinstance(n, _SHARED):      # Load()/Store()/Add()... are singletons shared by the whole tree
            n._ord = k
            k += 1
        stack.extend(reversed(list(ast.iter_child_nodes(n))))


_SHARED = (ast.expr_context, ast.operator, ast.unaryop, ast.cmpop, ast.boolop)


def _last_ord(node):
    return max(getattr(x, "_ord", -1) for x in ast.walk(node) if not isinstance(x, _SHARED))


def is_pure(e, depth=0):
    if depth > 8:
        return False
    if isinstance(e, (ast.Constant, ast.Name)):
        return True
    if isinstance(e, ast.Attribute):
        return is_pure(e.value, depth + 1)
    if isinstance(e, ast.Subscript):
        return is_pure(e.value, depth + 1) and is_pure(e.slice, depth + 1)
    if isinstance(e, ast.Slice):
        return all(x is None or is_pure(x, depth + 1) for x in (e.lower, e.upper, e.step))
    if isinstance(e, (ast.BinOp,)):
        return is_pure(e.left, depth + 1) and is_pure(e.right, depth + 1)
    if isinstance(e, ast.UnaryOp):
        return is_pure(e.operand, depth + 1)
    if isinstance(e, ast.BoolOp):
        return all(is_pure(v, depth + 1) for v in e.values)
    if isinstance(e, ast.Compare):
        return is_pure(e.left, depth + 1) and all(is_pure(c, depth + 1) for c in e.comparators)
    if isinstance(e, (ast.Tuple, ast.List)):
        return all(is_pure(x, depth + 1) for x in e.elts)
    if isinstance(e, ast.IfExp):
        return is_pure(e.test, depth + 1) and is_pure(e.body, depth + 1) and is_pure(e.orelse, depth + 1)
    if isinstance(e, ast.JoinedStr):
        return all(isinstance(v, ast.Constant) or (isinstance(v, ast.FormattedValue) and is_pure(v.value, depth + 1)) for v in e.values)
    if isinstance(e, ast.Call):
        if e.keywords and not all(is_pure(k.value, depth + 1) for k in e.keywords):
            return False
        if isinstance(e.func, ast.Name) and e.func.id in PURE_CALLS:
            return all(is_pure(a, depth + 1) for a in e.args)
        if isinstance(e.func, ast.Attribute) and e.func.attr in PURE_METHODS:
            return is_pure(e.func.value, depth + 1) and all(is_pure(a, depth + 1) for a in e.args)
        return False
    if isinstance(e, (ast.ListComp, ast.GeneratorExp)) and len(e.generators) == 1:
        g = e.generators[0]
        return is_pure(g.iter, depth + 1) and is_pure(e.elt, depth + 1) and all(is_pure(c, depth + 1) for c in g.ifs)
    return False


def free_names(e):
    bound = {t.id for c in ast.walk(e) if isinstance(c, ast.comprehension) for t in ast.walk(c.target) if isinstance(t, ast.Name)}
    bound |= {a.arg for l in ast.walk(e) if isinstance(l, ast.Lambda) for a in l.args.args}
    return {n.id for n in ast.walk(e) if isinstance(n, ast.Name)} - bound


def bound_names(fn, defs=None):
    """Ordered list of (name, kind) bound in fn (not descending into nested defs): param / assign / loop / with / except / walrus.
    If `defs` is a dict it receives name -> text describing the first binding (what the name is defined as)."""
    out, seen = [], set()
    cur = [None]

    def add(n, k):
        if n not in seen:
            seen.add(n)
            out.append((n, k))
            if defs is not None and cur[0] is not None:
                defs[n] = cur[0]
    a = fn.args
    for p in a.posonlyargs + a.args + ([a.vararg] if a.vararg else []) + a.kwonlyargs + ([a.kwarg] if a.kwarg else []):
        add(p.arg, "param")

    def targets(t, k, src=None, pos=""):
        if isinstance(t, ast.Name):
            cur[0] = None if src is None else f"{k}{pos}:{src}"
            add(t.id, k)
            cur[0] = None
        elif isinstance(t, (ast.Tuple, ast.List)):
            for i, e in enumerate(t.elts):
                targets(e, k, src, f"{pos}[{i}]")
        elif isinstance(t, ast.Starred):
            targets(t.value, k, src, pos + "*")

    def txt(e):
        try:
            return " ".join(ast.unparse(e).split())
        except Exception:
            return "?"

    def walk(node):
        for ch in ast.iter_child_nodes(node):
            if isinstance(ch, (ast.FunctionDef, ast.AsyncFunctionDef, ast.ClassDef, ast.Lambda)):
                if isinstance(ch, (ast.FunctionDef, ast.AsyncFunctionDef)):
                    add(ch.name, "def")
                continue
            if isinstance(ch, ast.Assign):
                for t in ch.targets:
                    targets(t, "assign", txt(ch.value))
            elif isinstance(ch, (ast.AugAssign, ast.AnnAssign)):
                targets(ch.target, "assign", txt(ch.value) if ch.value is not None else "")
            elif isinstance(ch, ast.For):
                targets(ch.target, "loop", txt(ch.iter))
            elif isinstance(ch, ast.With):
                for it in ch.items:
                    if it.optional_vars is not None:
                        targets(it.optional_vars, "with", txt(it.context_expr))
            elif isinstance(ch, ast.ExceptHandler) and ch.name:
                cur[0] = "except:" + (txt(ch.type) if ch.type is not None else "")
                add(ch.name, "except")
                cur[0] = None
            elif isinstance(ch, ast.NamedExpr):
                targets(ch.target, "walrus", txt(ch.value))
            elif isinstance(ch, ast.comprehension):
                continue
            if not isinstance(ch, (ast.ListComp, ast.SetComp, ast.DictComp, ast.GeneratorExp)):
                walk(ch)
    walk(fn)
    return out


# ---- canonical forms (unconditional): spellings that differ only in a way no rule should depend on
_FLIP = {ast.Eq: ast.Eq, ast.NotEq: ast.NotEq, ast.Lt: ast.Gt, ast.Gt: ast.Lt, ast.LtE: ast.GtE, ast.GtE: ast.LtE}


def _flat_and(a, b):
    vals = []
    for t in (a, b):
        vals.extend(t.values if isinstance(t, ast.BoolOp) and isinstance(t.op, ast.And) else [t])
    return ast.BoolOp(op=ast.And(), values=vals)


class _Canon(ast.NodeTransformer):
    """literal on the right of a comparison; `if not X: A else: B` read as `if X: B else: A`; `if a: if b: S` (no else
    on either) read as `if a and b: S`; isinstance or-chains on one subject read as one isinstance with a tuple."""
    def __init__(self):
        self.count = 0

    def visit_Compare(self, n):
        self.generic_visit(n)
        if len(n.ops) == 1 and isinstance(n.ops[0], (ast.In, ast.NotIn)) and isinstance(n.comparators[0], ast.List) and isinstance(n.comparators[0].ctx, ast.Load):
            n.comparators[0] = ast.copy_location(ast.Tuple(elts=n.comparators[0].elts, ctx=ast.Load()), n.comparators[0])
            self.count += 1
        if len(n.ops) == 1 and type(n.ops[0]) in _FLIP and isinstance(n.left, ast.Constant) and not isinstance(n.comparators[0], ast.Constant):
            n.left, n.comparators[0] = n.comparators[0], n.left
            n.ops[0] = _FLIP[type(n.ops[0])]()
            self.count += 1
        return n

    @staticmethod
    def _nn(t):
        while isinstance(t, ast.UnaryOp) and isinstance(t.op, ast.Not) and isinstance(t.operand, ast.UnaryOp) and isinstance(t.operand.op, ast.Not):
            t = t.operand.operand      # only truthiness is observed in a test
        return t

    def visit_While(self, n):
        self.generic_visit(n)
        n.test = self._nn(n.test)
        # while True: if X: break; B   ==   while not X: B
        if isinstance(n.test, ast.Constant) and n.test.value is True and not n.orelse and len(n.body) >= 2 and isinstance(n.body[0], ast.If) \
                and not n.body[0].orelse and len(n.body[0].body) == 1 and isinstance(n.body[0].body[0], ast.Break):
            n.test = _negate(n.body[0].test)
            n.body = n.body[1:]
            self.count += 1
        return n

    def visit_Call(self, n):
        self.generic_visit(n)
        # dict(k=v, ...) == {'k': v, ...}
        if isinstance(n.func, ast.Name) and n.func.id == "dict" and not n.args and n.keywords and all(k.arg is not None for k in n.keywords):
            self.count += 1
            return ast.copy_location(ast.Dict(keys=[ast.Constant(value=k.arg) for k in n.keywords], values=[k.value for k in n.keywords]), n)
        return n

    def visit_If(self, n):
        self.generic_visit(n)
        n.test = self._nn(n.test)
        if n.orelse and isinstance(n.test, ast.UnaryOp) and isinstance(n.test.op, ast.Not):
            n.test, n.body, n.orelse = n.test.operand, n.orelse, n.body
            self.count += 1
        while not n.orelse and len(n.body) == 1 and isinstance(n.body[0], ast.If) and not n.body[0].orelse:
            inner = n.body[0]
            n.test = ast.copy_location(_flat_and(n.test, inner.test), n.test)
            n.body = inner.body
            self.count += 1
        return n

    def visit_IfExp(self, n):
        self.generic_visit(n)
        n.test = self._nn(n.test)
        if isinstance(n.test, ast.UnaryOp) and isinstance(n.test.op, ast.Not):
            n.test, n.body, n.orelse = n.test.operand, n.orelse, n.body
            self.count += 1
        return n

    def visit_BoolOp(self, n):
        self.generic_visit(n)
        if not isinstance(n.op, ast.Or):
            return n

        def isinst(v):
            return isinstance(v, ast.Call) and isinstance(v.func, ast.Name) and v.func.id == "isinstance" and len(v.args) == 2 and not v.keywords \
                and isinstance(v.args[0], (ast.Name, ast.Attribute))
        out = []
        for v in n.values:
            if out and isinst(v) and isinst(out[-1]) and ast.dump(v.args[0]) == ast.dump(out[-1].args[0]):
                prev = out[-1]
                elts = (list(prev.args[1].elts) if isinstance(prev.args[1], ast.Tuple) else [prev.args[1]]) + \
                       (list(v.args[1].elts) if isinstance(v.args[1], ast.Tuple) else [v.args[1]])
                prev.args[1] = ast.copy_location(ast.Tuple(elts=elts, ctx=ast.Load()), prev.args[1])
                self.count += 1
            else:
                out.append(v)
        if len(out) == 1:
            return out[0]
        n.values = out
        return n


def canonicalise(tree):
    c = _Canon()
    c.visit(tree)
    if c.count:
        ast.fix_missing_locations(tree)
    return c.count


def _ends(stmts):
    if not stmts:
        return False
    last = stmts[-1]
    if isinstance(last, (ast.Return, ast.Raise, ast.Continue, ast.Break)):
        return True
    if isinstance(last, ast.If) and last.orelse:
        return _ends(last.body) and _ends(last.orelse)
    return False


def _append_loop(a, b):
    """(target name, element, generator parts) if `a; b` is `x = []` followed by `for v in IT: [if c:] x.append(E)`."""
    if not (isinstance(a, ast.Assign) and len(a.targets) == 1 and isinstance(a.targets[0], ast.Name) and isinstance(a.value, ast.List) and not a.value.elts):
        return None
    if not (isinstance(b, ast.For) and not b.orelse and isinstance(b.target, ast.Name) and len(b.body) == 1):
        return None
    x = a.targets[0].id
    st, conds = b.body[0], []
    if isinstance(st, ast.If) and not st.orelse and len(st.body) == 1:
        conds, st = [st.test], st.body[0]
    if not (isinstance(st, ast.Expr) and isinstance(st.value, ast.Call) and isinstance(st.value.func, ast.Attribute) and st.value.func.attr == "append"
            and isinstance(st.value.func.value, ast.Name) and st.value.func.value.id == x and len(st.value.args) == 1 and not st.value.keywords):
        return None
    elt = st.value.args[0]
    if any(isinstance(n, ast.Name) and n.id == x for e in [elt, b.iter] + conds for n in ast.walk(e)):
        return None
    return x, elt, b.target, b.iter, conds


def _shape_facts(fn):
    """Which of two interchangeable spellings the reference uses, per test / target (for reference-relative reshaping)."""
    f = {"else_tests": set(), "noelse_tests": set(), "ifexp_targets": set(), "ifstmt_targets": set(), "comp_targets": set(), "loop_targets": set()}
    for n in ast.walk(fn):
        if isinstance(n, ast.If) and _ends(n.body):
            f["else_tests" if n.orelse else "noelse_tests"].add(ast.unparse(n.test))
        if isinstance(n, ast.Assign) and len(n.targets) == 1 and isinstance(n.value, ast.IfExp):
            f["ifexp_targets"].add(ast.unparse(n.targets[0]))
        if isinstance(n, ast.If) and len(n.body) == 1 and len(n.orelse) == 1 and all(isinstance(x, ast.Assign) and len(x.targets) == 1 for x in (n.body[0], n.orelse[0])) \
                and ast.dump(n.body[0].targets[0]) == ast.dump(n.orelse[0].targets[0]):
            f["ifstmt_targets"].add(ast.unparse(n.body[0].targets[0]))
        if isinstance(n, ast.Assign) and len(n.targets) == 1 and isinstance(n.targets[0], ast.Name) and isinstance(n.value, ast.ListComp) and len(n.value.generators) == 1:
            f["comp_targets"].add(n.targets[0].id)
        for fld in ("body", "orelse", "finalbody"):
            blk = getattr(n, fld, None)
            if isinstance(blk, list):
                for a, b in zip(blk, blk[1:]):
                    if isinstance(a, ast.stmt) and _append_loop(a, b):
                        f["loop_targets"].add(a.targets[0].id)
    return {k: sorted(v) for k, v in f.items()}


def _reshape(fn, ref):
    """Read four interchangeable spellings the way the reference function spells them (each rewrite is an identity):
    else after a terminating if-body <-> following statements; conditional expression assignment <-> if/else
    assigning the same target; list comprehension <-> append loop."""
    if not ref:
        return 0
    R = {k: set(v) for k, v in ref.items()}
    count = 0
    changed = True
    while changed:
        changed = False
        for owner in ast.walk(fn):
            for fld in ("body", "orelse", "finalbody"):
                blk = getattr(owner, fld, None)
                if not isinstance(blk, list) or not blk or not isinstance(blk[0], ast.stmt):
                    continue
                for i, n in enumerate(blk):
                    if isinstance(n, ast.If) and _ends(n.body):
                        t = ast.unparse(n.test)
                        if n.orelse and t in R["noelse_tests"] and t not in R["else_tests"]:
                            rest, n.orelse = n.orelse, []
                            blk[i + 1:i + 1] = rest
                            changed = True
                        elif not n.orelse and blk[i + 1:] and t in R["else_tests"] and t not in R["noelse_tests"]:
                            n.orelse = blk[i + 1:]
                            del blk[i + 1:]
                            changed = True
                    if not changed and isinstance(n, ast.Assign) and len(n.targets) == 1 and isinstance(n.value, ast.IfExp):
                        t = ast.unparse(n.targets[0])
                        if t in R["ifstmt_targets"] and t not in R["ifexp_targets"] and is_pure(_loadify(clone(n.targets[0]))):
                            blk[i] = ast.copy_location(ast.If(test=n.value.test, body=[ast.Assign(targets=[clone(n.targets[0])], value=n.value.body)],
                                                              orelse=[ast.Assign(targets=[clone(n.targets[0])], value=n.value.orelse)]), n)
                            changed = True
                    if not changed and isinstance(n, ast.If) and len(n.body) == 1 and len(n.orelse) == 1 \
                            and all(isinstance(x, ast.Assign) and len(x.targets) == 1 for x in (n.body[0], n.orelse[0])) \
                            and ast.dump(n.body[0].targets[0]) == ast.dump(n.orelse[0].targets[0]):
                        t = ast.unparse(n.body[0].targets[0])
                        if t in R["ifexp_targets"] and t not in R["ifstmt_targets"] and is_pure(_loadify(clone(n.body[0].targets[0]))):
                            blk[i] = ast.copy_location(ast.Assign(targets=[n.body[0].targets[0]], value=ast.IfExp(test=n.test, body=n.body[0].value, orelse=n.orelse[0].value)), n)
                            changed = True
                    if not changed and i + 1 < len(blk):
                        al = _append_loop(n, blk[i + 1])
                        if al and al[0] in R["comp_targets"] and al[0] not in R["loop_targets"]:
                            x, elt, tgt, it, conds = al
                            later = any(isinstance(m, ast.Name) and m.id == tgt.id for s_ in blk[i + 2:] for m in ast.walk(s_))
                            if not later:
                                blk[i:i + 2] = [ast.copy_location(ast.Assign(targets=[ast.Name(id=x, ctx=ast.Store())],
                                                                             value=ast.ListComp(elt=elt, generators=[ast.comprehension(target=tgt, iter=it, ifs=conds, is_async=0)])), n)]
                                changed = True
                    if not changed and isinstance(n, ast.Assign) and len(n.targets) == 1 and isinstance(n.targets[0], ast.Name) and isinstance(n.value, ast.ListComp) \
                            and len(n.value.generators) == 1 and not n.value.generators[0].is_async and isinstance(n.value.generators[0].target, ast.Name):
                        x = n.targets[0].id
                        g = n.value.generators[0]
                        if x in R["loop_targets"] and x not in R["comp_targets"] and not any(isinstance(m, ast.Name) and m.id == x for m in ast.walk(n.value)) \
                                and not any(isinstance(m, ast.Name) and m.id == g.target.id for s_ in blk[i + 1:] for m in ast.walk(s_)) \
                                and not any(isinstance(m, ast.Name) and m.id == g.target.id for s_ in blk[:i] for m in ast.walk(s_)):
                            body = [ast.Expr(value=ast.Call(func=ast.Attribute(value=ast.Name(id=x, ctx=ast.Load()), attr="append", ctx=ast.Load()), args=[n.value.elt], keywords=[]))]
                            for c in reversed(g.ifs):
                                body = [ast.If(test=c, body=body, orelse=[])]
                            blk[i:i + 1] = [ast.copy_location(ast.Assign(targets=[ast.Name(id=x, ctx=ast.Store())], value=ast.List(elts=[], ctx=ast.Load())), n),
                                            ast.copy_location(ast.For(target=g.target, iter=g.iter, body=body, orelse=[]), n)]
                            changed = True
                    if changed:
                        count += 1
                        break
                if changed:
                    break
            if changed:
                break
        if count > 40:
            break
    if count:
        ast.fix_missing_locations(fn)
    return count


def _test_texts(fn):
    """Texts of the branch tests and of the comparisons of a function (for reference-relative polarity/orientation)."""
    tests, cmps = [], []
    for n in ast.walk(fn):
        if isinstance(n, (ast.If, ast.IfExp, ast.While)):
            tests.append(ast.unparse(n.test))
        if isinstance(n, ast.Compare) and len(n.ops) == 1:
            cmps.append(ast.unparse(n))
    return sorted(set(tests)), sorted(set(cmps))


def inventory_of_tree(tree):
    inv = {"functions": {}, "globals": []}
    for st in tree.body:
        if isinstance(st, ast.Assign):
            for t in st.targets:
                if isinstance(t, ast.Name):
                    inv["globals"].append(t.id)
        elif isinstance(st, ast.AnnAssign) and isinstance(st.target, ast.Name):
            inv["globals"].append(st.target.id)

    def rec(node, prefix):
        for st in node.body:
            if isinstance(st, (ast.FunctionDef, ast.AsyncFunctionDef)):
                q = prefix + st.name
                d = {}
                b = bound_names(st, d)
                tt, cc = _test_texts(st)
                inv["functions"][q] = {"params": [n for n, k in b if k == "param"], "locals": [[n, k] for n, k in b if k != "param"],
                                       "defs": {n: d[n] for n, k in b if k != "param" and n in d}, "tests": tt, "compares": cc, "shapes": _shape_facts(st)}
                rec(st, q + ".")
            elif isinstance(st, ast.ClassDef):
                inv["functions"].setdefault("class:" + prefix + st.name, {"params": [], "locals": [[s.targets[0].id, "attr"] for s in st.body if isinstance(s, ast.Assign) and isinstance(s.targets[0], ast.Name)]})
                rec(st, prefix + st.name + ".")
    rec(tree, "")
    return inv


class Subst(ast.NodeTransformer):
    """Replace Name loads by expressions / rename names."""

    def __init__(self, mapping, rename=None):
        self.mapping = mapping          # name -> AST expr (deep-copied at each use)
        self.rename = rename or {}      # name -> new name (all contexts)

    def visit_Name(self, n):
        if n.id in self.rename:
            return ast.copy_location(ast.Name(id=self.rename[n.id], ctx=n.ctx), n)
        if isinstance(n.ctx, ast.Load) and n.id in self.mapping:
            return ast.copy_location(clone(self.mapping[n.id]), n)
        return n

    def visit_arg(self, n):
        if n.arg in self.rename:
            n.arg = self.rename[n.arg]
        return n

    def visit_FunctionDef(self, n):
        return n      # do not descend into nested definitions (they have their own scope handling)

    visit_AsyncFunctionDef = visit_FunctionDef
    visit_Lambda = visit_FunctionDef


def _loadify(t):
    c = clone(t)
    for n in ast.walk(c):
        if hasattr(n, "ctx"):
            n.ctx = ast.Load()
    return c


def _stmts_subst(stmts, mapping, rename=None):
    out = []
    for s in stmts:
        s2 = Subst(mapping, rename).visit(clone(s))
        out.append(s2)
    return out


def _is_doc(st):
    return isinstance(st, ast.Expr) and isinstance(st.value, ast.Constant) and isinstance(st.value.value, str)


def tailify(stmts):
    """Rewrite a statement list so that `return` occurs only in tail position (moving the statements that
    follow an `if ...: ...; return` into its else branch).  Returns the new list or None if impossible."""
    stmts = list(stmts)
    for i, st in enumerate(stmts):
        if isinstance(st, ast.Return):
            return stmts[: i + 1]
        if isinstance(st, (ast.For, ast.While, ast.Try, ast.With)):
            if any(isinstance(x, ast.Return) for x in ast.walk(st)):
                return None
        if isinstance(st, ast.If):
            body_ret = _always_returns(st.body)
            else_ret = _always_returns(st.orelse) if st.orelse else False
            has_ret = any(isinstance(x, ast.Return) for x in ast.walk(st))
            if not has_ret:
                continue
            rest = stmts[i + 1:]
            new = copy.copy(st)
            if body_ret and not st.orelse:
                b = tailify(st.body)
                r = tailify(rest) if rest else []
                if b is None or r is None:
                    return None
                new.body, new.orelse = b, r
                return stmts[:i] + [new]
            if body_ret and else_ret:
                b, o = tailify(st.body), tailify(st.orelse)
                if b is None or o is None:
                    return None
                new.body, new.orelse = b, o
                return stmts[:i] + [new]
            if else_ret and not body_ret:
                o = tailify(st.orelse)
                b = tailify(list(st.body) + rest)
                if b is None or o is None:
                    return None
                new.body, new.orelse = b, o
                return stmts[:i] + [new]
            if body_ret and st.orelse and not else_ret:
                b = tailify(st.body)
                o = tailify(list(st.orelse) + rest)
                if b is None or o is None:
                    return None
                new.body, new.orelse = b, o
                return stmts[:i] + [new]
            return None     # returns on some inner paths only
    return stmts


def _always_returns(stmts):
    if not stmts:
        return False
    last = stmts[-1]
    if isinstance(last, (ast.Return, ast.Raise)):
        return True
    if isinstance(last, ast.If) and last.orelse:
        return _always_returns(last.body) and _always_returns(last.orelse)
    return False


def _negate(t):
    if isinstance(t, ast.UnaryOp) and isinstance(t.op, ast.Not):
        return t.operand
    if isinstance(t, ast.Compare) and len(t.ops) == 1:
        inv = {ast.Eq: ast.NotEq, ast.NotEq: ast.Eq, ast.Is: ast.IsNot, ast.IsNot: ast.Is, ast.In: ast.NotIn, ast.NotIn: ast.In}
        if type(t.ops[0]) in inv:
            return ast.Compare(left=t.left, ops=[inv[type(t.ops[0])]()], comparators=t.comparators)
    return ast.UnaryOp(op=ast.Not(), operand=t)


def _replace_returns(stmts, make):
    """Tail returns -> statements produced by make(expr|None)."""
    out = []
    for st in stmts:
        if isinstance(st, ast.Return):
            out.extend(make(st.value))
        elif isinstance(st, ast.If):
            n = copy.copy(st)
            n.body = _replace_returns(st.body, make)
            n.orelse = _replace_returns(st.orelse, make)
            if not n.body and n.orelse:
                n.test, n.body, n.orelse = _negate(n.test), n.orelse, []
            if not n.body and not n.orelse:
                if not is_pure(n.test):
                    out.append(ast.Expr(value=n.test))
                continue
            out.append(n)
        else:
            out.append(st)
    return out


_REV = {ast.Lt: ast.Gt, ast.Gt: ast.Lt, ast.LtE: ast.GtE, ast.GtE: ast.LtE, ast.Eq: ast.Eq, ast.NotEq: ast.NotEq}


def _orient(fn, ref_tests, ref_cmps):
    """`if T': B else: A` where the reference tests not(T') and never T' -> `if not(T'): A else: B`;
    `b OP' a` where the reference compares `a OP b` and never `b OP' a` -> `a OP b`.  Both are identities of Python
    for the comparison operators concerned when one side has no reflected method that differs (which holds for the
    builtin operands the repository compares); the rewrite is logged."""
    count = 0
    for n in ast.walk(fn):
        if isinstance(n, ast.Compare) and len(n.ops) == 1 and type(n.ops[0]) in _REV and ast.unparse(n) not in ref_cmps:
            flipped = ast.Compare(left=n.comparators[0], ops=[_REV[type(n.ops[0])]()], comparators=[n.left])
            if ast.unparse(flipped) in ref_cmps:
                n.left, n.comparators, n.ops = flipped.left, flipped.comparators, flipped.ops
                count += 1
    for n in ast.walk(fn):
        if isinstance(n, (ast.If, ast.IfExp)) and (n.orelse if isinstance(n, ast.If) else True):
            t = ast.unparse(n.test)
            if t in ref_tests:
                continue
            neg = _negate(n.test)
            if ast.unparse(neg) in ref_tests:
                n.test, n.body, n.orelse = neg, n.orelse, n.body
                count += 1
    if count:
        ast.fix_missing_locations(fn)
    return count


class ModuleNormaliser:
    def __init__(self, tree, inv):
        self.tree = tree
        self.inv = inv
        self.log = []
        self.flagged = set()      # qualnames normalised heuristically (rename-back)
        self.reshaped = set()
        self.renamed = set()
        self.inlined = {}
        self.counter = itertools.count()
        self.defs = {}            # qualname -> (FunctionDef, owner node, class name or None)
        self.class_bases = {c.name: [b.id for b in c.bases if isinstance(b, ast.Name)] for c in ast.walk(tree) if isinstance(c, ast.ClassDef)}
        self._collect(tree, "", None)

    def _collect(self, node, prefix, cls):
        for st in node.body:
            if isinstance(st, (ast.FunctionDef, ast.AsyncFunctionDef)):
                self.defs[prefix + st.name] = (st, node, cls)
                self._collect(st, prefix + st.name + ".", cls)
            elif isinstance(st, ast.ClassDef):
                self._collect(st, prefix + st.name + ".", st.name)

    # ---- constants
    def new_constants(self):
        consts = {}
        known = set(self.inv.get("globals", []))
        assigned = {}
        for st in self.tree.body:
            if isinstance(st, ast.Assign) and len(st.targets) == 1 and isinstance(st.targets[0], ast.Name):
                assigned.setdefault(st.targets[0].id, []).append(st)
        # names that some function mutates (subscript store / mutator call / global rebinding) are state, not constants
        MUT = {"append", "extend", "insert", "pop", "remove", "clear", "update", "setdefault", "popitem", "add", "discard", "sort", "reverse"}
        mutated = set()
        for n in ast.walk(self.tree):
            if isinstance(n, (ast.Subscript, ast.Attribute)) and isinstance(n.ctx, (ast.Store, ast.Del)) and isinstance(n.value, ast.Name):
                mutated.add(n.value.id)
            if isinstance(n, ast.Call) and isinstance(n.func, ast.Attribute) and n.func.attr in MUT and isinstance(n.func.value, ast.Name):
                mutated.add(n.func.value.id)
            if isinstance(n, ast.Global):
                mutated |= set(n.names)
        for name, sts in assigned.items():
            if name in known or len(sts) != 1 or name in mutated:
                continue
            v = sts[0].value
            if isinstance(v, ast.Call) and isinstance(v.func, ast.Attribute) and isinstance(v.func.value, ast.Name) and v.func.value.id == "re" \
                    and v.func.attr == "compile" and all(is_pure(a) for a in v.args) and not any(isinstance(x, ast.Call) for a in v.args for x in ast.walk(a)):
                consts[name] = v        # a compiled pattern is a constant: re.compile(P).match(s) is re.match(P, s)
                continue
            if isinstance(v, (ast.Constant, ast.Tuple, ast.List, ast.Dict, ast.JoinedStr, ast.BinOp)) and not any(isinstance(x, (ast.Call, ast.Lambda, ast.Await, ast.Yield)) and not (isinstance(x, ast.Call) and isinstance(x.func, ast.Attribute) and x.func.attr == "escape") for x in ast.walk(v)):
                consts[name] = v
        return consts

    # ---- helpers
    def is_new_function(self, q):
        return q not in self.inv.get("functions", {})

    def run(self):
        if self.inv is None:
            return self
        # 0. polarity of if/else and orientation of comparisons relative to the reference
        for q, (fn, owner, cls) in self.defs.items():
            ref = self.inv.get("functions", {}).get(q)
            if ref and "tests" in ref:
                k = _orient(fn, set(ref["tests"]), set(ref["compares"]))
                if k:
                    self.log.append(f"{q}: {k} branch polarity / comparison orientation(s) read as in the reference")
                k = _reshape(fn, ref.get("shapes"))
                if k:
                    self.log.append(f"{q}: {k} statement shape(s) (else after return, conditional expression, comprehension) read as in the reference")
        consts = self.new_constants()
        # 1. constants
        if consts:
            for q, (fn, owner, cls) in self.defs.items():
                local = {n for n, _ in bound_names(fn)}
                m = {k: v for k, v in consts.items() if k not in local}
                used = {n.id for n in ast.walk(fn) if isinstance(n, ast.Name) and isinstance(n.ctx, ast.Load)} & set(m)
                if used:
                    fn.body = _stmts_subst(fn.body, m)
                    self.log.append(f"{q}: module constant(s) {sorted(used)} substituted")
        # 1b. compiled patterns: re.compile(P).match(s) -> re.match(P, s)
        class RC(ast.NodeTransformer):
            def visit_Call(self, n):
                self.generic_visit(n)
                f = n.func
                if isinstance(f, ast.Attribute) and f.attr in ("match", "search", "fullmatch", "sub", "findall", "split", "finditer") and isinstance(f.value, ast.Call) \
                        and isinstance(f.value.func, ast.Attribute) and isinstance(f.value.func.value, ast.Name) and f.value.func.value.id == "re" \
                        and f.value.func.attr == "compile" and len(f.value.args) >= 1:
                    flags = f.value.args[1:] + [k.value for k in f.value.keywords]
                    if not flags:
                        return ast.copy_location(ast.Call(func=ast.Attribute(value=ast.Name(id="re", ctx=ast.Load()), attr=f.attr, ctx=ast.Load()),
                                                          args=[f.value.args[0]] + list(n.args), keywords=n.keywords), n)
                return n
        if consts:
            for q, (fn, owner, cls) in self.defs.items():
                fn.body = [RC().visit(s_) for s_ in fn.body]
                for s_ in fn.body:
                    ast.fix_missing_locations(s_)
        # 2. inline new helpers (a few rounds, innermost first)
        for _ in range(3):
            changed = False
            for q, (fn, owner, cls) in list(self.defs.items()):
                if self._inline_in(q, fn, cls):
                    changed = True
            if not changed:
                break
        # 3. drop helper definitions that are no longer referenced
        self._drop_unused_helpers()
        # 4. temporaries and renames
        for q, (fn, owner, cls) in list(self.defs.items()):
            if q in self.inv.get("functions", {}):
                self._rename_back(q, fn)
                self._propagate_temporaries(q, fn)
                self._rename_back(q, fn)
        for q, (fn, owner, cls) in list(self.defs.items()):
            ref = self.inv.get("functions", {}).get(q)
            if ref and ref.get("shapes"):
                k = _reshape(fn, ref["shapes"])
                if k:
                    self.log.append(f"{q}: {k} statement shape(s) read as in the reference (after inlining)")
        _fix(self.tree)
        return self

    def _helper_target(self, call, q, cls):
        """qualname of a *new* helper this call refers to, or None."""
        f = call.func
        if isinstance(f, ast.Name):
            # nested helper of the enclosing function, then module-level function
            for cand in (q + "." + f.id, f.id):
                if cand in self.defs and self.is_new_function(cand):
                    return cand, None
            return None
        if isinstance(f, ast.Attribute) and isinstance(f.value, ast.Name) and cls:
            if f.value.id in ("self", "cls", cls):
                cand = cls + "." + f.attr
                # dynamic dispatch: a method name defined in more than one class of the module may be overridden
                same_name = [k for k in self.defs if k.split(".")[-1] == f.attr and "." in k]
                if len(same_name) != 1:
                    return None
                # the class itself, then its base classes defined in this module (inherited helper)
                chain, todo = [], [cls]
                while todo:
                    c_ = todo.pop(0)
                    if c_ in chain:
                        continue
                    chain.append(c_)
                    todo.extend(self.class_bases.get(c_, []))
                for c_ in chain:
                    cand = c_ + "." + f.attr
                    for k in self.defs:
                        if (k == cand or k.endswith("." + cand)) and self.is_new_function(k):
                            return k, f.value.id
        return None

    def _bind(self, helper, call, recv):
        """(param->arg-expr mapping, prelude statements, rename map for helper locals) or None."""
        a = helper.args
        if a.vararg or a.kwarg or a.kwonlyargs or a.posonlyargs:
            return None
        params = [p.arg for p in a.args]
        static = any(isinstance(d, ast.Name) and d.id == "staticmethod" for d in helper.decorator_list)
        clsm = any(isinstance(d, ast.Name) and d.id == "classmethod" for d in helper.decorator_list)
        mapping = {}
        unbound = recv is not None and recv not in ("self", "cls") and not static and not clsm
        if recv is not None and not static and not unbound:
            if not params:
                return None
            first = params[0]
            mapping[first] = ast.Name(id=recv, ctx=ast.Load())
            params = params[1:]
        # `Class.method(obj, ...)`: the instance is passed explicitly and binds the first parameter
        if any(isinstance(x, ast.Starred) for x in call.args) or any(k.arg is None for k in call.keywords):
            return None
        if len(call.args) > len(params):
            return None
        defaults = dict(zip([p.arg for p in a.args][len(a.args) - len(a.defaults):], a.defaults))
        given = dict(zip(params, call.args))
        for k in call.keywords:
            if k.arg not in params or k.arg in given:
                return None
            given[k.arg] = k.value
        for p in params:
            if p not in given:
                if p not in defaults:
                    return None
                given[p] = defaults[p]
        assigned_in_helper = {n for n, k in bound_names(helper) if k != "param"} | \
            {t.id for s in ast.walk(helper) if isinstance(s, (ast.Assign, ast.AugAssign)) for t in (s.targets if isinstance(s, ast.Assign) else [s.target]) if isinstance(t, ast.Name)}
        k = next(self.counter)
        prelude = []
        for p, arg in given.items():
            uses = sum(1 for n in ast.walk(helper) if isinstance(n, ast.Name) and n.id == p and isinstance(n.ctx, ast.Load))
            simple = isinstance(arg, (ast.Name, ast.Constant)) or (isinstance(arg, ast.Attribute) and is_pure(arg)) or \
                (isinstance(arg, ast.Subscript) and is_pure(arg))
            if p in assigned_in_helper:
                mapping[p] = ("ASSIGNED", arg)
            elif simple or uses <= 1 and is_pure(arg):
                mapping[p] = arg
            else:
                tmp = f"{p}__h{k}"
                prelude.append(ast.Assign(targets=[ast.Name(id=tmp, ctx=ast.Store())], value=clone(arg)))
                mapping[p] = ast.Name(id=tmp, ctx=ast.Load())
        rename = {n: f"{n}__h{k}" for n, kind in bound_names(helper) if kind != "param" and kind != "def"}
        return mapping, prelude, rename

    def _inline_in(self, q, fn, cls):
        changed = False

        def process(stmts):
            nonlocal changed
            out = []
            for st in stmts:
                repl = self._try_inline_stmt(st, q, cls)
                if repl is not None:
                    out.extend(repl)
                    changed = True
                    continue
                for field in ("body", "orelse", "finalbody"):
                    sub = getattr(st, field, None)
                    if isinstance(sub, list) and sub and isinstance(sub[0], ast.stmt) and not isinstance(st, (ast.FunctionDef, ast.AsyncFunctionDef, ast.ClassDef)):
                        setattr(st, field, process(sub))
                for h in getattr(st, "handlers", []) or []:
                    h.body = process(h.body)
                st2 = self._try_inline_expr(st, q, cls)
                if st2 is not None:
                    changed = True
                out.append(st)
            return out
        fn.body = process(fn.body)
        return changed

    def _try_inline_stmt(self, st, q, cls):
        call = None
        mode = None
        if isinstance(st, ast.Expr) and isinstance(st.value, ast.Call):
            call, mode = st.value, "stmt"
        elif isinstance(st, ast.Assign) and len(st.targets) == 1 and isinstance(st.value, ast.Call):
            call, mode = st.value, "assign"
        elif isinstance(st, ast.Return) and isinstance(st.value, ast.Call):
            call, mode = st.value, "return"
        tgt = self._helper_target(call, q, cls) if call is not None else None
        if tgt is None:
            return self._hoist_nested_call(st, q, cls)
        hq, recv = tgt
        if hq == q:
            return None
        helper = self.defs[hq][0]
        if any(isinstance(x, ast.Call) and self._helper_target(x, hq, self.defs[hq][2]) and self._helper_target(x, hq, self.defs[hq][2])[0] == hq for x in ast.walk(helper)):
            return None      # recursive
        if any(isinstance(x, (ast.Yield, ast.YieldFrom, ast.Global, ast.Nonlocal)) for x in ast.walk(helper)):
            return None
        b = self._bind(helper, call, recv)
        if b is None:
            return None
        mapping, prelude, rename = b
        body = [s for s in helper.body if not _is_doc(s)]
        if mode != "return":
            # the caller goes on after the call: early returns of the helper have to become if/else structure
            body = tailify(body)
            if body is None:
                return None
        # parameters the helper re-assigns
        subst = {}
        for p, v in mapping.items():
            if isinstance(v, tuple):
                arg = v[1]
                same_target = mode == "assign" and isinstance(arg, ast.Name) and isinstance(st.targets[0], ast.Name) and st.targets[0].id == arg.id
                if not same_target and isinstance(arg, ast.Name) and self._dead_after(self.defs[q][0], st, arg.id):
                    same_target = True      # the caller never reads its variable again: re-binding it is unobservable
                if same_target:
                    rename[p] = arg.id
                else:
                    k = next(self.counter)
                    tmp = f"{p}__h{k}"
                    prelude.append(ast.Assign(targets=[ast.Name(id=tmp, ctx=ast.Store())], value=clone(arg)))
                    rename[p] = tmp
            else:
                subst[p] = v
        if mode == "assign":
            # `a, b = helper(...)` where the helper ends in `return x, y` (its own locals): let the helper's locals
            # be the caller's targets directly - the caller's old values are dead (overwritten by this statement)
            tg0 = st.targets[0]
            tnames = [e.id for e in tg0.elts] if isinstance(tg0, ast.Tuple) and all(isinstance(e, ast.Name) for e in tg0.elts) else \
                ([tg0.id] if isinstance(tg0, ast.Name) else None)
            rets = [x for s_ in body for x in ast.walk(s_) if isinstance(x, ast.Return)]
            if tnames and rets:
                shapes = set()
                for r_ in rets:
                    v = r_.value
                    names = [e.id for e in v.elts] if isinstance(v, ast.Tuple) and all(isinstance(e, ast.Name) for e in v.elts) else \
                        ([v.id] if isinstance(v, ast.Name) else None)
                    shapes.add(tuple(names) if names else None)
                if len(shapes) == 1 and None not in shapes:
                    rn = list(shapes.pop())
                    helper_locals = {n for n, k_ in bound_names(helper) if k_ != "param"}
                    argnames = {n.id for a_ in list(call.args) + [k_.value for k_ in call.keywords] for n in ast.walk(a_) if isinstance(n, ast.Name)}
                    used_in_helper = {n.id for n in ast.walk(helper) if isinstance(n, ast.Name)}
                    if len(rn) == len(tnames) and len(set(rn)) == len(rn) and set(rn) <= helper_locals and not (set(tnames) & argnames) \
                            and not ((set(tnames) - set(rn)) & used_in_helper) and not any(rename.get(x_, x_) in tnames for x_ in helper_locals - set(rn)):
                        for a_, b_ in zip(rn, tnames):
                            rename[a_] = b_
        new = _stmts_subst(body, subst, rename)
        if mode == "stmt":
            if any(isinstance(x, ast.Return) and x.value is not None and not (isinstance(x.value, ast.Constant) and x.value.value is None) for s in new for x in ast.walk(s)):
                return None
            new = _replace_returns(new, lambda e: [])
        elif mode == "assign":
            if not _always_returns(new) or any(isinstance(x, ast.Raise) for x in []):
                return None
            tg = st.targets[0]

            def mk(e):
                if e is None:
                    e = ast.Constant(value=None)
                if isinstance(tg, ast.Name) and isinstance(e, ast.Name) and e.id == tg.id:
                    return []
                if isinstance(tg, ast.Tuple) and isinstance(e, ast.Tuple) and ast.dump(_loadify(tg)) == ast.dump(_loadify(e)):
                    return []
                return [ast.Assign(targets=[clone(tg)], value=e)]
            new = _replace_returns(new, mk)
        else:
            # `return helper(..)`: the helper's returns are the caller's returns; falling off the helper's end returns None
            if not _always_returns(new):
                fnq = self.defs[q][0]
                if not (fnq.body and fnq.body[-1] is st):
                    new = new + [ast.Return(value=ast.Constant(value=None))]
        res = prelude + new
        if not res:
            res = [ast.Pass()]
        for s in res:
            ast.copy_location(s, st)
            ast.fix_missing_locations(s)
        self.log.append(f"{q}: call of new helper {hq} inlined ({mode})")
        self.inlined[hq] = self.inlined.get(hq, 0) + 1
        return res

    def _hoist_nested_call(self, st, q, cls):
        """`x = f(a, helper(b))` with a multi-statement new helper: evaluate the helper first into a fresh local
        (allowed when everything else in the statement is pure, so no evaluation order is observable), then inline
        that assignment; the fresh local is propagated back later when it is single-assigned."""
        if not isinstance(st, (ast.Assign, ast.Return, ast.Expr, ast.AugAssign)) or st.value is None:
            return None
        # nodes of the statement's expression in evaluation (depth-first, left-to-right) order
        order, parents = [], {}

        def dfs(n, par):
            parents[id(n)] = par
            order.append(n)
            for ch in ast.iter_child_nodes(n):
                dfs(ch, n)
        dfs(st.value, None)
        cond_kinds = (ast.Lambda, ast.ListComp, ast.SetComp, ast.DictComp, ast.GeneratorExp, ast.IfExp, ast.BoolOp)
        call = None
        for i, c in enumerate(order):
            if isinstance(c, ast.Call) and c is not st.value and self._helper_target(c, q, cls):
                anc, p_ = set(), parents[id(c)]
                while p_ is not None:
                    anc.add(id(p_))
                    p_ = parents[id(p_)]
                if any(isinstance(a, cond_kinds) for a in order if id(a) in anc):
                    continue      # conditionally / repeatedly evaluated: cannot be hoisted
                # everything evaluated before the call must be pure (ancestors complete after it)
                before = [n for n in order[:i] if id(n) not in anc]
                impure = [n for n in before if isinstance(n, (ast.Await, ast.Yield, ast.YieldFrom, ast.NamedExpr)) or (isinstance(n, ast.Call) and not is_pure(n))]
                if impure:
                    return None
                call = c
                break
        if call is None:
            return None
        hq, recv = self._helper_target(call, q, cls)
        body = [x for x in self.defs[hq][0].body if not _is_doc(x)]
        if len(body) == 1 and isinstance(body[0], ast.Return):
            return None       # expression-level inlining handles it
        tmp = f"r__h{next(self.counter)}"
        # `f(.., helper(x))` as the last use of x: let the result take x's name (x = helper(x)), which restores the
        # common idiom `if not isinstance(x, T): x = T(x)` followed by the use of x
        if len(call.args) == 1 and not call.keywords and isinstance(call.args[0], ast.Name):
            a = call.args[0].id
            others = [n for n in ast.walk(st) if isinstance(n, ast.Name) and n.id == a and not any(n is x for x in ast.walk(call))]
            if not others and self._dead_after(self.defs[q][0], st, a) and a not in {"self", "cls"}:
                tmp = a
        probe = clone(st)
        target_txt = ast.dump(call)

        class R(ast.NodeTransformer):
            done = False

            def visit_Call(self, n):
                if not self.done and ast.dump(n) == target_txt:
                    self.done = True
                    return ast.Name(id=tmp, ctx=ast.Load())
                self.generic_visit(n)
                return n
        r = R()
        probe = r.visit(probe)
        if not r.done:
            return None
        if isinstance(st, ast.Assign) and not all(is_pure(_loadify(t)) for t in st.targets):
            return None
        first = ast.Assign(targets=[ast.Name(id=tmp, ctx=ast.Store())], value=clone(call))
        ast.copy_location(first, st)
        ast.fix_missing_locations(first)
        first._anchor = st
        inl = self._try_inline_stmt(first, q, cls)
        if inl is None:
            return None
        ast.copy_location(probe, st)
        ast.fix_missing_locations(probe)
        probe._parent = getattr(st, "_parent", None)
        return inl + [probe]

    @staticmethod
    def _dead_after(fn, st, name):
        """True if `name` is not read in fn after statement st before being re-bound (conservative)."""
        anchor = getattr(st, "_anchor", st)
        renumber(fn)
        if not hasattr(anchor, "_ord"):
            return False
        end = _last_ord(anchor)
        for n in ast.walk(fn):
            if isinstance(n, ast.Name) and n.id == name and isinstance(n.ctx, ast.Load) and n._ord > end:
                return False
            if isinstance(n, (ast.FunctionDef, ast.Lambda)) and n is not fn and any(isinstance(x, ast.Name) and x.id == name for x in ast.walk(n)):
                return False
        # inside a loop the statements before st run again: the loop must re-bind the name itself
        inside = [p for p in ast.walk(fn) if isinstance(p, (ast.For, ast.While)) and any(x is anchor for x in ast.walk(p))]
        for p in inside:
            if isinstance(p, ast.While):
                return False
            if name not in {x.id for x in ast.walk(p.target) if isinstance(x, ast.Name)}:
                return False
        return True

    def _try_inline_expr(self, st, q, cls):
        """Expression-level inlining of helpers whose body is `return <expr>` or `if c: return a` + `return b`."""
        done = False
        for call in [c for c in ast.walk(st) if isinstance(c, ast.Call)]:
            if isinstance(st, (ast.FunctionDef, ast.AsyncFunctionDef, ast.ClassDef)):
                return None
            tgt = self._helper_target(call, q, cls)
            if tgt is None:
                continue
            hq, recv = tgt
            helper = self.defs[hq][0]
            body = [s for s in helper.body if not _is_doc(s)]
            expr = None
            if len(body) == 1 and isinstance(body[0], ast.Return) and body[0].value is not None:
                expr = body[0].value
            elif len(body) == 2 and isinstance(body[0], ast.If) and not body[0].orelse and len(body[0].body) == 1 and isinstance(body[0].body[0], ast.Return) \
                    and isinstance(body[1], ast.Return) and body[0].body[0].value is not None and body[1].value is not None:
                expr = ast.IfExp(test=body[0].test, body=body[0].body[0].value, orelse=body[1].value)
            if expr is None:
                continue
            b = self._bind(helper, call, recv)
            if b is None:
                continue
            mapping, prelude, rename = b
            if prelude or any(isinstance(v, tuple) for v in mapping.values()) or not all(is_pure(v) for v in mapping.values()):
                continue
            new = Subst(mapping).visit(clone(expr))
            parent = next((n_ for n_ in ast.walk(st) if any(ch is call for ch in ast.iter_child_nodes(n_))), None)   # cloned statements carry no back-links
            if parent is None:
                continue
            replaced = False
            for field, val in ast.iter_fields(parent):
                if val is call:
                    setattr(parent, field, new)
                    replaced = True
                elif isinstance(val, list):
                    for i, x in enumerate(val):
                        if x is call:
                            val[i] = new
                            replaced = True
            if replaced:
                new._parent = parent
                for n2 in ast.walk(new):
                    for ch in ast.iter_child_nodes(n2):
                        ch._parent = n2
                ast.copy_location(new, call)
                ast.fix_missing_locations(new)
                self.log.append(f"{q}: call of new helper {hq} inlined (expression)")
                self.inlined[hq] = self.inlined.get(hq, 0) + 1
                done = True
        return st if done else None

    def _drop_unused_helpers(self):
        for hq, (fn, owner, cls) in list(self.defs.items()):
            if not self.is_new_function(hq) or not self.inlined.get(hq):
                continue          # only helpers that were actually inlined somewhere may disappear (a new override is not a helper)
            name = fn.name
            still = False
            for n in ast.walk(self.tree):
                if n is fn or any(n is x for x in ast.walk(fn)):
                    continue
                if isinstance(n, ast.Attribute) and n.attr == name:
                    still = True
                if isinstance(n, ast.Name) and n.id == name and isinstance(n.ctx, ast.Load):
                    still = True
            if not still and fn in owner.body:
                owner.body.remove(fn)
                if not owner.body:
                    owner.body.append(ast.Pass())
                del self.defs[hq]
                self.log.append(f"{hq}: helper definition dropped after inlining all its call sites")

    # ---- temporaries
    def _propagate_temporaries(self, q, fn):
        inv = self.inv["functions"][q]
        known = {n for n, _ in inv["locals"]} | set(inv["params"])
        for _ in range(6):
            progress = False
            binds = bound_names(fn)
            renumber(fn)
            new_locals = [n for n, k in binds if k == "assign" and n not in known]
            if not new_locals:
                break
            # split parallel assignments that bind a new local
            self._split_parallel(fn, set(new_locals))
            renumber(fn)
            assigns = {}
            for node in ast.walk(fn):
                if isinstance(node, (ast.FunctionDef, ast.AsyncFunctionDef)) and node is not fn:
                    continue
                if isinstance(node, ast.Assign):
                    for t in node.targets:
                        for e in (t.elts if isinstance(t, (ast.Tuple, ast.List)) else [t]):
                            if isinstance(e, ast.Name):
                                assigns.setdefault(e.id, []).append(node)
                elif isinstance(node, (ast.AugAssign, ast.AnnAssign)) and isinstance(node.target, ast.Name):
                    assigns.setdefault(node.target.id, []).append(node)
                elif isinstance(node, (ast.For, ast.comprehension)):
                    for e in ast.walk(node.target):
                        if isinstance(e, ast.Name):
                            assigns.setdefault(e.id, []).append(node)
                elif isinstance(node, ast.NamedExpr):
                    assigns.setdefault(node.target.id, []).append(node)
            for v in new_locals:
                a = assigns.get(v, [])
                if len(a) != 1 or not isinstance(a[0], ast.Assign) or len(a[0].targets) != 1 or not isinstance(a[0].targets[0], ast.Name):
                    continue
                st = a[0]
                if not is_pure(st.value):
                    if self._forward_single_use(fn, st, v):
                        self.log.append(f"{q}: single-use temporary `{v}` forwarded into the next statement")
                        progress = True
                        break
                    continue
                fv = free_names(st.value)
                if v in fv:
                    continue
                uses = [n for n in ast.walk(fn) if isinstance(n, ast.Name) and n.id == v and isinstance(n.ctx, ast.Load)]
                # no free variable of the expression is re-bound between the definition and its last use (anywhere after
                # the definition when a use sits in a loop the definition is outside of: the next iteration sees it)
                horizon = max([u._ord for u in uses], default=st._ord)
                loops = [l for l in ast.walk(fn) if isinstance(l, (ast.For, ast.While, ast.AsyncFor))]
                for l in loops:
                    inside = {id(x) for x in ast.walk(l)}
                    if id(st) not in inside and any(id(u) in inside for u in uses):
                        horizon = float("inf")
                later = False
                for name in fv:
                    for b in assigns.get(name, []):
                        if b is not st and st._ord < b._ord <= horizon:
                            later = True
                if later:
                    continue
                # the definition must dominate its uses: require it to be at the top level of the function or
                # every use to be inside the same block after it
                if any(u._ord < st._ord for u in uses):
                    continue
                block = self._block_of(fn, st)
                if block is None:
                    continue
                if block is not fn.body:
                    inside = {id(x) for s in block for x in ast.walk(s)}
                    if any(id(u) not in inside for u in uses):
                        continue
                if not uses:
                    continue
                if not self._stable_between(fn, st, v, uses):
                    continue
                self._substitute_local(fn, v, st.value)
                block.remove(st)
                if not block:
                    block.append(ast.Pass())
                self.log.append(f"{q}: new temporary `{v}` propagated")
                progress = True
                break
            if not progress:
                break

    def _forward_single_use(self, fn, st, v):
        """`t = f(..)` (any call) used exactly once, in the statement that follows immediately: put the call where t is
        used, provided everything that statement evaluates before that point is pure and is not read through the
        call's receiver (same assumption as for propagation: a method changes its receiver's subtree only)."""
        uses = [n for n in ast.walk(fn) if isinstance(n, ast.Name) and n.id == v and isinstance(n.ctx, ast.Load)]
        calls = [c for c in ast.walk(st.value) if isinstance(c, ast.Call) and not is_pure(c)]
        whole = False
        if len(uses) == 1:
            blk = self._block_of(fn, st)
            if blk is not None and blk.index(st) + 1 < len(blk):
                nx = blk[blk.index(st) + 1]
                whole = (isinstance(nx, ast.If) and nx.test is uses[0]) or (isinstance(nx, (ast.Return, ast.Expr)) and nx.value is uses[0]) \
                    or (isinstance(nx, ast.Assign) and nx.value is uses[0] and all(isinstance(t, ast.Name) or is_pure(_loadify(clone(t))) for t in nx.targets))
        if not whole and (not calls or any(isinstance(x, (ast.Lambda, ast.ListComp, ast.SetComp, ast.DictComp, ast.GeneratorExp, ast.NamedExpr, ast.Await, ast.Yield, ast.YieldFrom))
                                           for x in ast.walk(st.value))):
            return False
        if len(uses) != 1:
            return False
        block = self._block_of(fn, st)
        if block is None:
            return False
        i = block.index(st)
        if i + 1 >= len(block):
            return False
        nxt = block[i + 1]
        slot = "test" if isinstance(nxt, ast.If) else "value"
        if not isinstance(nxt, (ast.Assign, ast.Return, ast.Expr, ast.AugAssign, ast.If)) or getattr(nxt, slot) is None \
                or not any(u is uses[0] for u in ast.walk(getattr(nxt, slot))):
            return False
        order, parents = [], {}

        def dfs(n, par):
            parents[id(n)] = par
            order.append(n)
            for ch in ast.iter_child_nodes(n):
                dfs(ch, n)
        dfs(getattr(nxt, slot), None)
        pos = [k for k, n in enumerate(order) if n is uses[0]][0]
        anc, p_ = set(), parents[id(uses[0])]
        while p_ is not None:
            anc.add(id(p_))
            p_ = parents[id(p_)]
        if any(isinstance(a, (ast.Lambda, ast.ListComp, ast.SetComp, ast.DictComp, ast.GeneratorExp, ast.IfExp, ast.BoolOp)) for a in order if id(a) in anc):
            return False
        recvs = [" ".join(ast.unparse(c.func.value).split()) for c in calls if isinstance(c.func, ast.Attribute)]
        for n in order[:pos]:
            if id(n) in anc:
                continue
            if isinstance(n, ast.Call) and not is_pure(n):
                return False
            if recvs and isinstance(n, (ast.Attribute, ast.Subscript)):
                k = " ".join(ast.unparse(n).split())
                if any(k == recv or k.startswith(recv + ".") or k.startswith(recv + "[") for recv in recvs):
                    return False
        if isinstance(nxt, ast.Assign) and not all(is_pure(_loadify(t)) for t in nxt.targets):
            return False
        par = parents[id(uses[0])]
        new = st.value
        if par is None:
            setattr(nxt, slot, new)
        else:
            for field, val in ast.iter_fields(par):
                if val is uses[0]:
                    setattr(par, field, new)
                elif isinstance(val, list):
                    for j, x in enumerate(val):
                        if x is uses[0]:
                            val[j] = new
        block.remove(st)
        ast.fix_missing_locations(nxt)
        return True

    @staticmethod
    def _stable_between(fn, st, v, uses):
        """Substituting `v = E` into its uses is value-preserving when (1) the object is not mutated or identity-
        tested through v unless E merely aliases an existing object, and (2) nothing between the definition and the
        last use can change what E reads: no store to an attribute/subscript E reads, and no impure method call on
        an object that E reads *through* (assumption, stated in DESIGN.md: a method changes its receiver's subtree
        only)."""
        E = st.value
        alias = isinstance(E, (ast.Name, ast.Attribute, ast.Subscript, ast.Constant)) and is_pure(E)
        parent = {}
        for n in ast.walk(fn):
            for ch in ast.iter_child_nodes(n):
                parent[id(ch)] = n
        if not alias:
            for u in uses:
                p_ = parent.get(id(u))
                if isinstance(p_, (ast.Attribute, ast.Subscript)) and p_.value is u:
                    if isinstance(p_.ctx, (ast.Store, ast.Del)):
                        return False
                    pp = parent.get(id(p_))
                    if isinstance(p_, ast.Attribute) and isinstance(pp, ast.Call) and pp.func is p_ and p_.attr not in PURE_METHODS:
                        return False
                if isinstance(p_, ast.Compare) and any(isinstance(o, (ast.Is, ast.IsNot)) for o in p_.ops) and not isinstance(E, ast.Constant):
                    return False
                if isinstance(p_, ast.AugAssign) and p_.target is u:
                    return False
        last = max(u._ord for u in uses)
        attrs = {n.attr for n in ast.walk(E) if isinstance(n, ast.Attribute)}
        chains = set()
        for n in ast.walk(E):
            d = None
            if isinstance(n, ast.Attribute):
                parts, x = [], n
                while isinstance(x, (ast.Attribute, ast.Subscript)):
                    if isinstance(x, ast.Attribute):
                        parts.append(x.attr)
                    x = x.value
                if isinstance(x, ast.Name):
                    d = ".".join([x.id] + list(reversed(parts)))
            if d:
                chains.add(d)
        subs = {" ".join(ast.unparse(n.value).split()) for n in ast.walk(E) if isinstance(n, ast.Subscript)}
        # the targets of the assignment that contains the last use are stored *after* its value is evaluated
        late = set()
        last_use = max(uses, key=lambda u: u._ord)
        p_ = parent.get(id(last_use))
        while p_ is not None and not isinstance(p_, ast.stmt):
            p_ = parent.get(id(p_))
        if isinstance(p_, (ast.Assign, ast.AnnAssign)) and p_.value is not None and any(x is last_use for x in ast.walk(p_.value)):
            for t in (p_.targets if isinstance(p_, ast.Assign) else [p_.target]):
                late |= {id(x) for x in ast.walk(t)}
        for n in ast.walk(fn):
            o = getattr(n, "_ord", None)
            if o is None or o <= st._ord or o > last or id(n) in late:
                continue
            if isinstance(n, ast.Attribute) and isinstance(n.ctx, (ast.Store, ast.Del)) and n.attr in attrs:
                return False
            if isinstance(n, ast.Subscript) and isinstance(n.ctx, (ast.Store, ast.Del)) and " ".join(ast.unparse(n.value).split()) in subs:
                return False
            if isinstance(n, ast.Call) and isinstance(n.func, ast.Attribute) and n.func.attr not in PURE_METHODS:
                r = n.func.value
                parts, x = [], r
                while isinstance(x, (ast.Attribute, ast.Subscript)):
                    if isinstance(x, ast.Attribute):
                        parts.append(x.attr)
                    x = x.value
                if isinstance(x, ast.Name):
                    recv = ".".join([x.id] + list(reversed(parts)))
                    if any(c == recv or c.startswith(recv + ".") for c in chains):
                        return False
        return True

    def _split_parallel(self, fn, new_locals):
        def process(stmts):
            out = []
            for st in stmts:
                if isinstance(st, ast.Assign) and len(st.targets) == 1 and isinstance(st.targets[0], ast.Tuple) and isinstance(st.value, ast.Tuple) \
                        and len(st.targets[0].elts) == len(st.value.elts) and all(isinstance(e, ast.Name) for e in st.targets[0].elts) \
                        and any(e.id in new_locals for e in st.targets[0].elts):
                    names = [e.id for e in st.targets[0].elts]
                    if not any(n in free_names(v) for n in names for v in st.value.elts):
                        for e, v in zip(st.targets[0].elts, st.value.elts):
                            s = ast.Assign(targets=[ast.Name(id=e.id, ctx=ast.Store())], value=v)
                            ast.copy_location(s, st)
                            ast.fix_missing_locations(s)
                            out.append(s)
                        continue
                for field in ("body", "orelse", "finalbody"):
                    sub = getattr(st, field, None)
                    if isinstance(sub, list) and sub and isinstance(sub[0], ast.stmt) and not isinstance(st, (ast.FunctionDef, ast.AsyncFunctionDef, ast.ClassDef)):
                        setattr(st, field, process(sub))
                for h in getattr(st, "handlers", []) or []:
                    h.body = process(h.body)
                out.append(st)
            return out
        fn.body = process(fn.body)

    def _block_of(self, fn, st):
        def find(stmts):
            if st in stmts:
                return stmts
            for s in stmts:
                if isinstance(s, (ast.FunctionDef, ast.AsyncFunctionDef, ast.ClassDef)):
                    continue
                for field in ("body", "orelse", "finalbody"):
                    sub = getattr(s, field, None)
                    if isinstance(sub, list) and sub and isinstance(sub[0], ast.stmt):
                        r = find(sub)
                        if r is not None:
                            return r
                for h in getattr(s, "handlers", []) or []:
                    r = find(h.body)
                    if r is not None:
                        return r
            return None
        return find(fn.body)

    def _substitute_local(self, fn, v, expr):
        class T(ast.NodeTransformer):
            def visit_Name(self, n):
                if n.id == v and isinstance(n.ctx, ast.Load):
                    return ast.copy_location(clone(expr), n)
                return n

            def visit_FunctionDef(self, n):
                if v in {a.arg for a in n.args.args}:
                    return n
                self.generic_visit(n)
                return n
        for i, s in enumerate(fn.body):
            fn.body[i] = T().visit(s)

    # ---- renames
    def _rename_back(self, q, fn):
        """Alpha-renaming of locals (and positionally of parameters) back to the reference names.  Renaming a local
        to a name that does not occur in the function is semantics-preserving whatever the pairing; the pairing
        (same kind of binding and the same defining expression modulo the renaming itself) only decides how well the
        rules recognise the result."""
        inv = self.inv["functions"][q]
        cdefs = {}
        cur = bound_names(fn, cdefs)
        cur_params = [n for n, k in cur if k == "param"]
        ref_params = inv["params"]
        rename = {}
        if cur_params != ref_params and len(cur_params) == len(ref_params):
            for c, r in zip(cur_params, ref_params):
                # a parameter that changed its *name* goes back to the reference name; one that changed its *position*
                # (both names exist on either side) is a different signature for every positional caller and stays as written
                if c != r and c not in ref_params and r not in cur_params:
                    rename[c] = r
        ref_locals = [(n, k) for n, k in inv["locals"]]
        cur_locals = [(n, k) for n, k in cur if k != "param"]
        ref_names = [n for n, _ in ref_locals]
        cur_names = [n for n, _ in cur_locals]
        removed = [(n, k) for n, k in ref_locals if n not in cur_names]
        added = [(n, k) for n, k in cur_locals if n not in ref_names]
        rdefs = inv.get("defs", {})
        import re as _re

        def apply(text, mp):
            return _re.sub(r"[A-Za-z_][A-Za-z_0-9]*", lambda m: mp.get(m.group(0), m.group(0)), text)
        progress = True
        while progress and added and removed:
            progress = False
            for a, ka in list(added):
                da = cdefs.get(a)
                if da is None:
                    continue
                cands = [(r, kr) for r, kr in removed if kr == ka and rdefs.get(r) is not None and apply(da, rename) == rdefs[r]]
                if len(cands) == 1:
                    rename[a] = cands[0][0]
                    added.remove((a, ka))
                    removed.remove(cands[0])
                    progress = True
        if added:
            self.reshaped.add(q)
        if not rename:
            return
        allnames = {n.id for n in ast.walk(fn) if isinstance(n, ast.Name)} | {a.arg for a in ast.walk(fn) if isinstance(a, ast.arg)}
        if any(r in allnames and r not in rename for r in rename.values()) or len(set(rename.values())) != len(rename):
            return        # the reference name is in use for something else: leave the function alone
        for a in fn.args.posonlyargs + fn.args.args + fn.args.kwonlyargs + ([fn.args.vararg] if fn.args.vararg else []) + ([fn.args.kwarg] if fn.args.kwarg else []):
            if a.arg in rename:
                a.arg = rename[a.arg]

        class R(ast.NodeTransformer):
            def visit_Name(self, n):
                if n.id in rename:
                    return ast.copy_location(ast.Name(id=rename[n.id], ctx=n.ctx), n)
                return n

            def visit_arg(self, n):
                return n

            def visit_ExceptHandler(self, n):
                if n.name in rename:
                    n.name = rename[n.name]
                self.generic_visit(n)
                return n
        fn.body = [R().visit(s_) for s_ in fn.body]
        self.renamed.add(q)
        self.log.append(f"{q}: locals/parameters alpha-renamed to the reference names {rename}")


def split_parallel_assignments(tree):
    """Canonical spelling, applied to every module: `a, b = x, y` becomes `a = x; b = y` when no later value reads an
    earlier target (so it is not a swap and the order of evaluation is not observable through the targets)."""
    count = 0

    def reads(value, target):
        t = " ".join(ast.unparse(_loadify(target)).split())
        inner = {id(n.value) for n in ast.walk(value) if isinstance(n, (ast.Attribute, ast.Subscript))}
        for n in ast.walk(value):
            if isinstance(n, (ast.Name, ast.Attribute, ast.Subscript)) and id(n) not in inner:      # maximal access paths only
                k = " ".join(ast.unparse(n).split())
                if k == t or k.startswith(t + ".") or k.startswith(t + "[") or t.startswith(k + ".") or t.startswith(k + "["):
                    return True
        return False

    def process(stmts):
        nonlocal count
        out = []
        for st in stmts:
            if isinstance(st, ast.Assign) and len(st.targets) == 1 and isinstance(st.targets[0], (ast.Tuple, ast.List)) and is_pure(st.value) \
                    and isinstance(st.value, (ast.Name, ast.Attribute)) and sum(isinstance(e, ast.Starred) for e in st.targets[0].elts) == 1 \
                    and all(isinstance(e.value if isinstance(e, ast.Starred) else e, ast.Name) for e in st.targets[0].elts) \
                    and not any(reads(st.value, e.value if isinstance(e, ast.Starred) else e) for e in st.targets[0].elts):
                # head, *rest = X  ->  head = X[0]; rest = X[1:]   (X pure; the list/tuple type of `rest` is not observable through *rest)
                elts = st.targets[0].elts
                k = [i for i, e in enumerate(elts) if isinstance(e, ast.Starred)][0]
                after = len(elts) - k - 1
                for i, e in enumerate(elts):
                    if i < k:
                        v = ast.Subscript(value=clone(st.value), slice=ast.Constant(value=i), ctx=ast.Load())
                        t = e
                    elif i == k:
                        up = ast.UnaryOp(op=ast.USub(), operand=ast.Constant(value=after)) if after else None
                        v = ast.Subscript(value=clone(st.value), slice=ast.Slice(lower=ast.Constant(value=k) if k else None, upper=up, step=None), ctx=ast.Load())
                        t = e.value
                    else:
                        v = ast.Subscript(value=clone(st.value), slice=ast.UnaryOp(op=ast.USub(), operand=ast.Constant(value=len(elts) - i)), ctx=ast.Load())
                        t = e
                    a = ast.Assign(targets=[t], value=v)
                    ast.copy_location(a, st)
                    ast.fix_missing_locations(a)
                    out.append(a)
                count += 1
                continue
            if isinstance(st, ast.Assign) and len(st.targets) > 1 and is_pure(st.value) and all(isinstance(t, (ast.Name, ast.Attribute)) for t in st.targets) \
                    and not any(reads(st.value, t) for t in st.targets):
                # chained assignment of a pure value: a = b = v  ->  a = v; b = v
                for t in st.targets:
                    a = ast.Assign(targets=[t], value=clone(st.value))
                    ast.copy_location(a, st)
                    ast.fix_missing_locations(a)
                    out.append(a)
                count += 1
                continue
            if isinstance(st, ast.Assign) and len(st.targets) == 1 and isinstance(st.targets[0], (ast.Tuple, ast.List)) and isinstance(st.value, (ast.Tuple, ast.List)) \
                    and len(st.targets[0].elts) == len(st.value.elts) and not any(isinstance(e, ast.Starred) for e in list(st.targets[0].elts) + list(st.value.elts)) \
                    and all(isinstance(t, (ast.Name, ast.Attribute, ast.Subscript)) for t in st.targets[0].elts):
                ts, vs = st.targets[0].elts, st.value.elts
                safe = all(not reads(vs[j], ts[i]) for j in range(len(vs)) for i in range(len(ts)) if i != j) and all(is_pure(_loadify(t)) for t in ts)
                if safe:
                    for t, v in zip(ts, vs):
                        a = ast.Assign(targets=[t], value=v)
                        ast.copy_location(a, st)
                        ast.fix_missing_locations(a)
                        out.append(a)
                    count += 1
                    continue
            for field in ("body", "orelse", "finalbody"):
                sub = getattr(st, field, None)
                if isinstance(sub, list) and sub and isinstance(sub[0], ast.stmt):
                    setattr(st, field, process(sub))
            for h in getattr(st, "handlers", []) or []:
                h.body = process(h.body)
            out.append(st)
        return out
    tree.body = process(tree.body)
    return count


def normalise_module(tree, inv):
    n = ModuleNormaliser(tree, inv)
    try:
        n.run()
    except RecursionError:
        pass
    return n
