"""Symbolic terms with a rational-function normal form.

Term = quotient of multivariate polynomials with exact rational coefficients over
*atoms*; an atom is a symbol name or an opaque function application whose arguments are
themselves normalised.  Equality of two formulas is equality of normal forms
(cross-multiplication), so `v*5/9`, `v/1.8` and `5*v/9` are the same term and a different
constant, sign or operand is a different term.
"""
import ast
from fractions import Fraction

from .model import AnalysisError, dotted_name, norm


# opaque atoms a rule names on purpose in its oracle (e.g. the two results of a rationalising helper): their presence on
# one side of a comparison does not make the comparison undecided
EXPECTED_OPAQUE = set()


class NotSymbolic(AnalysisError):
    pass


def _mono_mul(a, b):
    d = dict(a)
    for k, p in b:
        d[k] = d.get(k, 0) + p
    return tuple(sorted((k, p) for k, p in d.items() if p != 0))


class Poly:
    __slots__ = ("t",)

    def __init__(self, terms=None):
        self.t = {m: c for m, c in (terms or {}).items() if c != 0}

    @staticmethod
    def const(c):
        return Poly({(): Fraction(c)})

    @staticmethod
    def atom(name):
        return Poly({((name, 1),): Fraction(1)})

    def __add__(self, o):
        d = dict(self.t)
        for m, c in o.t.items():
            d[m] = d.get(m, 0) + c
        return Poly(d)

    def __neg__(self):
        return Poly({m: -c for m, c in self.t.items()})

    def __sub__(self, o):
        return self + (-o)

    def __mul__(self, o):
        d = {}
        for m1, c1 in self.t.items():
            for m2, c2 in o.t.items():
                m = _mono_mul(m1, m2)
                d[m] = d.get(m, 0) + c1 * c2
        return Poly(d)

    def __eq__(self, o):
        return self.t == o.t

    def is_zero(self):
        return not self.t

    def is_const(self):
        return all(m == () for m in self.t)

    def const_value(self):
        return self.t.get((), Fraction(0))

    def atoms(self):
        return {k for m in self.t for k, _ in m}

    def key(self):
        def mk(m):
            return "*".join(k if p == 1 else f"{k}^{p}" for k, p in m) or "1"
        return " + ".join(f"{c}*{mk(m)}" for m, c in sorted(self.t.items(), key=lambda x: (mk(x[0]))))

    def content(self):
        """(leading coefficient, common monomial) used to normalise quotients"""
        if not self.t:
            return Fraction(1), ()
        first = sorted(self.t.items(), key=lambda x: repr(x[0]))[0]
        return first[1], ()


class Term:
    __slots__ = ("n", "d")

    def __init__(self, n, d=None):
        self.n, self.d = n, d if d is not None else Poly.const(1)

    @staticmethod
    def const(c):
        return Term(Poly.const(c))

    @staticmethod
    def sym(name):
        return Term(Poly.atom(name))

    def __add__(self, o):
        if self.d == o.d:
            return Term(self.n + o.n, self.d)
        return Term(self.n * o.d + o.n * self.d, self.d * o.d)

    def __neg__(self):
        return Term(-self.n, self.d)

    def __sub__(self, o):
        return self + (-o)

    def __mul__(self, o):
        return Term(self.n * o.n, self.d * o.d)

    def __truediv__(self, o):
        if o.n.is_zero():
            raise NotSymbolic("division by zero term")
        return Term(self.n * o.d, self.d * o.n)

    def __pow__(self, k):
        if not isinstance(k, int):
            raise NotSymbolic("non-integer power")
        if k < 0:
            return Term.const(1) / (self ** (-k))
        r = Term.const(1)
        for _ in range(k):
            r = r * self
        return r

    def equals(self, o):
        if (self.n * o.d) == (o.n * self.d):
            return True
        # an inequality is a verdict only between fully interpreted terms: a part the abstraction could not interpret
        # (opaque atom "<...>") on one side only means the comparison is undecided, not that the code is wrong
        def opaque(t):
            import re as _re
            return {m for a in t.atoms() if "<" in a for m in _re.findall(r"<[^<>]*>(?:\[\d+\])?", a)} - EXPECTED_OPAQUE
        mine, theirs = opaque(self), opaque(o)
        if mine != theirs:
            raise NotSymbolic(f"term has parts the abstraction does not interpret: {sorted(mine ^ theirs)[0][:120]}")
        # a call the evaluator has no meaning for (operator.add, a new helper, a method) is an uninterpreted function
        # symbol: equal spellings are equal, but a symbol on one side only decides nothing
        def heads(t):
            import re as _re
            return {h for a in t.atoms() for h in _re.findall(r"([A-Za-z_][\w.]*)\(", a)} - _VOCABULARY
        hm, ht = heads(self), heads(o)
        if hm != ht:
            raise NotSymbolic(f"call the abstraction has no meaning for: {sorted(hm ^ ht)[0][:80]}")
        return False

    def is_const(self):
        return self.n.is_const() and self.d.is_const()

    def const_value(self):
        return self.n.const_value() / self.d.const_value()

    def atoms(self):
        return self.n.atoms() | self.d.atoms()

    def key(self):
        """Canonical string: numerator/denominator scaled so that the denominator's first coefficient is 1."""
        if self.d.is_const():
            c = self.d.const_value()
            n = Poly({m: v / c for m, v in self.n.t.items()})
            return n.key() or "0"
        lead = sorted(self.d.t.items(), key=lambda x: repr(x[0]))[0][1]
        n = Poly({m: v / lead for m, v in self.n.t.items()})
        d = Poly({m: v / lead for m, v in self.d.t.items()})
        return f"({n.key() or '0'}) / ({d.key()})"

    def coeffs_in(self, var):
        """For a term polynomial in `var` with constant denominator: {power: Term coefficient}."""
        if var in self.d.atoms():
            raise NotSymbolic(f"denominator depends on {var}")
        out = {}
        for m, v in self.n.t.items():
            p = dict(m).get(var, 0)
            rest = tuple((k, q) for k, q in m if k != var)
            out.setdefault(p, Poly())
            out[p] = out[p] + Poly({rest: v})
        return {p: Term(poly, self.d) for p, poly in out.items()}

    def subst(self, mapping):
        """Replace atoms by Terms (atoms not in the mapping stay)."""
        def poly(pl):
            tot = Term.const(0)
            for m, c in pl.t.items():
                t = Term.const(c)
                for a, p in m:
                    t = t * (mapping.get(a, Term.sym(a)) ** p)
                tot = tot + t
            return tot
        return poly(self.n) / poly(self.d)

    def __repr__(self):
        return self.key()


def func(name, *args):
    return Term.sym(f"{name}({', '.join(a.key() for a in args)})")


_FUNC_ALIASES = {
    "np.log10": "log10", "numpy.log10": "log10", "math.log10": "log10",
    "np.log": "ln", "numpy.log": "ln", "math.log": "ln",
    "np.exp": "exp", "numpy.exp": "exp", "math.exp": "exp",
    "np.abs": "abs", "np.absolute": "abs", "abs": "abs", "numpy.abs": "abs", "np.fabs": "abs",
    "np.sqrt": "sqrt", "math.sqrt": "sqrt",
    "np.max": "max", "max": "max", "np.maximum": "max", "np.amax": "max",
    "np.min": "min", "min": "min", "np.minimum": "min",
    "float": None, "Decimal": None, "int": None,   # numeric casts are transparent
}
_CONSTS = {"np.e": "E", "math.e": "E", "np.pi": "PI", "math.pi": "PI"}
_VOCABULARY = {v for v in _FUNC_ALIASES.values() if v} | {"pow", "rule"}
_OPERATOR_MODULE = {"operator.add": "+", "operator.sub": "-", "operator.mul": "*", "operator.truediv": "/", "operator.neg": "neg", "operator.pos": "pos",
                    "np.add": "+", "np.subtract": "-", "np.multiply": "*", "np.divide": "/", "np.true_divide": "/", "np.negative": "neg"}


class SymEval:
    """Evaluate AST expressions to Terms. `env` maps names / dotted names to Terms."""

    def __init__(self, env=None, inline=None, attr_as_symbol=True):
        self.env = dict(env or {})
        self.inline = inline          # callback(call_node, evaluator) -> Term | None
        self.attr_as_symbol = attr_as_symbol
        self.escaped = set()          # local containers handed to an uninterpreted call

    def ev(self, n):
        if isinstance(n, ast.Constant):
            if isinstance(n.value, bool) or n.value is None:
                raise NotSymbolic(f"non-numeric constant {n.value!r}")
            if isinstance(n.value, int):
                return Term.const(n.value)
            if isinstance(n.value, float):
                return Term.const(Fraction(repr(n.value)))
            raise NotSymbolic(f"constant {n.value!r}")
        if isinstance(n, ast.Name):
            if n.id in self.env:
                return self.env[n.id]
            return Term.sym(n.id)
        if isinstance(n, ast.Attribute):
            d = dotted_name(n)
            if d is None:
                base = self.ev(n.value)
                return Term.sym(f"{base.key()}.{n.attr}")
            if d in self.env:
                return self.env[d]
            if d in _CONSTS:
                return Term.sym(_CONSTS[d])
            # resolve a prefix bound in env: x.value where x -> symbol
            root = d.split(".")[0]
            if root in self.env and self.env[root].n.t and len(self.env[root].atoms()) == 1 and \
                    self.env[root].equals(Term.sym(next(iter(self.env[root].atoms())))):
                return Term.sym(next(iter(self.env[root].atoms())) + d[len(root):])
            return Term.sym(d)
        if isinstance(n, ast.UnaryOp):
            v = self.ev(n.operand)
            if isinstance(n.op, ast.USub):
                return -v
            if isinstance(n.op, ast.UAdd):
                return v
            raise NotSymbolic("unary op")
        if isinstance(n, ast.BinOp):
            a, b = self.ev(n.left), self.ev(n.right)
            if isinstance(n.op, ast.Add):
                return a + b
            if isinstance(n.op, ast.Sub):
                return a - b
            if isinstance(n.op, ast.Mult):
                return a * b
            if isinstance(n.op, ast.Div):
                return a / b
            if isinstance(n.op, ast.Pow):
                if b.is_const() and b.const_value().denominator == 1 and abs(b.const_value()) <= 8:
                    return a ** int(b.const_value())
                return func("pow", a, b)
            raise NotSymbolic(f"binary op {type(n.op).__name__}")
        if isinstance(n, ast.Call):
            return self.call(n)
        if isinstance(n, ast.Subscript):
            from .flowexpr import prefix_slice_index
            r = prefix_slice_index(n)
            if r is not None:
                return self.ev(r)
            if any(isinstance(x, ast.Slice) for x in ast.walk(n)):
                raise NotSymbolic("slice of a sequence")
            base = dotted_name(n.value)
            if base is not None and isinstance(n.slice, ast.Constant):
                k = f"{base}[{n.slice.value!r}]"
                if k not in self.env and base in self.escaped:
                    return Term.sym(f"<{base}[{n.slice.value!r}] after a call that received {base}>")
                if k not in self.env and base in self.env and hasattr(self.env[base], "key") and "(" in self.env[base].key():
                    # an entry of a container that came out of a call the abstraction has no meaning for: not interpreted
                    return Term.sym(f"<{self.env[base].key()}[{n.slice.value!r}]>")
                return self.env.get(k, Term.sym(k))
            k = norm(n)                       # table lookup with a symbolic key: an opaque atom
            return self.env.get(k, Term.sym(k))
        if isinstance(n, (ast.List, ast.Tuple)):
            raise NotSymbolic("sequence")
        if isinstance(n, ast.IfExp):
            raise NotSymbolic("conditional expression")
        raise NotSymbolic(type(n).__name__)

    def call(self, n):
        fn = dotted_name(n.func)
        if self.inline is not None:
            r = self.inline(n, self)
            if r is not None:
                return r
        if fn in _FUNC_ALIASES:
            alias = _FUNC_ALIASES[fn]
            args = n.args
            if alias is None and len(args) == 1:
                return self.ev(args[0])
            if len(args) == 1 and isinstance(args[0], (ast.List, ast.Tuple)):
                args = args[0].elts
            targs = [self.ev(a) for a in args]
            if alias in ("max", "min"):
                targs = sorted(targs, key=lambda t: t.key())
            if alias == "abs" and len(targs) == 1 and targs[0].is_const():
                return Term.const(abs(targs[0].const_value()))
            return func(alias, *targs)
        if fn in _OPERATOR_MODULE and not n.keywords:
            op = _OPERATOR_MODULE[fn]
            targs = [self.ev(a) for a in n.args]
            if op in ("neg", "pos") and len(targs) == 1:
                return -targs[0] if op == "neg" else targs[0]
            if len(targs) == 2:
                a, b = targs
                return a + b if op == "+" else a - b if op == "-" else a * b if op == "*" else a / b
        if fn in ("np.power", "numpy.power", "pow", "math.pow", "operator.pow") and len(n.args) == 2:
            a, b = self.ev(n.args[0]), self.ev(n.args[1])
            if b.is_const() and b.const_value().denominator == 1 and abs(b.const_value()) <= 8:
                return a ** int(b.const_value())
            return func("pow", a, b)
        if fn is None:
            fn = norm(n.func)
        targs = []
        for a in n.args:
            targs.append(self.ev(a))
        # method call on a symbolic receiver: keep receiver in the name
        return func(fn, *targs)


def affine_in(term, var):
    """(alpha, beta) floats with term == alpha*var + beta, else raise."""
    co = term.coeffs_in(var)
    for p in co:
        if p not in (0, 1):
            raise NotSymbolic(f"not affine in {var}: power {p}")
    a = co.get(1, Term.const(0))
    b = co.get(0, Term.const(0))
    if not a.is_const() or not b.is_const():
        raise NotSymbolic("non-constant coefficients")
    return float(a.const_value()), float(b.const_value())


def close(a, b, rel=1e-9, abs_=1e-12):
    return abs(a - b) <= max(abs_, rel * max(abs(a), abs(b)))
