"""C04 — linear unit conversion. Decided: (R1) the value term of UnitType.convert is
x*m(u)/m(v) on the linear path and (1/(x*m(u)))/m(v) on the reciprocal path, with m read only from
the two unit objects; round trip and path independence then follow for all x,u,v,w as identities of
the normal forms (checked by substitution); (R2) decision table of the rule selection over
{same dimensions, negated dimensions, bare number -> rad, otherwise}; no claiming type => error;
(R3) special unit types precede the standard type and every registered type defines _istype;
(R4) failure atomicity of to(): on no path does a statement that may raise follow a store to self;
(R5) dimension equality compares every component by value (fraction cross-multiplication).
NOT decided: element-wise numpy behaviour, size of rounding errors, Decimal arithmetic. (R6) a conversion does not write to the operand it converts (effect analysis shared with C07.R1)."""
import ast

from ..model import AnalysisError, dotted_name, methods, norm, walk_no_nested
from ..predtable import Handler, Unrecognised, run_block
from ..symexpr import NotSymbolic, SymEval, Term, func
from ..unittables import SETTINGS, UNIT_TYPES_PY, module_const
from . import C03, C08
from . import common as K

LEVEL_TEXT = ("static analysis (ast): symbolic factor form of the conversion with the round-trip / path-independence "
              "identities discharged on rational normal forms (all magnitudes and all unit triples at once), decision "
              "table of the rule selection, store-before-raise path rule for to()")
LEVEL_NOTE = ("trusted: floating-point evaluation realises the rational identities up to rounding; unit factors are "
              "positive numbers (table well-formedness is C03.R8)")
TECHNIQUE = "symbolic normal forms + decision tables + store-before-raise path rule over ast (static analysis)"

UT = UNIT_TYPES_PY
Q = "src/scinumtools/units/quantity.py"


def _convert_value(ctx, linear, rule_term=None):
    """Value term of UnitType.convert for exact input on the float branch."""
    fn = ctx.fn(UT, "UnitType.convert")
    p = fn.args.args[1].arg
    from ..symexec import NONE, execute
    env = {f"{p}.value": Term.sym("x"), "self.baseunits1.magnitude": Term.sym("f1"),
           "self.baseunits2.magnitude": Term.sym("f2"), f"{p}.error": NONE}

    def decide(node, h):
        s = norm(node)
        if s.startswith("hasattr("):
            return True
        if s.startswith("isinstance(") and "Decimal" in s:
            return False
        if isinstance(node, ast.Compare) and len(node.ops) == 1 and isinstance(node.comparators[0], ast.Constant):
            c = node.comparators[0].value
            if c is None:
                v = h.value(node.left)
                return (v is NONE) if isinstance(node.ops[0], ast.Is) else (v is not NONE)
            if norm(node.left) == "self.conversion[0]" and c == "_convert_linear":
                return linear if isinstance(node.ops[0], ast.Eq) else (not linear)
        return None

    def inline(call, ev):
        if norm(call.func) == "getattr(self, self.conversion[0])" and call.args:
            a0 = ev.ev(call.args[0])
            return rule_term(a0)
        return None
    h, sig = execute(fn, decide, env, inline=inline)
    if not h.returned or not isinstance(h.ret, ast.Call) or dotted_name(h.ret.func) != "Magnitude":
        raise Unrecognised("convert does not return Magnitude(value, error)")
    return h.value(h.ret.args[0])


def _rule_body(ctx, name):
    fn = ctx.fn(UT, f"StandardUnitType.{name}")
    b = K.body_nodoc(fn)
    if len(b) != 1 or not isinstance(b[0], ast.Return):
        raise Unrecognised(f"{name} is not a single return")
    p = fn.args.args[1].arg
    return lambda t: SymEval({p: t}).ev(b[0].value)


def r1_factor_form(ctx):
    K.conversion_roles(ctx)          # the converted number and its source units come from the same object (shared)
    from . import C03 as _C03b
    _C03b.r3_exponent_algebra(ctx)   # the unit string is turned into exponents by these operators: `km3/km`, `J/km1:2` (shared with C03.R3)
    _C03b.r6_fraction(ctx)           # ... and the exponents are these fractions (shared with C03.R6)
    _system_units_agree(ctx)
    x, f1, f2, fu, fv, fw = (Term.sym(s) for s in ("x", "f1", "f2", "fu", "fv", "fw"))
    lin = _rule_body(ctx, "_convert_linear")
    inv = _rule_body(ctx, "_convert_inversed")
    ctx.check(lin(x).equals(x), UT, "StandardUnitType._convert_linear", "identity", detail=lin(x).key())
    ctx.check(inv(x).equals(Term.const(1) / x), UT, "StandardUnitType._convert_inversed", "reciprocal", detail=inv(x).key())
    v = _convert_value(ctx, True, lin)
    ctx.check(v.equals(x * f1 / f2), UT, "UnitType.convert", "linear conversion is x*m(u)/m(v)", detail=v.key(), expected=(x * f1 / f2).key())
    atoms = v.atoms()
    ctx.check(atoms <= {"x", "f1", "f2"}, UT, "UnitType.convert", "the factor depends only on the two unit objects", detail=sorted(atoms))

    def conv(t, a, b):
        return v.subst({"x": t, "f1": a, "f2": b})
    rt = conv(conv(x, fu, fv), fv, fu)
    ctx.check(rt.equals(x), UT, "UnitType.convert", "round trip u->v->u is the identity (normal-form identity for all x, m(u), m(v))", detail=rt.key())
    via = conv(conv(x, fu, fw), fw, fv)
    ctx.check(via.equals(conv(x, fu, fv)), UT, "UnitType.convert", "conversion through an intermediate unit equals the direct conversion",
              detail=via.key(), expected=conv(x, fu, fv).key())
    r = _convert_value(ctx, False, inv)
    want = Term.const(1) / (x * f1) / f2
    ctx.check(r.equals(want), UT, "UnitType.convert", "reciprocal conversion is (1/(x*m(u)))/m(v)", detail=r.key(), expected=want.key())
    back = r.subst({"x": r.subst({"x": x, "f1": fu, "f2": fv}), "f1": fv, "f2": fu})
    ctx.check(back.equals(x), UT, "UnitType.convert", "reciprocal conversion is an involution", detail=back.key())


class IsTypeHandler(Handler):
    def __init__(self, eq, neg, rad, nobase=None, nodim=None, torad=None):
        super().__init__()
        self.eq, self.neg, self.rad = eq, neg, rad
        self.nobase = rad if nobase is None else nobase       # a bare number has no units at all ...
        self.nodim = rad if nodim is None else nodim          # ... and therefore no dimensions either; %, ppth, [pi] have units without dimensions
        self.torad = rad if torad is None else torad
        self.conv, self.ret = None, None

    def test(self, node):
        s = norm(node)
        if s in ("self.baseunits1.dimensions == self.baseunits2.dimensions", "self.baseunits2.dimensions == self.baseunits1.dimensions"):
            return self.eq
        if s in ("-self.baseunits1.dimensions == self.baseunits2.dimensions", "self.baseunits1.dimensions == -self.baseunits2.dimensions",
                 "-self.baseunits2.dimensions == self.baseunits1.dimensions"):
            return self.neg
        if s == "self.baseunits1.nobase":
            return self.nobase
        if s == "self.baseunits1.nodim":
            return self.nodim
        if s == "self.baseunits2.units == ['rad']":
            return self.torad
        return None

    def stmt(self, node):
        if isinstance(node, ast.Assign) and norm(node.targets[0]) == "self.conversion":
            v = node.value
            if isinstance(v, ast.Tuple) and len(v.elts) == 1:
                e = v.elts[0]
                if isinstance(e, ast.JoinedStr) and len(e.values) == 1 and isinstance(e.values[0], ast.Constant):
                    self.conv = e.values[0].value
                    return
                if isinstance(e, ast.Constant):
                    self.conv = e.value
                    return
            raise Unrecognised(f"conversion assignment {norm(node)}")
        if isinstance(node, ast.Return):
            self.ret = norm(node.value) if node.value is not None else "None"
            return
        raise Unrecognised(f"statement {norm(node)}")


def r2_rule_selection(ctx):
    fn = ctx.fn(UT, "StandardUnitType._istype")
    cells = [("same dimensions", (True, False, False), ("_convert_linear", "True")),
             ("same (all-zero) dimensions, also negated-equal", (True, True, False), ("_convert_linear", "True")),
             ("negated dimensions", (False, True, False), ("_convert_inversed", "True")),
             ("bare number to rad", (False, False, True), ("_convert_linear", "True")),
             ("different dimensions", (False, False, False), (None, "False"))]
    cells.append(("dimensionless unit (%, ppth, [pi]) to rad", (False, False, None), (None, "False")))
    for name, (eq, neg, rad), want in cells:
        h = IsTypeHandler(eq, neg, rad) if rad is not None else IsTypeHandler(eq, neg, False, nobase=False, nodim=True, torad=True)
        try:
            run_block(fn.body, h)
        except Unrecognised as e:
            ctx.unrecognised(UT, "StandardUnitType._istype", f"cell {name}", str(e))
            continue
        ctx.check((h.conv, h.ret) == want, UT, "StandardUnitType._istype", f"rule for {name}", detail=[h.conv, h.ret], expected=list(want))
    # dispatch: __new__ returns the instance only when _istype() is true
    from ..flowexpr import consistent, paths, truth
    fn = ctx.fn(UT, "UnitType.__new__")
    pa = [a.arg for a in fn.args.args]
    OBJ = "object.__new__#1"
    ps = paths(fn, opaque_calls=True)
    ok = len(pa) == 3
    rows = []
    for claims in (True, False):
        atom = lambda e, _c=claims: _c if norm(e) == f"{OBJ}._istype()" else None   # noqa: E731
        qs, unk = consistent(ps, atom)
        for q in qs:
            r = next((e.resolved for e in q.events if e.kind == "return"), None)
            while isinstance(r, ast.IfExp):
                t = truth(r.test, atom)
                if t is None:
                    break
                r = r.body if t else r.orelse
            stores = {e.extra: norm(e.resolved) for e in q.events if e.kind == "store"}
            rows.append((claims, norm(r) if r is not None else None, stores))
        ok = ok and bool(qs) and not unk
    ok = ok and all((r == OBJ) if c else (r == "None") for c, r, st in rows) and \
        all(st.get(f"{OBJ}.baseunits1") == pa[1] and st.get(f"{OBJ}.baseunits2") == pa[2] for c, r, st in rows)
    ctx.form(ok, UT, "UnitType.__new__", "a type claims a pair iff _istype() holds; the two unit objects are stored in (from, to) order",
             detail=[(c, r) for c, r, st in rows])
    for name in ("_convert", "_add", "_sub"):
        fn = ctx.fn(Q, f"Quantity.{name}")
        fl = K.first_claim_loop(fn)
        ok = fl is not None and fl["iter"] == "UNIT_TYPES" and fl["claimed_all_return"] and fl["falls_through"] and fl["exhausted_raises"]
        ctx.form(ok, Q, f"Quantity.{name}", "first claiming type is used; no claiming type is an error", detail=fl)
        if name == "_convert":
            pa = [a.arg for a in fn.args.args]
            ok = fl is not None and len(pa) == 4 and fl["claim"] == f"T({pa[2]}, {pa[3]})" and fl["returns"] == [f"T({pa[2]}, {pa[3]}).convert({pa[1]})"]
            ctx.form(ok, Q, "Quantity._convert", "the pair is offered in (from, to) order and the claimed rule converts the magnitude", detail=fl)


def r3_type_order(ctx):
    types = module_const(ctx.repo, "UNIT_TYPES")
    names = [t.name for t in types]
    ok = "StandardUnitType" in names and names.index("StandardUnitType") == len(names) - 1
    ctx.check(ok, SETTINGS, "UNIT_TYPES", "the standard (linear) type is tried last", detail=names)
    for t in types:
        has = ctx.repo.method(t.module, t.node, "_istype") is not None
        sub = ctx.repo.is_subclass(t.module, t.node, "UnitType")
        ctx.check(has and sub, t.module.relpath, t.name, "registered type subclasses UnitType and defines _istype")
        if t.name == "StandardUnitType" or not has:
            continue
        # a special type is tried before the linear one, so what it claims is lost to linear conversion: it claims by
        # membership in its own unit table, never by the spelling of a symbol (Bq, Bi and Ba start like B; Cd like C)
        m_, c_, fn_ = ctx.repo.method(t.module, t.node, "_istype")
        what = "a special unit type claims units by membership in its own table, not by the spelling of the symbol"
        spelled = [norm(c) for c in ast.walk(fn_) if isinstance(c, ast.Call) and isinstance(c.func, ast.Attribute)
                   and (c.func.attr in ("startswith", "endswith", "find", "fullmatch")
                        or (c.func.attr in ("match", "search") and norm(c.func.value) == "re"))]
        if spelled:
            ctx.violated(m_.relpath, f"{c_.name}._istype", what, detail=spelled[0][:100], expected="membership in self.process")
        else:
            ctx.holds(m_.relpath, f"{c_.name}._istype", what)


def _store_then_raise(stmts, stored, trail, out):
    """Depth-first over branches: report may-raise statements reached after a store to self.<f>."""
    for st in stmts:
        if isinstance(st, ast.If):
            _risky_expr(st.test, stored, trail, out)
            a = _store_then_raise(st.body, stored, trail + [f"if {norm(st.test)[:40]}"], out)
            b = _store_then_raise(st.orelse, stored, trail + [f"else of {norm(st.test)[:40]}"], out)
            stored = a or b
            continue
        if isinstance(st, (ast.For, ast.While)):
            _risky_expr(st.iter if isinstance(st, ast.For) else st.test, stored, trail, out)
            inner = _store_then_raise(st.body, stored, trail + ["loop"], out)
            if inner and not stored:
                _store_then_raise(st.body, True, trail + ["loop (next iteration)"], out)
            stored = stored or inner
            continue
        if isinstance(st, (ast.With, ast.Try)):
            stored = _store_then_raise(st.body, stored, trail, out) or stored
            continue
        if isinstance(st, ast.Return):
            if st.value is not None:
                _risky_expr(st.value, stored, trail, out)
            return stored
        if isinstance(st, ast.Raise):
            if stored:
                out.append((norm(st)[:80], list(trail)))
            return stored
        # the right-hand side is evaluated before the store of the same statement
        val = getattr(st, "value", None)
        if val is not None:
            _risky_expr(val, stored, trail, out, st)
        tgts = st.targets if isinstance(st, ast.Assign) else ([st.target] if isinstance(st, (ast.AugAssign, ast.AnnAssign)) else [])
        for t in tgts:
            for e in (t.elts if isinstance(t, (ast.Tuple, ast.List)) else [t]):
                if isinstance(e, ast.Attribute) and isinstance(e.value, ast.Name) and e.value.id == "self":
                    stored = True
    return stored


def _risky_expr(expr, stored, trail, out, st=None):
    if not stored:
        return
    for n in ast.walk(expr):
        if isinstance(n, (ast.Call, ast.Subscript)) or (isinstance(n, ast.BinOp) and isinstance(n.op, (ast.Div, ast.FloorDiv, ast.Mod))):
            out.append((norm(st if st is not None else expr)[:80], list(trail)))
            return


def _system_units_agree(ctx):
    """The generated table of system units (`#SMFL`, `#CLEN`, ...) restates factors that the unit table already holds:
    where a quantity's unit in a system is a single table unit (optionally prefixed) - SI 'Wb', CGS 'Mx', 'cm', 'g' - the
    two factors and dimension vectors are the same numbers.  A row edited on one side only converts wrongly through the
    other (`Quantity(1,'#CMFL').to('Mx')` != 1)."""
    from ..literal import Evaluator
    from ..unittables import SETTINGS, unit_prefixes, unit_standard
    cols, rows = unit_standard(ctx.repo)
    pcols, prows = unit_prefixes(ctx.repo)
    mi, di = cols.index("magnitude"), cols.index("dimensions")
    pmi = pcols.index("magnitude")
    smod = ctx.repo.module(SETTINGS)
    ql = smod.assigns.get("QUANTITY_LIST")
    ul = "src/scinumtools/units/unit_list.py"
    umod = ctx.repo.module(ul)
    qu = umod.assigns.get("QUANTITY_UNITS")
    if not (isinstance(ql, ast.Call) and len(ql.args) >= 2) or not isinstance(qu, ast.Dict):
        ctx.form(False, ul, "<table>", "the quantity list and the generated system-unit table are literals")
        return
    qcols = Evaluator(ctx.repo, smod).ev(ql.args[0])
    qrows = Evaluator(ctx.repo, smod).ev(ql.args[1])
    table = Evaluator(ctx.repo, umod).ev(qu)
    n, bad = 0, []
    for row in qrows:
        rec = dict(zip(qcols, row))
        for letter, col in (("S", "SI"), ("A", "AU"), ("C", "CGS")):
            expr = rec.get(col)
            key = f"#{letter}{rec['symbol']}"
            if not isinstance(expr, str) or key not in table:
                continue
            cands = [u for u in rows if expr.endswith(u)]
            if not cands:
                continue
            base = max(cands, key=len)
            pre = expr[:-len(base)]
            if pre and pre not in prows:
                continue          # compound expression: not a single (prefixed) table unit
            if pre and rows[base][cols.index("prefixes")] is False:
                continue
            factor = float(rows[base][mi]) * (float(prows[pre][pmi]) if pre else 1.0)
            dims = list(rows[base][di])
            n += 1
            got_f, got_d = table[key][0], list(table[key][1])
            if abs(got_f - factor) > 1e-9 * max(abs(factor), abs(got_f)) or [float(x) if not isinstance(x, tuple) else x for x in got_d] != [float(x) if not isinstance(x, tuple) else x for x in dims]:
                bad.append(f"{key} = {got_f} {got_d}, but {expr} = {factor} {dims}")
    ctx.floor("system-unit rows that restate a single table unit", n, 30, file=ul)
    ctx.check(not bad, ul, "<table>", "a system-unit row that restates a single table unit has that unit's factor and dimensions", detail=bad[:4] or None)


def _endpoints_share_units(ctx):
    """np.linspace/np.logspace (and any other registered function that combines two quantities into one result in the
    first one's units): the second quantity is read in the first one's units.  Its bare magnitude (`b.value()`) next to
    the first one's units is a unit error that also accepts a different dimension."""
    mod = ctx.repo.module(Q)
    n = 0
    for name, fn in mod.functions.items():
        if not any("implements" in norm(d) for d in fn.decorator_list):
            continue
        ps = [a.arg for a in fn.args.args]
        if len(ps) < 2:
            continue
        a, b = ps[0], ps[1]
        uses_a_units = any(isinstance(x, ast.Attribute) and norm(x) == f"{a}.baseunits" for x in ast.walk(fn))
        calls = [c for c in ast.walk(fn) if isinstance(c, ast.Call) and norm(c.func) == f"{b}.value"]
        if not uses_a_units or not calls:
            continue
        for c in calls:
            # only where b is known to be a quantity and the result is built in a's units
            n += 1
            what = f"np.{name}: the second quantity is read in the first one's units"
            if c.args and norm(c.args[0]) == f"{a}.baseunits":
                ctx.holds(Q, name, what)
            elif not c.args and not c.keywords:
                ctx.violated(Q, name, what, detail=norm(c), expected=f"{b}.value({a}.baseunits)")
            else:
                ctx.form(False, Q, name, what, detail=norm(c))
    ctx.floor("two-quantity NumPy handlers reading the second operand", n, 2, file=Q)


def _to_direction(ctx):
    """to(): per branch (target given as a unit object / as an expression) the stored magnitude is
    _convert(own magnitude, own units, target units) - divided by the unit object's own magnitude when the target is a
    quantity such as Unit().km or 2 m - and the stored units are the target units."""
    from ..flowexpr import paths
    fn = ctx.fn(Q, "Quantity.to")
    pa = [a.arg for a in fn.args.args]
    if len(pa) != 2:
        ctx.unrecognised(Q, "Quantity.to", "signature", f"parameters {pa}")
        return
    u = pa[1]
    seen = 0
    from ..flowexpr import consistent, reduce_ifexp
    ps = paths(fn)
    work = []
    for isq_ in (True, False):
        def atom(e, _q=isq_):
            k = norm(e)
            if k == f"isinstance({u}, Quantity)":
                return _q
            # a flag variable holding the quantity's magnitude is set exactly on the quantity branch; None elsewhere
            if k == f"{u}.magnitude is None":
                return False
            if k == f"{u}.magnitude is not None":
                return True
            return None
        cs, unk = consistent(ps, atom)
        if unk:
            ctx.form(False, Q, "Quantity.to", "tests of to() are decided by the kind of target", detail=sorted(set(unk))[:2])
            return
        for q in cs:
            if q.status != "raise":
                work.append((isq_, q, atom))
    for isq, q, atom in work:
        mags = [reduce_ifexp(e.resolved, atom) for e in q.events if e.kind == "store" and e.extra == "self.magnitude"]
        units = [norm(reduce_ifexp(e.resolved, atom)) for e in q.events if e.kind == "store" and e.extra == "self.baseunits"]
        if len(mags) != 1 or len(units) != 1:
            ctx.form(False, Q, "Quantity.to", "one store of the magnitude and one of the units per branch on the kind of target", detail={"target is a quantity": isq, "units": units})
            continue
        seen += 1
        branch = "target given as a quantity" if isq else "target given as an expression"
        m = mags[0]
        target = f"{u}.baseunits" if isq else f"BaseUnits({u})"
        scale = None
        if isinstance(m, ast.BinOp) and isinstance(m.op, (ast.Div, ast.Mult)) and norm(m.right) == f"{u}.magnitude":
            scale, m = type(m.op).__name__, m.left
        ok_call = isinstance(m, ast.Call) and norm(m.func) == "self._convert" and len(m.args) == 3 and not m.keywords
        if not ok_call:
            ctx.form(False, Q, "Quantity.to", f"{branch}: the magnitude is converted by self._convert(own magnitude, own units, target units)", detail=norm(mags[0]))
            continue
        a = [norm(x) for x in m.args]
        what = f"{branch}: own magnitude converted from own units to the target units"
        if a == ["self.magnitude", target, "self.baseunits"]:
            ctx.violated(Q, "Quantity.to", what, detail=norm(m), expected=f"self._convert(self.magnitude, self.baseunits, {target})")
        else:
            ctx.form(a == ["self.magnitude", "self.baseunits", target], Q, "Quantity.to", what, detail=norm(m))
        what = f"{branch}: the target units are adopted"
        if units[0] == "self.baseunits":
            ctx.violated(Q, "Quantity.to", what, detail=units[0], expected=target)
        else:
            ctx.form(units[0] == target, Q, "Quantity.to", what, detail=units[0])
        if isq:
            what = "a target given as a quantity divides by that quantity's own magnitude (x in units of 2 m is x/2 in m)"
            if scale == "Mult":
                ctx.violated(Q, "Quantity.to", what, detail=norm(mags[0]), expected=f"... / {u}.magnitude")
            else:
                ctx.form(scale == "Div", Q, "Quantity.to", what, detail=norm(mags[0]))
        else:
            ctx.form(scale is None, Q, "Quantity.to", "a target given as an expression applies no further factor", detail=norm(mags[0]))
    ctx.floor("branches of Quantity.to", seen, 2, file=Q)


def r4_atomic_to(ctx):
    for name in ("to",):
        fn = ctx.fn(Q, f"Quantity.{name}")
        out = []
        _store_then_raise(K.body_nodoc(fn), False, [], out)
        ctx.check(not out, Q, f"Quantity.{name}", "no statement that may raise follows a store to self on any path",
                  detail=[{"statement": s, "path": p} for s, p in out[:4]] or None,
                  expected="a refused conversion leaves magnitude and units untouched")
    _to_direction(ctx)
    _endpoints_share_units(ctx)
    fn = ctx.fn(Q, "Quantity.value")
    from ..flowexpr import consistent, paths as _paths, reduce_ifexp
    pa = [a.arg for a in fn.args.args]
    what = "value(unit) converts (own magnitude, own units) -> unit without storing"
    if len(pa) < 2:
        ctx.form(False, Q, "Quantity.value", what, detail=pa)
    else:
        x = pa[1]

        def atom(e):
            return {x: True, f"{x} is not None": True, f"{x} is None": False}.get(norm(e))
        from ..flowexpr import truth as _truth
        cs, unk = [], []
        for q in _paths(fn):       # tests about the unit are fixed, every other test (dtype, array or scalar) is free
            if all(_truth(t.resolved, atom) in (None, t.extra) for t in q.tests()):
                cs.append(q)
        # what the returned value is computed from, with the unit given: every returned expression mentions exactly this conversion
        want = f"self._convert(self.magnitude, self.baseunits, BaseUnits({x})).value"
        rets = [norm(reduce_ifexp(e.resolved, atom)) for q in cs for e in q.events if e.kind == "return" and e.resolved is not None]
        swapped = f"self._convert(self.magnitude, BaseUnits({x}), self.baseunits)"
        stores = sorted({str(e.extra) for q in cs for e in q.events if e.kind == "store" and str(e.extra).startswith("self.")})
        # `if unit:` stands for `if unit is not None:` only while every object accepted as a unit is truthy
        bare = any(isinstance(t.resolved, ast.Name) and t.resolved.id == x or
                   (isinstance(t.resolved, ast.UnaryOp) and isinstance(t.resolved.op, ast.Not) and isinstance(t.resolved.operand, ast.Name) and t.resolved.operand.id == x)
                   for q in _paths(fn) for t in q.tests())
        if bare:
            for rel_, cname_ in (("src/scinumtools/units/base_units.py", "BaseUnits"), ("src/scinumtools/units/dimensions.py", "Dimensions"), (Q, "Quantity")):
                ms_ = methods(ctx.repo.cls(rel_, cname_))
                falsy = [d_ for d_ in ("__bool__", "__len__") if d_ in ms_]
                if falsy:
                    ctx.violated(rel_, f"{cname_}.{falsy[0]}", "an object accepted as the target unit of value() is always truthy (value() tests `if unit:`)",
                                 detail=f"{cname_} defines {falsy}: a unit-less {cname_} is falsy, so value(<it>) returns the raw magnitude without conversion or dimension check",
                                 expected=f"no {falsy[0]} on {cname_}, or `if {x} is not None` in Quantity.value")
                else:
                    ctx.holds(rel_, cname_, "an object accepted as the target unit of value() is always truthy (value() tests `if unit:`)")
        if stores:
            ctx.violated(Q, "Quantity.value", what, detail={"stores to self": stores}, expected="no store: value() is a query")
        elif any(swapped in r for r in rets):
            ctx.violated(Q, "Quantity.value", what, detail=[r for r in rets if swapped in r][:1], expected=want)
        else:
            ctx.form(bool(rets) and all(want in r for r in rets), Q, "Quantity.value", what, detail=rets[:2] or sorted(set(unk))[:2])


def r5_dimension_equality(ctx):
    C03.r9_dimensions(ctx)
    # fraction equality by value
    fn = ctx.fn(C03.FR, "Fraction.__eq__")
    b = K.body_nodoc(fn)
    sn, sd, on, od = (Term.sym(x) for x in ("sn", "sd", "on", "od"))
    ok, det = False, None
    if len(b) == 1 and isinstance(b[0], ast.Return) and isinstance(b[0].value, ast.Call) and len(b[0].value.args) == 2:
        ev = SymEval({"self.num": sn, "self.den": sd, "other.num": on, "other.den": od})
        a, c = ev.ev(b[0].value.args[0]), ev.ev(b[0].value.args[1])
        det = [a.key(), c.key()]
        ok = (a.equals(sn * od) and c.equals(on * sd)) or (a.equals(on * sd) and c.equals(sn * od))
    ctx.check(ok, C03.FR, "Fraction.__eq__", "exponents are compared by value (6/2 equals 3)", detail=det)


def r6_readonly_conversion(ctx):
    from . import C09 as _C09
    _C09.r6_no_derived_state(ctx)   # the factor of a unit is read from the tables at conversion time, never from a memo
    """x*f(u)/f(v) for *every* read of a quantity in another unit only if a conversion does not write to the magnitude
    it converts (array magnitudes are shared objects): effect analysis shared with C07.R1."""
    from . import C07 as _C07
    _C07.r1_no_operand_mutation(ctx)
    # `q *= r` has to be `q = q * r` (cancelled units folded by Quantity.__init__), `exp += e` a new Fraction: an
    # in-place operator on a value class bypasses that and writes into exponents other quantities share (C07.R4)
    _C07.r4_value_objects(ctx)


RULES = [
    ("C04.R1", "factor form x*m(u)/m(v) (linear) and (1/(x*m(u)))/m(v) (reciprocal); round trip, path independence and involution as normal-form identities", r1_factor_form),
    ("C04.R2", "rule selection table: same dims -> linear, negated dims -> reciprocal, bare number to rad -> linear, else refuse; first claiming type, none => error", r2_rule_selection),
    ("C04.R3", "the standard type is tried last; every registered type subclasses UnitType and defines _istype", r3_type_order),
    ("C04.R4", "to(): no may-raise statement after a store to self on any path (failure atomicity); conversion direction and adoption of units", r4_atomic_to),
    ("C04.R6", "a conversion (value(), arithmetic with mixed units, comparison) leaves the converted operand unchanged, so repeated conversions agree (effect analysis shared with C07.R1)", r6_readonly_conversion),
    ("C04.R5", "dimension vectors are compared component-wise by value (fraction cross-multiplication)", r5_dimension_equality),
]
