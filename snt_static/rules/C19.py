"""C19 — exported configuration files. Decided (the "read back by the foreign compiler" half is
dynamic by nature and not claimed): (R1) type ladders: for every back-end the decision table of the
type mapping over the domain the DIP type parser can produce (bool, str, (u)int 16/32/64/default,
float 32/64/128/default) binds a type on every cell and the bound type agrees in kind, width and
signedness with the target language's type table; the DIP-text back-end re-emits the keyword the
reader parses; (R2) array layout: traversal is outermost index first with shape [len]+inner,
C/C++/Rust nest in traversal order, the Rust type is built from the reversed shape, Fortran
compensates its column-major order; (R3) quoting: a string value reaches a quoted literal only
through an escaping function of that back-end; (R4) boolean literal tables; (R5) every emission
site renames the parameter exactly once, selection replaces the exported set and parse iterates
nothing else, the data formats are identical up to the dumper; (R6) no per-parameter state leaks
from one loop iteration into the next. NOT decided: acceptance by the foreign tool chains. Also: recursive array walkers do not change their parameters in place; type cells are evaluated by concrete partial evaluation of the mapping code (table-driven or ladder-shaped)."""
import ast
import re
import itertools

from ..literal import Evaluator
from ..model import AnalysisError, dotted_name, methods, norm, walk_no_nested
from ..predtable import Handler, Unrecognised, run_block
from . import common as K

LEVEL_TEXT = ("static analysis (ast): exhaustive decision tables of the per-back-end type ladders over the whole DIP type "
              "domain against the target languages' type tables, traversal/shape rules of the array renderers, taint rule "
              "for string quoting, literal tables, rename-once and selection rules, loop-carried-state lint")
LEVEL_NOTE = "trusted: oracle A8 (type names of C/C++/Rust/Fortran); json/yaml/toml dumpers escape; foreign tool chains are not run"
TECHNIQUE = "exhaustive ast decision tables against language type tables + taint / traversal rules (static analysis)"

CF = "src/scinumtools/dip/config/"
DT = "src/scinumtools/dip/datatypes/"
# oracle A8: target type -> (kind, bits, signed)
TYPES = {
    "c": {"char*": ("str", None, None), "bool": ("bool", None, None), "signed char": ("int", 8, True), "short int": ("int", 16, True), "int": ("int", 32, True),
          "long long int": ("int", 64, True), "unsigned short int": ("int", 16, False), "unsigned int": ("int", 32, False),
          "unsigned long long int": ("int", 64, False), "float": ("float", 32, None), "double": ("float", 64, None), "long double": ("float", 128, None)},
    "rust": {"&str": ("str", None, None), "bool": ("bool", None, None), "i8": ("int", 8, True), "i16": ("int", 16, True), "i32": ("int", 32, True),
             "i64": ("int", 64, True), "u8": ("int", 8, False), "u16": ("int", 16, False), "u32": ("int", 32, False), "u64": ("int", 64, False),
             "f32": ("float", 32, None), "f64": ("float", 64, None), "f128": ("float", 128, None)},
    "fortran": {"logical": ("bool", None, None), "integer(kind=2)": ("int", 16, True), "integer": ("int", 32, True), "integer(kind=8)": ("int", 64, True),
                "real": ("float", 32, None), "real(kind=8)": ("float", 64, None), "real(kind=16)": ("float", 128, None)},
}
TYPES["cpp"] = TYPES["c"]
BACKENDS = [("c", "export_c.py", "ExportConfigC"), ("cpp", "export_cpp.py", "ExportConfigCPP"), ("rust", "export_rust.py", "ExportConfigRust"),
            ("fortran", "export_fortran.py", "ExportConfigFortran")]


class LadderHandler(Handler):
    def __init__(self, kind, unsigned, precision, on_super=None):
        super().__init__()
        self.kind, self.unsigned, self.precision = kind, unsigned, precision
        self.dtype = None
        self.on_super = on_super          # callback(method name) -> dtype of the inherited mapping for this cell

    def test(self, node):
        s = norm(node)
        m = {"isinstance(param, StringType)": self.kind == "str", "isinstance(param, BooleanType)": self.kind == "bool",
             "isinstance(param, IntegerType)": self.kind == "int", "isinstance(param, FloatType)": self.kind == "float",
             "param.unsigned": self.unsigned, "not param.unsigned": not self.unsigned}
        if s in m:
            return m[s]
        if isinstance(node, ast.Compare) and len(node.ops) == 1 and norm(node.left) == "param.precision":
            c = node.comparators[0]
            if isinstance(c, ast.Constant) and isinstance(node.ops[0], ast.Eq):
                return self.precision == c.value
            if isinstance(c, ast.Constant) and isinstance(node.ops[0], ast.NotEq):
                return self.precision != c.value
            if isinstance(c, (ast.List, ast.Tuple)) and isinstance(node.ops[0], ast.In) and all(isinstance(e, ast.Constant) for e in c.elts):
                return self.precision in [e.value for e in c.elts]
            if isinstance(node.ops[0], (ast.Eq, ast.NotEq)) and norm(c) in ("IntegerType.precision", "FloatType.precision"):
                dflt = {"IntegerType.precision": 32, "FloatType.precision": 64}[norm(c)]
                return (self.precision == dflt) if isinstance(node.ops[0], ast.Eq) else (self.precision != dflt)
        return None

    def stmt(self, node):
        if isinstance(node, ast.Assign) and norm(node.targets[0]) == "dtype":
            v = node.value
            if isinstance(v, ast.Constant):
                self.dtype = v.value
            elif isinstance(v, ast.JoinedStr):
                self.dtype = "character"
            elif isinstance(v, ast.Attribute) and v.attr == "keyword":
                self.dtype = {"StringNode": "str", "BooleanNode": "bool", "IntegerNode": "int", "FloatNode": "float"}.get(norm(v.value), norm(v))
            elif isinstance(v, ast.BinOp) and isinstance(v.op, ast.Add) and isinstance(v.left, ast.Constant) and norm(v.right) == "dtype":
                self.dtype = v.left.value + (self.dtype or "")
            else:
                raise Unrecognised(norm(node))
        elif isinstance(node, ast.AugAssign) and norm(node.target) == "dtype" and norm(node.value) == "str(param.precision)":
            self.dtype = (self.dtype or "") + str(self.precision)
        elif isinstance(node, ast.Return):
            v = node.value
            if v is None or norm(v) == "dtype":
                pass
            elif isinstance(v, ast.Constant) and isinstance(v.value, str):
                self.dtype = v.value
            elif isinstance(v, ast.Call) and isinstance(v.func, ast.Attribute) and norm(v.func.value) == "super()" and self.on_super is not None \
                    and [norm(a) for a in v.args] == ["param"]:
                self.dtype = self.on_super(v.func.attr)
            else:
                raise Unrecognised(norm(node))
        elif isinstance(node, ast.Expr) and "self.include(" in norm(node):
            pass
        elif isinstance(node, ast.Assign) and norm(node.targets[0]) in ("value",):
            pass
        else:
            raise Unrecognised(norm(node))


def _domain(ctx):
    ip = Evaluator(ctx.repo, ctx.repo.module(DT + "type_integer.py")).ev(ctx.repo.class_attr(ctx.repo.module(DT + "type_integer.py"), ctx.repo.cls(DT + "type_integer.py", "IntegerType"), "precision")[1])
    fp = Evaluator(ctx.repo, ctx.repo.module(DT + "type_float.py")).ev(ctx.repo.class_attr(ctx.repo.module(DT + "type_float.py"), ctx.repo.cls(DT + "type_float.py", "FloatType"), "precision")[1])
    if (ip, fp) != (32, 64):
        raise AnalysisError(f"default widths changed: int {ip}, float {fp}")
    cells = [("str", False, None), ("bool", False, None)]
    cells += [("int", u, p) for u in (False, True) for p in (16, 32, 64)]
    cells += [("float", False, p) for p in (32, 64, 128)]
    return cells


def _dtype_of(ctx, chain, depth, mname, kind, uns, prec):
    """Concrete partial evaluation of one type cell: the parameter's precision/unsigned flags are bound to the cell's
    constants, the isinstance tests are decided by the cell's kind, literal tables / conditional expressions / string
    concatenations fold away.  -> the emitted type string, None (no type bound), or raises Unrecognised."""
    from ..flowexpr import consistent, explore
    defs = [(m, c, methods(c)[mname]) for m, c in chain if mname in methods(c)]
    if depth >= len(defs):
        raise Unrecognised(f"super().{mname} has no further definition")
    m_, c_, fn = defs[depth]
    ctx.functions_analysed.add(f"{m_.relpath}::{c_.name}.{mname}")
    par = fn.args.args[1].arg if len(fn.args.args) > 1 else "param"
    env = {f"{par}.unsigned": ast.Constant(value=bool(uns))}
    dflt = {"int": 32, "float": 64}.get(kind)
    if prec is not None or dflt is not None:
        env[f"{par}.precision"] = ast.Constant(value=prec if prec is not None else dflt)
    env["IntegerType.precision"] = ast.Constant(value=32)
    env["FloatType.precision"] = ast.Constant(value=64)
    KIND = {"str": "StringType", "bool": "BooleanType", "int": "IntegerType", "float": "FloatType"}

    def atom(e):
        if isinstance(e, ast.Call) and dotted_name(e.func) == "isinstance" and len(e.args) == 2 and norm(e.args[0]) == par:
            t = e.args[1]
            names = [norm(x) for x in (t.elts if isinstance(t, (ast.Tuple, ast.List)) else [t])]
            if "NumberType" in names and kind in ("int", "float"):
                return True
            return KIND[kind] in names
        return None
    ex = explore(fn, env=env)
    cs, unk = consistent(ex.paths, atom)
    if unk:
        raise Unrecognised(f"condition not interpretable: {sorted(set(unk))[0][:100]}")
    outs = set()
    for q in cs:
        if q.status == "raise":
            outs.add(("raise", None))
            continue
        r = next((e.resolved for e in q.events if e.kind == "return"), None)
        if r is None:
            outs.add(("none", None))
        elif isinstance(r, ast.Constant) and isinstance(r.value, str):
            outs.add(("type", r.value))
        elif isinstance(r, ast.JoinedStr) and kind == "str":
            outs.add(("type", "character"))
        elif isinstance(r, ast.Name) and r.id not in q.env:
            outs.add(("unbound", None))
        elif isinstance(r, ast.Call) and isinstance(r.func, ast.Attribute) and norm(r.func.value) == "super()" and [norm(a) for a in r.args][:1] == [par]:
            outs.add(("type", _dtype_of(ctx, chain, depth + 1, r.func.attr, kind, uns, prec)))
        else:
            raise Unrecognised(f"emitted type not a literal: {norm(r)[:100]}")
    if len(outs) != 1:
        raise Unrecognised(f"{len(outs)} different outcomes for the cell: {sorted(map(str, outs))[:3]}")
    k, v = outs.pop()
    if k == "type":
        return v
    if k == "raise":
        return "<refused>"
    return None


def r1_type_ladders(ctx):
    from . import C13 as _C13
    _C13.r6_scalar_literals(ctx)    # the typed value carries width and sign on every branch of every setter, also after a modification (shared with C13.R6)
    cells = _domain(ctx)
    n = 0
    for lang, f, cname in BACKENDS:
        mod = ctx.repo.module(CF + f)
        chain = [(m, c) for m, c in ctx.repo.mro(mod, ctx.repo.cls(CF + f, cname))]
        for kind, uns, prec in cells:
            cell = f"{lang}: {'u' if uns else ''}{kind}{prec or ''}"
            try:
                dtype = _dtype_of(ctx, chain, 0, "_parse_dtype", kind, uns, prec)
            except (Unrecognised, AnalysisError) as e:
                ctx.unrecognised(CF + f, f"{cname}._parse_dtype", cell, str(e))
                continue
            n += 1
            if dtype is None:
                ctx.violated(CF + f, f"{cname}._parse_dtype", f"type cell {cell}", detail="no type is bound on this path (UnboundLocalError at export time)",
                             expected="a mapping or an explicit refusal")
                continue
            if dtype == "<refused>":
                ctx.holds(CF + f, f"{cname}._parse_dtype", f"type cell {cell}", detail="explicit refusal")
                continue
            t = TYPES[lang].get(dtype)
            if dtype == "character" and kind == "str":
                ctx.holds(CF + f, f"{cname}._parse_dtype", f"type cell {cell}", detail="character(len=n)")
                continue
            if t is None:
                ctx.unrecognised(CF + f, f"{cname}._parse_dtype", f"type cell {cell}", f"target type {dtype!r} not in the language table")
                continue
            ok = t[0] == kind and (prec is None or t[1] == prec) and (kind != "int" or t[2] == (not uns))
            ctx.check(ok, CF + f, f"{cname}._parse_dtype", f"type cell {cell}", detail={"emitted": dtype, "means": list(t)},
                      expected={"kind": kind, "bits": prec, "signed": (not uns) if kind == "int" else None})
    ctx.floor("type cells", n, 40)
    # DIP text back-end: keyword reconstruction, by the same partial evaluation of one iteration of the parameter loop
    from ..flowexpr import consistent, explore
    fn = ctx.fn(CF + "export.py", "ExportConfig.parse")
    loops0 = [l for l in fn.body if isinstance(l, ast.For)]
    if len(loops0) != 1 or not isinstance(loops0[0].target, ast.Tuple) or len(loops0[0].target.elts) != 2:
        ctx.unrecognised(CF + "export.py", "ExportConfig.parse", "loop", "parameter loop not found")
        return
    par0 = loops0[0].target.elts[1].id
    KW = {"StringNode.keyword": "str", "BooleanNode.keyword": "bool", "IntegerNode.keyword": "int", "FloatNode.keyword": "float"}
    KIND = {"str": "StringType", "bool": "BooleanType", "int": "IntegerType", "float": "FloatType"}
    for kind, uns, prec in cells:
        cell = f"dip: {'u' if uns else ''}{kind}{prec or ''}"
        dflt = {"int": 32, "float": 64}.get(kind)
        want = ("u" if uns else "") + kind + (str(prec) if prec and prec != dflt else "")
        env = {k: ast.Constant(value=v) for k, v in KW.items()}
        env["IntegerType.precision"] = ast.Constant(value=32)
        env["FloatType.precision"] = ast.Constant(value=64)
        try:
            ex = explore(fn, env=env)
        except AnalysisError as e:
            ctx.unrecognised(CF + "export.py", "ExportConfig.parse", cell, str(e))
            continue
        its = [t for lst in ex.iterations_all.values() for t in lst if t[0] is loops0[0]]
        if not its:
            ctx.unrecognised(CF + "export.py", "ExportConfig.parse", cell, "iteration of the parameter loop not explored")
            continue
        lp_, start, ips = its[0]
        P = f"{par0}@loop1"

        def atom(e, _k=kind, _u=uns, _p=prec if prec is not None else dflt):
            k = norm(e)
            if isinstance(e, ast.Call) and dotted_name(e.func) == "isinstance" and len(e.args) == 2 and norm(e.args[0]) == P:
                t = e.args[1]
                return KIND[_k] in [norm(x) for x in (t.elts if isinstance(t, (ast.Tuple, ast.List)) else [t])]
            if k == f"{P}.unsigned":
                return bool(_u)
            if isinstance(e, ast.Compare) and len(e.ops) == 1 and norm(e.left) == f"{P}.precision" and isinstance(e.comparators[0], ast.Constant):
                c = e.comparators[0].value
                return {ast.Eq: _p == c, ast.NotEq: _p != c}.get(type(e.ops[0]))
            if k in (f"{P}.unit", f"{P}.value", "value"):
                return True
            return None
        cs, unk = consistent(ips, atom, start)
        if unk and not cs:
            ctx.unrecognised(CF + "export.py", "ExportConfig.parse", cell, f"condition not interpretable: {sorted(set(unk))[0][:100]}")
            continue
        got = set()
        for q in cs:
            d = q.env.get("dtype")
            txt = None
            if d is not None:
                from ..flowexpr import reduce_ifexp, simplify
                from ..normalise import clone as _clone
                pv = prec if prec is not None else dflt

                class Bind(ast.NodeTransformer):
                    def visit_Attribute(self, n_):
                        if norm(n_) == f"{P}.precision":
                            return ast.Constant(value=pv)
                        if norm(n_) == f"{P}.unsigned":
                            return ast.Constant(value=bool(uns))
                        return self.generic_visit(n_)
                d2 = simplify(reduce_ifexp(simplify(Bind().visit(_clone(d))), atom))
                txt = d2.value if isinstance(d2, ast.Constant) else norm(d2)
            got.add(txt)
        if len(got) != 1:
            ctx.unrecognised(CF + "export.py", "ExportConfig.parse", cell, f"keyword not a single literal: {sorted(map(str, got))[:2]}")
            continue
        g = got.pop()
        if not isinstance(g, str) or not g.replace("u", "").replace("int", "").replace("float", "").replace("str", "").replace("bool", "").isdigit() and g not in ("str", "bool", "int", "float", "uint"):
            if not isinstance(g, str) or any(ch in g for ch in "()[]@ "):
                ctx.unrecognised(CF + "export.py", "ExportConfig.parse", cell, f"keyword expression {g!r}")
                continue
        ctx.check(g == want, CF + "export.py", "ExportConfig.parse", f"type keyword cell {cell}", detail=g, expected=want)
        if kind == "int":
            # the literal of an integer node: a value re-assigned in another unit is held as a float (3.0) by the typed
            # value, and `3.0` is not an integer literal the DIP reader accepts - the emitted text goes through int()
            vals = {norm(q.env["value"]) if q.env.get("value") is not None else None for q in cs}
            whatv = f"literal cell {cell}: an integer node is written as an integer literal"
            if len(vals) != 1 or None in vals:
                ctx.unrecognised(CF + "export.py", "ExportConfig.parse", whatv, f"emitted value not a single expression: {sorted(map(str, vals))[:2]}")
            else:
                v = vals.pop()
                if v.startswith("int(") and v.endswith(")"):
                    ctx.holds(CF + "export.py", "ExportConfig.parse", whatv, detail=v)
                elif v == f"{P}.value":
                    ctx.violated(CF + "export.py", "ExportConfig.parse", whatv, detail=f"value = {v} (the typed value as stored)", expected=f"int({P}.value)")
                else:
                    ctx.unrecognised(CF + "export.py", "ExportConfig.parse", whatv, f"emitted value {v[:80]}")


def r2_array_layout(ctx):
    _no_param_mutation(ctx)
    for lang, f, cname in BACKENDS + [("bash", "export_bash.py", "ExportConfigBash")]:
        if lang == "cpp":
            c = ctx.repo.cls(CF + f, cname)
            if "_parse_array" not in methods(c):
                ctx.holds(CF + f, cname, "array rendering inherited from the C back-end", trivial=True)
                continue
        fn = ctx.fn(CF + f, f"{cname}._parse_array")
        _walker_shape(ctx, CF + f, f"{cname}._parse_array", fn)
        app = [norm(c) for c in ast.walk(fn) if isinstance(c, ast.Call) and norm(c.func) == "strings.append"]
        ctx.form(app == ["strings.append(string)"], CF + f, f"{cname}._parse_array", "every element contributes one rendered piece, appended in order")
    # Rust nested type from the reversed shape
    fn = ctx.fn(CF + "export_rust.py", "ExportConfigRust.parse")
    src = norm(fn).replace("\n", " ")
    rev = "size.reverse()" in src
    loop = [l for l in ast.walk(fn) if isinstance(l, ast.For) and any(norm(x) == "dtype = f'[{dtype}; {dim}]'" for x in l.body)]
    if not loop:
        ctx.unrecognised(CF + "export_rust.py", "ExportConfigRust.parse", "nested array type", "type-building loop not found")
    else:
        it = norm(loop[0].iter)
        ok = (rev and it == "size") or (not rev and it in ("reversed(size)", "size[::-1]"))
        ctx.form(ok, CF + "export_rust.py", "ExportConfigRust.parse", "the nested array type is built innermost extent first", detail={"reverse": rev, "loop": it},
                  expected="[[T; inner]; outer]")
    # Fortran: column-major compensation
    fn = ctx.fn(CF + "export_fortran.py", "ExportConfigFortran.parse")
    resh = [j for j in ast.walk(fn) if isinstance(j, ast.JoinedStr) and "reshape(" in norm(j)]
    if not resh:
        ctx.unrecognised(CF + "export_fortran.py", "ExportConfigFortran.parse", "multi-dimensional arrays", "no reshape(...) emission found")
    else:
        s = norm(resh[0])
        has_order = "order=[" in s
        order_def = [a for a in ast.walk(fn) if isinstance(a, ast.Assign) and norm(a.targets[0]) == "order"]
        desc = bool(order_def) and "range(len(shape), 0, -1)" in norm(order_def[0].value)
        reversed_dims = any("reversed(shape)" in norm(a.value) or "shape[::-1]" in norm(a.value) for a in ast.walk(fn) if isinstance(a, ast.Assign) and norm(a.targets[0]) == "dims")
        ctx.check((has_order and desc) or reversed_dims, CF + "export_fortran.py", "ExportConfigFortran.parse",
                  "reshape of the row-major value list compensates Fortran's column-major fill", detail={"order_argument": has_order, "descending": desc, "reversed_dims": reversed_dims},
                  expected="reshape([...],[dims],order=[n,...,1])")


def _walker_shape(ctx, rel, qual, fn):
    """The recursive array walker as a two-cell table.  Per element: a nested sequence hands its shape up from the
    recursive call, a scalar leaves the shape None.  After the loop: shape None (row of scalars) -> [len(values)];
    otherwise [len(values)] + inner shape (outermost extent first).  Read from the resolved iteration and function paths."""
    from ..flowexpr import explore
    vals = fn.args.args[-2].arg if qual.startswith("ExportConfigBash") and len(fn.args.args) >= 3 else None
    ex = explore(fn)
    cand = [(lp, start, its) for lp, start, its in ex.iterations.values() if isinstance(lp, ast.For)]
    its_ok = None
    for lp, start, its in cand:
        it = norm(lp.iter)
        m = re.fullmatch(r"(?:enumerate\()?(\w+)\)?", it)
        if m and m.group(1) in {a.arg for a in fn.args.args}:
            vals, its_ok = m.group(1), its
            break
        m = re.fullmatch(r"(?:enumerate\()?(?:reversed\((\w+)\)|(\w+)\[::-1\])\)?", it)
        if m and (m.group(1) or m.group(2)) in {a.arg for a in fn.args.args}:
            ctx.violated(rel, qual, "elements are rendered in index order", detail=it, expected="for value in values")
            return
    if its_ok is None:
        ctx.form(False, rel, qual, "the element loop over the values parameter is found", detail=[norm(lp.iter) for lp, _, _ in cand])
        return
    ctx.holds(rel, qual, "elements are rendered in index order")
    # iteration cells
    sname, cells = None, {}
    for q in its_ok:
        nested = None
        for t in q.tests():
            r = t.resolved
            if isinstance(r, ast.Call) and dotted_name(r.func) == "isinstance" and len(r.args) == 2 and any(x in norm(r.args[1]) for x in ("list", "ndarray", "tuple")):
                nested = t.extra
        if nested is None:
            continue
        for k, v in q.env.items():
            if isinstance(v, ast.Subscript) and isinstance(v.value, ast.Call) and norm(v.value.func) == f"self.{fn.name}" and norm(v.slice) == "1":
                sname = k
        cells[nested] = q
    if sname is None or set(cells) != {True, False}:
        ctx.form(False, rel, qual, "per element: nested sequences recurse and hand their shape up, scalars do not", detail={"cells": sorted(map(str, cells)), "shape variable": sname})
        return
    leaf = cells[False].env.get(sname)
    ctx.form(leaf is not None and norm(leaf) == "None", rel, qual, "a row of scalars leaves the inner shape None", detail=norm(leaf) if leaf is not None else None)
    # after the loop
    tok = re.compile(re.escape(sname) + r"@loop\d+'?")
    outer = f"[len({vals})]"
    seen = 0
    for q in ex.paths:
        if q.status != "return":
            continue
        none_holds = None
        for t in q.tests():
            k = norm(t.resolved)
            m = re.fullmatch(r"(" + tok.pattern + r") is (not )?None", k)
            if m:
                none_holds = t.extra if not m.group(2) else (not t.extra)
        ret = next((e.resolved for e in q.events if e.kind == "return"), None)
        if none_holds is None or not isinstance(ret, ast.Tuple) or len(ret.elts) != 2:
            continue
        seen += 1
        got = tok.sub("INNER", norm(ret.elts[1]))
        if none_holds:
            what = "a row of scalars has the shape [number of elements]"
            if "INNER" in got:
                ctx.violated(rel, qual, what, detail=got.replace("INNER", "None"), expected=outer)
            else:
                ctx.form(got == outer, rel, qual, what, detail=got)
        else:
            what = "a nested level has the shape [number of elements] + inner shape (outermost extent first)"
            if got == outer:
                ctx.violated(rel, qual, what, detail=f"{got}: the inner extents are dropped", expected=f"{outer} + inner")
            elif got == f"INNER + {outer}":
                ctx.violated(rel, qual, what, detail=got.replace("INNER", "inner"), expected=f"{outer} + inner")
            else:
                ctx.form(got == f"{outer} + INNER", rel, qual, what, detail=got)
    ctx.form(seen >= 2, rel, qual, "both outcomes of the shape test after the loop are found", detail=seen)


def _no_param_mutation(ctx):
    """Recursive array walkers receive the index prefix / shape accumulated so far from their caller: a walker that
    changes such a parameter in place changes it for its caller and for every later sibling call as well."""
    n = 0
    for rel in ctx.repo.all_py("src/scinumtools/dip/config"):
        mod = ctx.repo.module(rel)
        for cname, c in mod.classes.items():
            for mname, fn in methods(c).items():
                rec = [x for x in ast.walk(fn) if isinstance(x, ast.Call) and isinstance(x.func, ast.Attribute) and x.func.attr == mname and norm(x.func.value) == "self"]
                if not rec:
                    continue
                n += 1
                params = {a.arg for a in fn.args.args[1:]}
                rebound = set()
                bad = []
                for x in ast.walk(fn):
                    if isinstance(x, ast.Call) and isinstance(x.func, ast.Attribute) and isinstance(x.func.value, ast.Name) and x.func.value.id in params \
                            and x.func.attr in ("append", "extend", "insert", "pop", "remove", "sort", "reverse", "clear", "update", "setdefault", "popitem"):
                        bad.append(norm(x))
                    if isinstance(x, (ast.Subscript, ast.Attribute)) and isinstance(x.ctx, (ast.Store, ast.Del)) and isinstance(x.value, ast.Name) and x.value.id in params:
                        bad.append(norm(x) + " = ...")
                    if isinstance(x, ast.AugAssign) and isinstance(x.target, ast.Name) and x.target.id in params and isinstance(x.value, (ast.List, ast.ListComp)):
                        bad.append(norm(x))
                ctx.check(not bad, rel, f"{cname}.{mname}", "the recursive walker does not change its parameters in place (index prefix, values and shape belong to the caller)",
                          detail=bad or None, expected="pass a new list to the recursive call (coord + [v])")
    ctx.floor("recursive array walkers", n, 4)


def r3_quoting(ctx):
    sites = [("c", "export_c.py", "ExportConfigC._parse_scalar"), ("c", "export_c.py", "ExportConfigC.parse_define"),
             ("rust", "export_rust.py", "ExportConfigRust._parse_scalar"), ("fortran", "export_fortran.py", "ExportConfigFortran._parse_scalar"),
             ("bash", "export_bash.py", "ExportConfigBash._parse_scalar")]
    n = 0
    for lang, f, q in sites:
        fn = ctx.fn(CF + f, q)
        quoted = []
        # quoting sites are looked for in the *resolved* expressions of every path, so that a temporary holding the
        # escaped text (`escaped = self._escape(v); return '"' + escaped + '"'`) is seen through
        from ..flowexpr import paths as _paths
        seen_txt = set()
        cands = []
        for q_ in _paths(fn):
            for e in q_.events:
                if e.resolved is None:
                    continue
                for v in ast.walk(e.resolved):
                    if isinstance(v, (ast.JoinedStr, ast.BinOp)) and norm(v) not in seen_txt:
                        seen_txt.add(norm(v))
                        cands.append(v)
        for v in cands:
            if not isinstance(v, (ast.JoinedStr, ast.BinOp)):
                continue
            s = norm(v)
            if isinstance(v, ast.JoinedStr) and s.startswith("f'\"{") and s.endswith("}\"'"):
                inner = v.values[1].value if len(v.values) == 3 and isinstance(v.values[1], ast.FormattedValue) else None
                quoted.append((v, inner))
            elif isinstance(v, ast.BinOp) and s.startswith("'\"' + ") and s.endswith(" + '\"'") and isinstance(v.left, ast.BinOp):
                quoted.append((v, v.left.right))
        if not quoted:
            ctx.unrecognised(CF + f, q, "string literal", "quoting site not found")
            continue
        for a, inner in quoted:
            n += 1
            s = norm(inner) if inner is not None else ""
            escaped = isinstance(inner, ast.Call) and not (dotted_name(inner.func) == "str") and ("escape" in s.lower() or ".replace('\"'" in s or "json.dumps" in s)
            ctx.check(escaped, CF + f, q, f"a string value reaches the quoted {lang} literal only through an escaping function", detail=norm(a),
                      expected="a value containing a double quote or backslash must be escaped for the target language")
    ctx.floor("quoting sites", n, 5)
    # DIP text: the reader takes everything between the first and the last quote (greedy), so embedded quotes survive
    pv = ctx.fn("src/scinumtools/dip/nodes/parser.py", "Parser.part_value")
    pats = [norm(c.args[0]) for c in ast.walk(pv) if isinstance(c, ast.Call) and dotted_name(c.func) == "re.match"]
    ctx.check(any('"(.*)"' in p_ for p_ in pats), "src/scinumtools/dip/nodes/parser.py", "Parser.part_value",
              "DIP text: a quoted value is read greedily up to the last quote (embedded quotes need no escaping)", detail=pats)
    # the escaping helper itself
    es = ctx.fn(CF + "export.py", "ExportConfig._escape")
    src = norm(es)
    first = [norm(a.value) for a in ast.walk(es) if isinstance(a, ast.Assign)]
    ctx.check(bool(first) and ".replace('\\\\', '\\\\\\\\')" in first[0], CF + "export.py", "ExportConfig._escape", "backslashes are escaped first (otherwise the escapes themselves would be doubled)",
              detail=first[:1])
    ctx.form("for char in chars: value = value.replace(char, '\\\\' + char)" in src.replace("\n", " "), CF + "export.py", "ExportConfig._escape", "each special character gets a backslash")
    for f, cname, dump in (("export_json.py", "ExportConfigJSON", "json.dumps"), ("export_yaml.py", "ExportConfigYAML", "yaml.dump"), ("export_toml.py", "ExportConfigTOML", "toml.dumps")):
        fn = ctx.fn(CF + f, f"{cname}.parse")
        ctx.check(any(isinstance(c, ast.Call) and dotted_name(c.func) == dump for c in ast.walk(fn)), CF + f, f"{cname}.parse", f"text is produced by {dump} (escapes strings itself)")


def r4_boolean_tables(ctx):
    want = {("export_c.py", "ExportConfigC._parse_scalar"): ("true", "false"), ("export_rust.py", "ExportConfigRust._parse_scalar"): ("true", "false"),
            ("export_fortran.py", "ExportConfigFortran._parse_scalar"): (".true.", ".false."), ("export_bash.py", "ExportConfigBash._parse_scalar"): ("0", "-1"),
            ("export.py", "ExportConfig.parse"): ("true", "false"), ("export_c.py", "ExportConfigC.parse_define"): (1, 0)}
    for (f, q), (t, fl) in want.items():
        fn = ctx.fn(CF + f, q)
        ie = [a for a in ast.walk(fn) if isinstance(a, ast.IfExp) and isinstance(a.body, ast.Constant)
              and isinstance(a.orelse, ast.Constant) and norm(a.test) in ("value", "param.value")]
        if len(ie) != 1:
            ctx.unrecognised(CF + f, q, "boolean literal", "`<true> if value else <false>` not found")
            continue
        got = (ie[0].body.value, ie[0].orelse.value)
        ctx.check(got == (t, fl), CF + f, q, "boolean literal table (true, false)", detail=list(got), expected=[t, fl])


def _missing_is_none(ctx):
    """A missing value is the object None.  0, 0.0, False and '' are values and are written out as such: a test that
    looks at the scalar alone must not put one of them into the class of None while separating it from a non-zero /
    non-empty value of the same type (what `not value` does)."""
    from .common import concrete_truth
    n = 0
    pairs = ((0, 1), (0.0, 1.5), (False, True), ("", "a"))
    for mod in ctx.repo.all_modules(CF.rstrip("/")):
        for cname, cdef in mod.classes.items():
            for mname, fn in methods(cdef).items():
                if not (mname.startswith("_parse_scalar") or mname in ("parse_define",)):
                    continue
                names = [a.arg for a in fn.args.args[1:]]
                for t in ast.walk(fn):
                    test = t.test if isinstance(t, ast.If) else None      # `x if value else y` renders a boolean, it does not look for a missing value
                    anc, boolean_branch = getattr(t, "_parent", None), False
                    while test is not None and anc is not None and anc is not fn:
                        if isinstance(anc, ast.If) and "ool" in norm(anc.test) and t not in anc.orelse:
                            boolean_branch = True
                        anc = getattr(anc, "_parent", None)
                    if test is None or boolean_branch:
                        continue
                    for v in names + [f"{x}.value" for x in names]:
                        if v not in norm(test):
                            continue
                        tn = concrete_truth(test, {v: None})
                        if tn is None:
                            continue
                        n += 1
                        what = "a missing value is recognised as None, never by falsity (0, False and '' are values)"
                        bad = {}
                        for z, nz in pairs:
                            tz, tnz = concrete_truth(test, {v: z}), concrete_truth(test, {v: nz})
                            if tz is not None and tnz is not None and tz == tn and tz != tnz:
                                bad[repr(z)] = f"treated like None, {nz!r} is not"
                        if bad:
                            ctx.violated(mod.relpath, f"{cname}.{mname}", what, detail={norm(test): bad}, expected=f"{v} is None")
                        else:
                            ctx.holds(mod.relpath, f"{cname}.{mname}", what, detail=norm(test))
    ctx.floor("None tests of exported scalars", n, 2)


def _options_forwarded(ctx):
    """Every exporter takes the selection (query, tags) and the data format as keyword options of the base class.  An
    exporter whose constructor accepts **kwargs hands all of them to the base constructor; naming single options in
    the call drops the others, and with them the selection."""
    n = 0
    for mod in ctx.repo.all_modules(CF.rstrip("/")):
        for cname, cdef in mod.classes.items():
            init = methods(cdef).get("__init__")
            if init is None or init.args.kwarg is None or not ctx.repo.is_subclass(mod, cdef, "ExportConfig") or cname == "ExportConfig":
                continue
            kw = init.args.kwarg.arg
            sup = [c for c in ast.walk(init) if isinstance(c, ast.Call) and norm(c.func) in ("super().__init__", "ExportConfig.__init__")]
            what = "the constructor hands every keyword option (format, query, tags) on to the base exporter"
            if len(sup) != 1:
                ctx.form(False, mod.relpath, f"{cname}.__init__", what, detail=f"{len(sup)} base constructor calls")
                continue
            n += 1
            if any(k.arg is None and norm(k.value) == kw for k in sup[0].keywords):
                ctx.holds(mod.relpath, f"{cname}.__init__", what, detail=norm(sup[0]))
            elif any(k.arg is None for k in sup[0].keywords):
                ctx.form(False, mod.relpath, f"{cname}.__init__", what, detail=norm(sup[0]))
            else:
                ctx.violated(mod.relpath, f"{cname}.__init__", what, detail=norm(sup[0]), expected=f"super().__init__(..., **{kw})")
    ctx.floor("exporter constructors with keyword options", n, 5)


def r5_naming_selection(ctx):
    _missing_is_none(ctx)
    _options_forwarded(ctx)
    sites = [("export_c.py", "ExportConfigC.parse_define"), ("export_c.py", "ExportConfigC.parse_const"), ("export_cpp.py", "ExportConfigCPP.parse_constexpr"),
             ("export_rust.py", "ExportConfigRust.parse"), ("export_fortran.py", "ExportConfigFortran.parse"), ("export_bash.py", "ExportConfigBash.parse")]
    for f, q in sites:
        fn = ctx.fn(CF + f, q)
        calls = [c for c in ast.walk(fn) if isinstance(c, ast.Call) and norm(c.func) == "self._rename" and len(c.args) == 1]
        if not calls:
            # the loop over the parameters may live in a helper of the same class (a generator of lines): the mapping is looked for there
            cls_ = ctx.repo.cls(CF + f, q.split(".")[0])
            for c in ast.walk(fn):
                if isinstance(c, ast.Call) and isinstance(c.func, ast.Attribute) and norm(c.func.value) == "self" and c.func.attr in methods(cls_) and c.func.attr != fn.name:
                    helper = methods(cls_)[c.func.attr]
                    inner = [x for x in ast.walk(helper) if isinstance(x, ast.Call) and norm(x.func) == "self._rename" and len(x.args) == 1]
                    if inner:
                        fn, calls = helper, inner
                        break
        nested = [norm(c) for c in calls if any(isinstance(x, ast.Call) and norm(x.func) == "self._rename" for x in ast.walk(c.args[0]))]
        ren = [norm(a) for a in ast.walk(fn) if isinstance(a, ast.Assign) and "self._rename(" in norm(a.value)]
        # a name handed on to another method of the exporter may be mapped there
        delegated = [norm(c)[:60] for c in ast.walk(fn) if isinstance(c, ast.Call) and isinstance(c.func, ast.Attribute) and norm(c.func.value) in ("self", "super()")
                     and c.func.attr != "_rename" and any(isinstance(a, ast.Name) and a.id in ("name", "key") for a in c.args)]
        twice = len(ren) >= 2 and len({r.split(" = ")[0] for r in ren}) == 1 and not any(isinstance(x, (ast.If, ast.For)) and sum(norm(y) in ren for y in ast.walk(x) if isinstance(y, ast.Assign)) for x in [])
        if nested:
            ctx.violated(CF + f, q, "the parameter name is mapped exactly once before it is emitted", detail=nested, expected="one application of _rename")
        elif len(calls) == 1:
            ctx.holds(CF + f, q, "the parameter name is mapped exactly once before it is emitted", detail=ren or [norm(calls[0])])
        elif not calls and not delegated and any(isinstance(l, (ast.For, ast.comprehension)) and "self.data" in norm(l.iter) for l in ast.walk(fn)):
            ctx.violated(CF + f, q, "the parameter name is mapped exactly once before it is emitted", detail="the name is emitted without _rename",
                         expected="name = self._rename(name)")
        elif not calls and not delegated:
            # a per-parameter helper that no longer maps the name itself: then every caller has to hand it a mapped name.
            # The callers are looked up in every exporter class (a subclass in another file inherits the helper): one
            # caller that maps and another that passes the raw name is the violation, at the raw call site.
            hname = q.split(".")[1]
            mapped, raw = [], []
            for mod_ in ctx.repo.all_modules(CF.rstrip("/")):
                for cn_, c_ in mod_.classes.items():
                    for mn_, m_ in methods(c_).items():
                        renamed = {t.id for a in ast.walk(m_) if isinstance(a, ast.Assign) and "self._rename(" in norm(a.value) for t in a.targets if isinstance(t, ast.Name)}
                        for c in ast.walk(m_):
                            if isinstance(c, ast.Call) and isinstance(c.func, ast.Attribute) and c.func.attr == hname and norm(c.func.value) in ("self", "super()") and c.args:
                                a0 = c.args[0]
                                ok_ = "self._rename(" in norm(a0) or (isinstance(a0, ast.Name) and a0.id in renamed)
                                (mapped if ok_ else raw).append((mod_.relpath, f"{cn_}.{mn_}", norm(c)[:80]))
            if mapped and raw:
                for rel_, q_, txt in raw:
                    ctx.violated(rel_, q_, "the parameter name is mapped exactly once before it is emitted",
                                 detail=f"{txt}: {hname} no longer maps the name (its other caller {mapped[0][1]} does) and this caller passes it as it is", expected=f"self.{hname}(self._rename(name), ...)")
            elif mapped:
                ctx.holds(CF + f, q, "the parameter name is mapped exactly once before it is emitted", detail=[m[2] for m in mapped])
            else:
                ctx.unrecognised(CF + f, q, "the parameter name is mapped exactly once before it is emitted", f"rename calls 0, callers {len(raw)}")
        else:
            ctx.unrecognised(CF + f, q, "the parameter name is mapped exactly once before it is emitted", f"rename calls {len(calls)}, delegated to {delegated[:2]}")
    rn = ctx.fn(CF + "export.py", "ExportConfig._rename")
    s = norm(rn).replace("\n", " ")
    ctx.form("if self.rename: return name.upper().replace(Sign.SEPARATOR, '_') else: return name" in s, CF + "export.py", "ExportConfig._rename",
              "documented mapping: upper case, dots to underscores; identity when renaming is off")
    sel = ctx.fn(CF + "export.py", "ExportConfig.select")
    b = [norm(x) for x in K.body_nodoc(sel)]
    _selection(ctx, sel)
    for f, cname in [(x[1], x[2]) for x in BACKENDS] + [("export_bash.py", "ExportConfigBash"), ("export.py", "ExportConfig")]:
        fn = ctx.fn(CF + f, f"{cname}.parse")
        its = [norm(l.iter) for l in ast.walk(fn) if isinstance(l, (ast.For, ast.comprehension)) and "self." in norm(l.iter)]
        full = [i for i in its if "self.env" in i]        # the environment holds every parameter, selected or not
        what = "only the selected parameters are emitted"
        if full:
            ctx.violated(CF + f, f"{cname}.parse", what, detail=full, expected="iterate self.data (what select() left)")
        else:
            ctx.form(any(i.startswith("self.data") or "(self.data" in i for i in its), CF + f, f"{cname}.parse", what, detail=its)
    bodies = {}
    for f, cname, dump in (("export_json.py", "ExportConfigJSON", "json.dumps"), ("export_yaml.py", "ExportConfigYAML", "yaml.dump"), ("export_toml.py", "ExportConfigTOML", "toml.dumps")):
        fn = ctx.fn(CF + f, f"{cname}.parse")
        bodies[cname] = [norm(s).replace(dump, "DUMP") for s in _alpha(K.body_nodoc(fn))]
    vals = list(bodies.values())
    # sibling agreement is read modulo local names; a textual difference is not evidence of a different behaviour
    ctx.form(all(v == vals[0] for v in vals), CF, "ExportConfigJSON/YAML/TOML.parse", "the three data formats differ only in the dumper", detail=None if all(v == vals[0] for v in vals) else bodies)
    s = " ".join(norm(x) for x in K.body_nodoc(ctx.fn(CF + "export_json.py", "ExportConfigJSON.parse")))
    ctx.form("{'value': data[key][0], 'unit': data[key][1]}" in s and "data[key] = data[key][0]" in s, CF, "ExportConfigJSON.parse", "a (value, unit) pair becomes {'value','unit'} or the bare value")


def _text_on_every_path(ctx):
    """save() writes self.text, parse() returns it: every returning path of a back-end's parse() has stored the text it
    returns, otherwise a file written after an (empty) re-selection still holds the previous export."""
    from ..flowexpr import paths as _paths
    n = 0
    for f, cname in [(x[1], x[2]) for x in BACKENDS] + [("export_bash.py", "ExportConfigBash"), ("export.py", "ExportConfig"), ("export_json.py", "ExportConfigJSON"),
                                                         ("export_yaml.py", "ExportConfigYAML"), ("export_toml.py", "ExportConfigTOML")]:
        if not ctx.repo.has_func(CF + f, f"{cname}.parse"):
            continue
        fn = ctx.fn(CF + f, f"{cname}.parse")
        ps = [q for q in _paths(fn) if q.status == "return"]
        stores_somewhere = any(e.kind == "store" and e.extra == "self.text" for q in ps for e in q.events)
        if not stores_somewhere:
            continue            # this back-end does not keep the text (nothing for save() to go stale)
        n += 1
        skipping = [[f"{norm(t.resolved)[:50]} is {t.extra}" for t in q.tests()] for q in ps if not any(e.kind == "store" and e.extra == "self.text" for e in q.events)]
        what = "every returning path of parse() stores the text that save() writes"
        if skipping:
            ctx.violated(CF + f, f"{cname}.parse", what, detail={"returns without storing self.text under": skipping[:2]}, expected="self.text = <text> before every return")
        else:
            ctx.holds(CF + f, f"{cname}.parse", what)
    ctx.floor("back-ends that keep the exported text", n, 5)


def _save_truncates(ctx):
    """save(path) writes the export of the current selection into the file: the file is opened so that earlier content
    is replaced ('w'/'x'); appending or updating in place leaves a previous export in front of the new one."""
    rel, q = CF + "export.py", "ExportConfig.save"
    fn = ctx.fn(rel, q)
    what = "save() replaces the content of the file (it does not append to an earlier export)"
    opens = [c for c in ast.walk(fn) if isinstance(c, ast.Call) and dotted_name(c.func) in ("open", "io.open")]
    if len(opens) != 1:
        ctx.form(False, rel, q, what, detail=[norm(c) for c in opens])
        return
    c = opens[0]
    mode = c.args[1] if len(c.args) >= 2 else next((k.value for k in c.keywords if k.arg == "mode"), None)
    lit = None
    if isinstance(mode, ast.Constant):
        lit = mode.value
    elif isinstance(mode, ast.Name):
        names = [a.arg for a in fn.args.args]
        defs = dict(zip(names[len(names) - len(fn.args.defaults):], fn.args.defaults))
        d = defs.get(mode.id)
        lit = d.value if isinstance(d, ast.Constant) else None
    if not isinstance(lit, str):
        ctx.form(False, rel, q, what, detail=norm(c))
    elif lit.startswith(("w", "x")):
        ctx.holds(rel, q, what)
    elif lit.startswith(("a", "r")):
        ctx.violated(rel, q, what, detail=f"default mode {lit!r}", expected="'w'")
    else:
        ctx.form(False, rel, q, what, detail=lit)


def _selection(ctx, sel):
    _text_on_every_path(ctx)
    _save_truncates(ctx)
    """select(query, tags): the exported set becomes env.data(dtype, query=query, tags=tags) - both filters handed on."""
    from ..flowexpr import paths as _paths
    rel, q = CF + "export.py", "ExportConfig.select"
    what = "selection replaces the exported set by the queried/tagged subset"
    pa = [a.arg for a in sel.args.args[1:]]
    stores = [e.resolved for p_ in _paths(sel) for e in p_.events if e.kind == "store" and e.extra == "self.data" and e.resolved is not None]
    if not stores:
        ctx.violated(rel, q, what, detail="self.data is not replaced", expected="self.data = self.env.data(self.dtype, query=query, tags=tags)") if not any(
            isinstance(c, ast.Call) for c in ast.walk(sel)) else ctx.form(False, rel, q, what, detail=[norm(x) for x in K.body_nodoc(sel)][:3])
        return
    skipping = [[f"{norm(t.resolved)} is {t.extra}" for t in p_.tests()] for p_ in _paths(sel) if p_.status != "raise"
                and not any(e.kind == "store" and e.extra == "self.data" for e in p_.events)]
    if skipping:
        ctx.violated(rel, q, what, detail={"paths that leave the previous selection in place": skipping[:2]},
                     expected="every call of select() recomputes the set (select() without filters gives everything back)")
    for st in stores:
        if not (isinstance(st, ast.Call) and norm(st.func) == "self.env.data"):
            ctx.form(False, rel, q, what, detail=norm(st)[:100])
            continue
        kw = {k.arg: norm(k.value) for k in st.keywords if k.arg}
        pos = [norm(a) for a in st.args]
        missing = [p_ for p_ in pa if kw.get(p_) != p_ and p_ not in pos]
        if missing:
            ctx.violated(rel, q, what, detail={"call": norm(st)[:100], "filters not handed on": missing}, expected="query=query, tags=tags")
        else:
            ctx.holds(rel, q, what)


def _alpha(stmts):
    """Statements with the locally bound names replaced by v0, v1, ... in order of first binding."""
    from ..normalise import clone
    stmts = [clone(s) for s in stmts]
    names = {}
    for s_ in stmts:
        for n in ast.walk(s_):
            if isinstance(n, ast.Name) and isinstance(n.ctx, ast.Store) and n.id not in names:
                names[n.id] = f"v{len(names)}"
    for s_ in stmts:
        for n in ast.walk(s_):
            if isinstance(n, ast.Name) and n.id in names:
                n.id = names[n.id]
    return stmts


def r6_loop_state(ctx):
    n = 0
    for f, cname in [(x[1], x[2]) for x in BACKENDS] + [("export_bash.py", "ExportConfigBash"), ("export.py", "ExportConfig")]:
        fn = ctx.fn(CF + f, f"{cname}.parse")
        for lp in [l for l in fn.body if isinstance(l, ast.For) and "self.data" in norm(l.iter)]:
            n += 1
            before = {e.id for st in fn.body[: fn.body.index(lp)] for a in ast.walk(st) if isinstance(a, ast.Assign) for t in a.targets
                      for e in (t.elts if isinstance(t, ast.Tuple) else [t]) if isinstance(e, ast.Name)}
            top = set()
            cond = set()
            for st in lp.body:
                for a in ast.walk(st):
                    if isinstance(a, (ast.Assign, ast.AugAssign)):
                        for t in (a.targets if isinstance(a, ast.Assign) else [a.target]):
                            for e in (t.elts if isinstance(t, ast.Tuple) else [t]):
                                if isinstance(e, ast.Name):
                                    (top if st is a and not isinstance(a, ast.AugAssign) else cond).add(e.id)
            always = set(top)
            # names assigned in both branches of a top-level if/else count as assigned on every path
            for st in lp.body:
                if isinstance(st, ast.If) and st.orelse:
                    def names(block):
                        out = set()
                        for s2 in block:
                            for a in ast.walk(s2):
                                if isinstance(a, ast.Assign):
                                    for t in a.targets:
                                        for e in (t.elts if isinstance(t, ast.Tuple) else [t]):
                                            if isinstance(e, ast.Name):
                                                out.add(e.id)
                        return out
                    always |= names(st.body) & names(st.orelse)
            reads = {x.id for st in lp.body for x in ast.walk(st) if isinstance(x, ast.Name) and isinstance(x.ctx, ast.Load)}
            carried = sorted(v for v in (cond - always) & before & reads if v not in ("lines",))
            ctx.check(not carried, CF + f, f"{cname}.parse", "no per-parameter variable is initialised once outside the loop and only conditionally reset inside it",
                      detail=carried or None, expected="state of one parameter (e.g. an array shape) must not leak into the next")
    ctx.floor("parameter loops", n, 6)


RULES = [
    ("C19.R1", "type ladders of C, C++, Rust, Fortran and the DIP-text keyword over the whole DIP type domain vs the languages' type tables", r1_type_ladders),
    ("C19.R2", "array layout: index-order traversal, outermost-first shape, Rust type from the reversed shape, Fortran column-major compensation", r2_array_layout),
    ("C19.R3", "string values reach quoted literals only through an escaping function; data formats use their dumpers", r3_quoting),
    ("C19.R4", "boolean literal tables per back-end", r4_boolean_tables),
    ("C19.R5", "rename exactly once per emission site; selection replaces the exported set; data formats identical up to the dumper", r5_naming_selection),
    ("C19.R6", "no loop-carried per-parameter state in the exporters", r6_loop_state),
]
