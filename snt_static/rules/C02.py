"""C02 — a solver instance carries no state from one solve() to the next. Decided as a
state discipline: (R1) every instance field that solve() or the Tokens methods write outside
__init__ is re-initialised unconditionally at the top of solve() (or reset in a try/finally on
all exits) before its first use; (R2) configuration fields (operators, steps, operator class
attributes) are never written after construction; (R3) buffers are created per instance (no
shared mutable class-level default, no aliasing of a parameter). This covers all call histories
and all failure points at once. NOT decided: statelessness of user-supplied atom classes."""
import ast

from ..model import AnalysisError, dotted_name, methods, norm, walk_no_nested
from ..solvercfg import OPERATORS, SOLVER, TOKENS
from . import common as K
from ..model import qualname

LEVEL_TEXT = ("static analysis (ast): kill/use ordering of instance state in ExpressionSolver.solve, write "
              "sets of the solver classes and construction sites of the buffers; a structural argument that holds "
              "for every sequence of solve() calls and every exception point, which no finite test sequence covers")
LEVEL_NOTE = ("trusted: atoms and operator classes supplied by the user keep no state of their own; Python "
              "evaluation order of top-level statements")
TECHNIQUE = "ast kill-before-use / write-set analysis of instance state (static analysis)"

EXPR = "src/scinumtools/solver/expression.py"
MUTATORS = {"append", "extend", "insert", "pop", "remove", "clear", "update", "setdefault", "popitem", "sort",
            "reverse", "appendleft", "popleft", "add", "discard", "__setitem__", "__delitem__"}
FRESH_EMPTY = ("[]", "list()", "deque()", "collections.deque()", "{}", "dict()")


def self_attr_writes(fn, selfname="self"):
    """attribute names X for which `self.X = ...` / `self.X op= ...` / del self.X occurs in fn"""
    out = set()
    for n in walk_no_nested(fn):
        tgts = []
        if isinstance(n, ast.Assign):
            tgts = n.targets
        elif isinstance(n, (ast.AugAssign, ast.AnnAssign)):
            tgts = [n.target]
        elif isinstance(n, ast.Delete):
            tgts = n.targets
        for t in tgts:
            for e in (t.elts if isinstance(t, (ast.Tuple, ast.List)) else [t]):
                if isinstance(e, ast.Attribute) and isinstance(e.value, ast.Name) and e.value.id == selfname:
                    out.add(e.attr)
    return out


def mutated_self_attrs(fn):
    """attributes X with self.X.<mutator>(...) or self.X[...] = ... in fn"""
    out = set()
    for n in walk_no_nested(fn):
        if isinstance(n, ast.Call) and isinstance(n.func, ast.Attribute) and n.func.attr in MUTATORS:
            d = dotted_name(n.func.value)
            if d and d.startswith("self.") and d.count(".") == 1:
                out.add(d.split(".")[1])
        tgts = []
        if isinstance(n, ast.Assign):
            tgts = n.targets
        elif isinstance(n, ast.AugAssign):
            tgts = [n.target]
        elif isinstance(n, ast.Delete):
            tgts = n.targets
        for t in tgts:
            if isinstance(t, ast.Subscript):
                d = dotted_name(t.value)
                if d and d.startswith("self.") and d.count(".") == 1:
                    out.add(d.split(".")[1])
    return out


def tokens_state_fields(ctx):
    """Fields of Tokens written or mutated by its methods other than __init__."""
    c = ctx.repo.cls(TOKENS, "Tokens")
    fields = set()
    for name, fn in methods(c).items():
        ctx.functions_analysed.add(f"{TOKENS}::Tokens.{name}")
        if name == "__init__":
            continue
        fields |= self_attr_writes(fn) | mutated_self_attrs(fn)
    return fields


def method_kills(ctx, mname):
    """Fields of Tokens that method `mname` re-initialises unconditionally (top-level statements)."""
    c = ctx.repo.cls(TOKENS, "Tokens")
    fn = methods(c).get(mname)
    if fn is None:
        return set()
    out = set()
    for st in fn.body:
        s = norm(st)
        if isinstance(st, ast.Assign) and len(st.targets) == 1 and norm(st.value) in FRESH_EMPTY:
            d = dotted_name(st.targets[0])
            if d and d.startswith("self."):
                out.add(d[5:])
        elif isinstance(st, ast.Expr) and s.endswith(".clear()"):
            d = s[:-8]
            if d.startswith("self."):
                out.add(d[5:])
    return out


def stmt_kills(ctx, st, tok_fields):
    """Set of killed state items for one top-level statement of solve():
    'tokens.*' (all Tokens state) or 'tokens.<f>' or '<attr>' of the solver itself."""
    out = set()
    if isinstance(st, ast.Assign) and len(st.targets) == 1 and isinstance(st.targets[0], ast.Tuple) and isinstance(st.value, ast.Tuple) \
            and len(st.targets[0].elts) == len(st.value.elts):
        # parallel assignment: each pair on its own
        for t, v in zip(st.targets[0].elts, st.value.elts):
            one = ast.Assign(targets=[t], value=v)
            one._locals = getattr(st, "_locals", {})
            out |= stmt_kills(ctx, one, tok_fields)
        return out
    if isinstance(st, ast.Assign) and len(st.targets) == 1:
        d = dotted_name(st.targets[0])
        if isinstance(st.value, ast.Name) and st.value.id in getattr(st, "_locals", {}):
            st = ast.Assign(targets=st.targets, value=st._locals[st.value.id])      # a local that holds a fresh object
        v = norm(st.value)
        if d == "self.tokens" and isinstance(st.value, ast.Call) and dotted_name(st.value.func) == "Tokens":
            out.add("tokens.*")
        elif d and d.startswith("self.tokens.") and v in FRESH_EMPTY:
            out.add("tokens." + d[len("self.tokens."):])
        elif d and d.startswith("self.") and d.count(".") == 1:
            out.add(d[5:])
    elif isinstance(st, ast.Expr) and isinstance(st.value, ast.Call) and isinstance(st.value.func, ast.Attribute):
        recv = dotted_name(st.value.func.value)
        m = st.value.func.attr
        if recv and recv.startswith("self.tokens.") and m == "clear":
            out.add("tokens." + recv[len("self.tokens."):])
        elif recv == "self.tokens":
            for f in method_kills(ctx, m):
                out.add("tokens." + f)
    elif isinstance(st, ast.If):
        a = set().union(*[stmt_kills(ctx, s, tok_fields) for s in st.body]) if st.body else set()
        b = set().union(*[stmt_kills(ctx, s, tok_fields) for s in st.orelse]) if st.orelse else set()
        out = a & b
        if "tokens.*" in a and "tokens.*" not in b:
            out |= {("tokens." + f) for f in tok_fields if ("tokens." + f) in b}
        if "tokens.*" in b and "tokens.*" not in a:
            out |= {("tokens." + f) for f in tok_fields if ("tokens." + f) in a}
    return out


def uses_token_state(node):
    """Does the statement read or mutate token buffers (anything through self.tokens except .atom)?"""
    for n in ast.walk(node):
        if isinstance(n, ast.Attribute) and dotted_name(n) == "self.tokens":
            p = getattr(n, "_parent", None)
            if isinstance(p, ast.Attribute) and p.attr == "atom":
                continue
            if isinstance(p, ast.Assign) and n in p.targets:
                continue
            if isinstance(p, ast.Tuple) and isinstance(p.ctx, ast.Store):
                continue
            return True
    return False


def r1_kill_before_use(ctx):
    solve = ctx.fn(SOLVER, "ExpressionSolver.solve")
    tok_fields = tokens_state_fields(ctx)
    ctx.info["tokens_state_fields"] = sorted(tok_fields)
    if not tok_fields:
        raise AnalysisError("no mutable field found in Tokens (buffers vanished?)")
    need = {"tokens." + f for f in tok_fields}
    # solver's own fields written outside __init__
    scls = ctx.repo.cls(SOLVER, "ExpressionSolver")
    own = set()
    for name, fn in methods(scls).items():
        if name != "__init__":
            own |= self_attr_writes(fn) | mutated_self_attrs(fn)
    own -= {"tokens"}
    ctx.info["solver_state_fields"] = sorted(own)
    body = [s for s in solve.body if not (isinstance(s, ast.Expr) and isinstance(s.value, ast.Constant))]
    # try/finally idiom
    if len(body) <= 3 and any(isinstance(s, ast.Try) and s.finalbody for s in body):
        tr = [s for s in body if isinstance(s, ast.Try)][0]
        killed = set()
        for st in tr.finalbody:
            killed |= stmt_kills(ctx, st, tok_fields)
        pre = body[: body.index(tr)]
        for st in pre:
            killed |= stmt_kills(ctx, st, tok_fields)
        ok = "tokens.*" in killed or need <= killed
        ctx.check(ok, SOLVER, "ExpressionSolver.solve", "token buffers reset on every exit (try/finally)",
                  detail=sorted(killed), expected=sorted(need))
        return
    killed = set()
    first_use = None
    local_vals = {}
    for st in body:
        # locals bound once at the top level to a constructor call (an alias of a fresh object)
        if isinstance(st, ast.Assign) and len(st.targets) == 1 and isinstance(st.targets[0], ast.Name) and isinstance(st.value, ast.Call):
            local_vals[st.targets[0].id] = st.value
        st._locals = dict(local_vals)
    for st in body:
        # a kill statement may read configuration (self.tokens.atom) only
        k = stmt_kills(ctx, st, tok_fields)
        if uses_token_state(st) and not k:
            first_use = st
            break
        if uses_token_state(st) and k and isinstance(st, ast.If):
            # conditional reset: the test itself reads stale state
            first_use = st
            killed |= k
            break
        killed |= k
    if first_use is None:
        raise AnalysisError("solve() never uses the token buffers")
    have_all = "tokens.*" in killed
    missing = set() if have_all else (need - killed)
    ctx.check(not missing, SOLVER, "ExpressionSolver.solve",
              "token buffers are re-initialised unconditionally before their first use",
              detail={"killed_before_first_use": sorted(killed), "first_use": norm(first_use)[:120],
                      "stale": sorted(missing)},
              expected="self.tokens = Tokens(...) or both buffers cleared, at the top level of solve(), on every path")
    # own fields: assigned before read
    for f in sorted(own):
        assigned = False
        stale = None
        for st in body:
            k = stmt_kills(ctx, st, tok_fields)
            reads = any(isinstance(n, ast.Attribute) and dotted_name(n) == f"self.{f}" and isinstance(n.ctx, ast.Load)
                        for n in ast.walk(st))
            if f in k:
                # reading inside the assigning statement's value / the branch test is a read of the old value
                srcs = [st.value] if isinstance(st, ast.Assign) else ([st.test] if isinstance(st, ast.If) else [])
                srcs = [getattr(st, "_locals", {}).get(x.id, x) if isinstance(x, ast.Name) else x for x in srcs]
                rv = any(isinstance(n, ast.Attribute) and dotted_name(n) == f"self.{f}" for x in srcs for n in ast.walk(x))
                if rv:
                    stale = st
                assigned = True
                break
            if reads:
                stale = st
                break
        ctx.check(assigned and stale is None, SOLVER, "ExpressionSolver.solve",
                  f"instance field self.{f} is assigned before it is read",
                  detail=None if stale is None else norm(stale)[:120])
    # no re-entrant use of the same instance for arguments
    rec = [norm(n) for n in walk_no_nested(solve) if isinstance(n, ast.Call) and dotted_name(n.func) == "self.solve"]
    ctx.check(not rec, SOLVER, "ExpressionSolver.solve", "arguments are not solved re-entrantly on the same instance",
              detail=rec)


def r2_config_readonly(ctx):
    n = 0
    cfg_fields = ("operators", "steps")
    for rel in (SOLVER, TOKENS, OPERATORS, EXPR):
        mod = ctx.repo.module(rel)
        for cname, c in mod.classes.items():
            for mname, fn in methods(c).items():
                ctx.functions_analysed.add(f"{rel}::{cname}.{mname}")
                if cname == "ExpressionSolver" and mname == "__init__":
                    continue
                w = (self_attr_writes(fn) | mutated_self_attrs(fn)) & set(cfg_fields) if cname == "ExpressionSolver" else set()
                n += 1
                ctx.check(not w, rel, f"{cname}.{mname}", "does not write solver configuration", detail=sorted(w),
                          expected="operators/steps written only in __init__")
                # stores to class-level operator attributes through anything but `self` in __init__
                bad = []
                for node in walk_no_nested(fn):
                    tg = []
                    if isinstance(node, ast.Assign):
                        tg = node.targets
                    elif isinstance(node, ast.AugAssign):
                        tg = [node.target]
                    for t in tg:
                        if isinstance(t, ast.Attribute) and t.attr in ("symbol", "narg", "symbol_open", "symbol_close",
                                                                       "symbol_separator"):
                            bad.append(norm(node))
                        if isinstance(t, ast.Attribute) and isinstance(t.value, ast.Name) and t.value.id == cname:
                            bad.append(norm(node))
                        if isinstance(t, ast.Subscript):
                            d = dotted_name(t.value) or ""
                            if d.startswith("self.operators") or d.startswith("self.steps"):
                                bad.append(norm(node))
                    if isinstance(node, ast.Call) and isinstance(node.func, ast.Attribute) and node.func.attr in MUTATORS:
                        d = dotted_name(node.func.value) or ""
                        if d in ("self.operators", "self.steps") or d.startswith(("self.operators[", "self.steps[")):
                            bad.append(norm(node))
                        # mutation of a step entry obtained from self.steps
                if bad:
                    ctx.violated(rel, f"{cname}.{mname}", "writes operator/step configuration", detail=bad)
    # mutation of step entries while iterating (ostep[...] = / ostep['operators'].append)
    solve = ctx.fn(SOLVER, "ExpressionSolver.solve")
    for lp in [x for x in walk_no_nested(solve) if isinstance(x, ast.For) and "self.steps" in norm(x.iter)]:
        names = {t.id for t in ast.walk(lp.target) if isinstance(t, ast.Name)}
        bad = []
        for node in ast.walk(lp):
            if isinstance(node, ast.Call) and isinstance(node.func, ast.Attribute) and node.func.attr in MUTATORS:
                root = node.func.value
                while isinstance(root, (ast.Subscript, ast.Attribute)):
                    root = root.value
                if isinstance(root, ast.Name) and root.id in names:
                    bad.append(norm(node))
            if isinstance(node, (ast.Assign, ast.AugAssign)):
                for t in (node.targets if isinstance(node, ast.Assign) else [node.target]):
                    if isinstance(t, ast.Subscript):
                        root = t.value
                        while isinstance(root, (ast.Subscript, ast.Attribute)):
                            root = root.value
                        if isinstance(root, ast.Name) and root.id in names:
                            bad.append(norm(node))
        ctx.check(not bad, SOLVER, "ExpressionSolver.solve", "step entries are not modified while applied", detail=bad)
    ctx.floor("methods scanned for configuration writes", n, 40)


def r3_per_instance(ctx):
    init = ctx.fn(TOKENS, "Tokens.__init__")
    params = {a.arg for a in init.args.args[1:]}
    tok_fields = tokens_state_fields(ctx)
    assigns = {}
    for st in init.body:
        if isinstance(st, ast.Assign) and len(st.targets) == 1:
            d = dotted_name(st.targets[0])
            if d and d.startswith("self."):
                assigns[d[5:]] = st.value
    for f in sorted(tok_fields):
        v = assigns.get(f)
        ok = v is not None and norm(v) in FRESH_EMPTY
        ctx.check(ok, TOKENS, "Tokens.__init__", f"buffer self.{f} is a fresh empty container per instance",
                  detail=None if v is None else norm(v), expected="[]")
    # class-level mutable defaults in the solver classes
    n = 0
    for rel in (SOLVER, TOKENS, OPERATORS, EXPR):
        mod = ctx.repo.module(rel)
        written = _written_class_attrs(mod)
        for cname, c in mod.classes.items():
            for st in c.body:
                val = tgt = None
                if isinstance(st, ast.Assign):
                    val, tgt = st.value, norm(st.targets[0])
                elif isinstance(st, ast.AnnAssign) and st.value is not None:
                    val, tgt = st.value, norm(st.target)
                if val is None:
                    continue
                n += 1
                mutable = isinstance(val, (ast.List, ast.Dict, ast.Set, ast.ListComp, ast.DictComp)) or \
                    (isinstance(val, ast.Call) and dotted_name(val.func) in ("list", "dict", "set", "deque", "collections.deque"))
                ctx.check(not (mutable and tgt in written), rel, cname, f"class attribute {tgt} is not a shared container that methods write to",
                          detail=norm(val))
    ctx.floor("class-level attributes scanned", n, 30)



def _written_class_attrs(mod):
    """Names X such that some function stores into / mutates `<anything>.X[...]`, `<anything>.X.<mutator>()` or rebinds Cls.X."""
    MUT = {"append", "extend", "insert", "pop", "remove", "clear", "update", "setdefault", "popitem", "add", "discard", "sort"}
    out = set()
    for n in ast.walk(mod.tree):
        tg = []
        if isinstance(n, ast.Assign):
            tg = n.targets
        elif isinstance(n, (ast.AugAssign,)):
            tg = [n.target]
        elif isinstance(n, ast.Delete):
            tg = n.targets
        for t in tg:
            if isinstance(t, ast.Subscript) and isinstance(t.value, ast.Attribute):
                out.add(t.value.attr)
        if isinstance(n, ast.Call) and isinstance(n.func, ast.Attribute) and n.func.attr in MUT and isinstance(n.func.value, ast.Attribute):
            out.add(n.func.value.attr)
    return out


GLOBAL_SETTERS = {"np.seterr": "np.errstate / try-finally", "numpy.seterr": "np.errstate / try-finally", "np.seterrcall": "try-finally", "np.set_printoptions": "np.printoptions",
                  "warnings.simplefilter": "warnings.catch_warnings", "warnings.filterwarnings": "warnings.catch_warnings", "sys.setrecursionlimit": "try-finally",
                  "locale.setlocale": "try-finally", "random.seed": "a local Random instance", "np.random.seed": "a local Generator", "decimal.setcontext": "decimal.localcontext",
                  "os.chdir": "try-finally", "os.putenv": "-"}


ATOM_VALUE_CLASSES = (("src/scinumtools/solver/atom.py", "AtomBase"), ("src/scinumtools/units/unit_solver.py", "Atom"))


def _atoms_are_values(ctx):
    """An atom may outlive the solve that produced it (custom atom factories keep objects per name; the DIP solvers hand
    out node copies).  Operators on atoms therefore build a new atom: no operator method of an atom class assigns to a
    field of self, writes into a container reached from self, or returns self."""
    n = 0
    for rel, cname in ATOM_VALUE_CLASSES:
        c = ctx.repo.cls(rel, cname)
        for mname, fn in methods(c).items():
            if mname in ("__init__", "__new__", "__post_init__", "__str__", "__repr__", "__enter__", "__exit__") or mname.startswith("_") and not mname.startswith("__"):
                continue
            n += 1
            me = fn.args.args[0].arg if fn.args.args else "self"
            bad = []
            aliases = {me}
            for a in ast.walk(fn):
                if isinstance(a, ast.Assign) and len(a.targets) == 1 and isinstance(a.targets[0], ast.Name) and isinstance(a.value, ast.Attribute) and isinstance(a.value.value, ast.Name) \
                        and a.value.value.id == me:
                    aliases.add(a.targets[0].id)      # x = self.field : a reference, not a copy
            for a in ast.walk(fn):
                if isinstance(a, (ast.Attribute, ast.Subscript)) and isinstance(a.ctx, (ast.Store, ast.Del)):
                    base = a.value
                    while isinstance(base, (ast.Attribute, ast.Subscript)):
                        base = base.value
                    if isinstance(base, ast.Name) and base.id in aliases and not (isinstance(a, ast.Attribute) and a.value is base and base.id != me):
                        bad.append(f"{norm(a)} = ...")
                if isinstance(a, ast.Return) and isinstance(a.value, ast.Name) and a.value.id == me and not mname.startswith("__i"):
                    bad.append("return " + me)
            what = "operators on atoms build new atoms (they neither change nor return their left operand)"
            if bad:
                ctx.violated(rel, f"{cname}.{mname}", what, detail=sorted(set(bad))[:3], expected=f"return {cname}(<new value>)")
            else:
                ctx.holds(rel, f"{cname}.{mname}", what)
    ctx.floor("atom operator methods", n, 20)


def r4_no_process_state(ctx):
    _atoms_are_values(ctx)
    from . import C16 as _C16
    _C16.r9_deep_copies(ctx)      # node copies handed to the logical/numerical atom factories are deep: a comparison converts its operand in place
    """A solve leaves nothing behind outside its own instance: no module-level container of the solver package is
    written from a function, no function is memoised, and an interpreter-wide setting (NumPy error mode, warning
    filters, recursion limit, locale, random seed, decimal context) is changed only under a construct that restores it
    on every exit - a context manager, or a try whose finally block calls the same setter again."""
    K.hidden_module_state(ctx, ["src/scinumtools/solver"], {}, "a later solve must not see anything an earlier (possibly failed) solve left behind")
    n = 0
    for mod in ctx.repo.all_modules("src/scinumtools/solver"):
        for fn in [x for x in ast.walk(mod.tree) if isinstance(x, (ast.FunctionDef, ast.AsyncFunctionDef))]:
            n += 1
            finals = [t for t in ast.walk(fn) if isinstance(t, ast.Try) and t.finalbody]
            for c in [x for x in ast.walk(fn) if isinstance(x, ast.Call) and dotted_name(x.func) in GLOBAL_SETTERS]:
                name = dotted_name(c.func)
                restored = any(any(c is y for b in t.body for y in ast.walk(b)) and any(isinstance(z, ast.Call) and dotted_name(z.func) == name for f_ in t.finalbody for z in ast.walk(f_))
                               for t in finals) or any(any(c is y for f_ in t.finalbody for y in ast.walk(f_)) for t in finals)
                if not restored:
                    ctx.violated(mod.relpath, qualname(fn), "an interpreter-wide setting is changed only under a construct that restores it on every exit",
                                 detail=f"{norm(c)[:70]} with no finally that calls {name} again", expected=GLOBAL_SETTERS[name])
    ctx.floor("solver functions scanned for interpreter-wide settings", n, 20)
    ctx.holds("-", "-", "scan for interpreter-wide setters completed")


RULES = [
    ("C02.R1", "every instance field written outside __init__ by solve() or the Tokens methods is re-initialised unconditionally before its first use in solve() (or on all exits by try/finally)", r1_kill_before_use),
    ("C02.R2", "operators/steps and operator class attributes are never written after construction", r2_config_readonly),
    ("C02.R3", "token buffers are fresh containers created in Tokens.__init__; no shared mutable class-level defaults in the solver classes", r3_per_instance),
    ("C02.R4", "nothing process-wide is left behind: no module-level container of solver/ written from a function, no memoised function, interpreter-wide settings (np.seterr, warning filters, ...) only under a restoring construct", r4_no_process_state),
]
