"""C18 — DIP expressions. Decided: (R1) the numerical and logical solver configurations satisfy
the generic solver clauses (maximal munch, handler exhaustiveness) with blank-delimited symbols,
reuse the default step order, and the documented priorities and function names agree with the
configuration; (R2) the sign rewriting of the DIP copies has the same decision tables as the
generic one with quantities as atoms; (R3) unit-aware add/sub: operands of different dimension
are refused before the right operand is brought to the left operand's units, then L +- R;
(R4) kinds across the solver boundary: what the float/int node parsers store from the numerical
solver is a number on every path (a Quantity is reduced to its dimensionless value), integer
results are rounded, and the conversion to the requested unit happens inside the custom-unit scope;
logical operators accept the bare booleans comparisons return, repeated negation included;
(R5) no nested unit scope; (R6) template formatting is format(value, spec) and a reference is
substituted only when closed by '}'; (R7) both registration paths of custom units compute the
factor in base units. NOT decided: numerical results, tolerance behaviour, reference resolution. (R9) the DIP solver objects keep no state between atoms and expressions."""
import ast

from ..doctables import list_table
from ..model import AnalysisError, dotted_name, methods, norm, walk_no_nested
from ..solvercfg import all_configs
from ..symexpr import NotSymbolic, SymEval
from . import C01, C09, C16
from . import common as K

LEVEL_TEXT = ("static analysis (ast): the generic solver clauses re-evaluated on the two DIP configurations, sibling decision "
              "tables of the sign rewriting, guard/order shape of the unit-aware add/sub, kind discipline at the solver "
              "boundary, scope containment of unit conversions, writer/registrar agreement for custom unit factors, "
              "documentation/configuration agreement for priorities and function names")
LEVEL_NOTE = "trusted: Quantity arithmetic (C06), the generic solver clauses (C01); str.format semantics"
TECHNIQUE = "ast decision tables / sibling agreement / scope containment / docs-vs-code table rules (static analysis)"

NS = "src/scinumtools/dip/solvers/numerical_solver.py"
LS = "src/scinumtools/dip/solvers/logical_solver.py"
TS = "src/scinumtools/dip/solvers/template_solver.py"
DOC = "docs/source/dip/syntax/expressions.rst"
ND = "src/scinumtools/dip/nodes/"
UE = "src/scinumtools/units/unit_environment.py"
UL = "src/scinumtools/dip/lists/list_units.py"


def _cfg(ctx, rel):
    c = [x for x in all_configs(ctx.repo) if x.relpath == rel]
    if len(c) != 1:
        raise AnalysisError(f"solver configuration of {rel} not found")
    return c[0]


def _unit_aware_functions(ctx):
    """The functions of numerical expressions are applied to the quantity, not to its bare number: `sin(30 deg)` is
    0.5 because Quantity's NumPy hook converts an angle to radians and refuses a length, `sqrt(4 m2)` is 2 m.  The term
    each function operator of the numerical solver hands back is read (as in C01.R6) and compared with the unit-aware
    form; an argument stripped with `.value()` (no unit asked for) in front of the function is the violation."""
    num = _cfg(ctx, NS)
    WANT = {"sin": "np.sin(A0)", "cos": "np.cos(A0)", "tan": "np.tan(A0)", "sqrt": "np.sqrt(A0)", "log": "np.log(A0)", "log10": "np.log10(A0)",
            "logb": "(np.log(A0) / np.log(A1))"}
    n = 0
    for name, want in WANT.items():
        cref = num.operators.get(name)
        if cref is None:
            continue
        r = ctx.repo.method(cref.module, cref.node, "operate_args")
        if r is None:
            continue
        m, c, fn = r
        if m.relpath != NS:
            continue   # inherited from the generic solver: decided by C01.R6
        ctx.functions_analysed.add(f"{m.relpath}::{c.name}.operate_args")
        what = f"numerical function {name}( is applied to the quantity with its unit"
        term = K.args_handler_term(fn)
        if term is None:
            raw = K._single_put_left(fn)
            term = norm(raw).replace("self.args[0]", "A0").replace("self.args[1]", "A1") if raw is not None else None
        n += 1
        if term is None:
            ctx.unrecognised(NS, f"{c.name}.operate_args", what, "not a single put_left(<term>)")
        elif term == want:
            ctx.holds(NS, f"{c.name}.operate_args", what, detail=term)
        elif "A0.value()" in term.replace(" ", "") or ".magnitude" in term:
            ctx.violated(NS, f"{c.name}.operate_args", what, detail=term, expected=want)
        else:
            ctx.unrecognised(NS, f"{c.name}.operate_args", what, f"term {term[:80]}")
    ctx.floor("unit-aware function operators of the numerical solver", n, 6)


def r1_configurations(ctx):
    from . import C01 as _C01
    _unit_aware_functions(ctx)
    _C01.r8_parenthesis(ctx)        # function arguments are split at separators of the function's own depth only (shared with C01.R8)
    C01.r3_maximal_munch(ctx)
    C01.r4_handlers(ctx)
    num, log = _cfg(ctx, NS), _cfg(ctx, LS)
    default = [c for c in all_configs(ctx.repo) if c.name == "default"][0]
    for cfg in (num, log):
        ctx.check(cfg.steps == default.steps, cfg.relpath, cfg.qual, "the default step order (priorities) is reused", detail=None)
    syms = {k: num.symbol(ctx.repo, v) for k, v in num.operators.items()}
    for k in ("add", "sub", "mul", "truediv"):
        s = syms.get(k, "")
        ctx.check(len(s) == 3 and s[0] == " " and s[2] == " " and s[1] in "+-*/", NS, num.qual, f"numerical operator {k!r} is blank-delimited", detail=s)
    # documented priorities: functions/parentheses < * / < + -
    try:
        basic = list_table(ctx.repo, DOC, "Basic operations")
        par = list_table(ctx.repo, DOC, "Parentheses operators")
        prio = {r[0].split()[1]: int(r[1]) for r in basic if len(r) >= 2 and len(r[0].split()) == 3}
        ppar = {int(r[1]) for r in par if len(r) >= 2}
        order = {"*": 3, "/": 3, "+": 4, "-": 4}     # step index in the default table
        ok = all((prio[a] < prio[b]) == (order[a] < order[b]) and (prio[a] == prio[b]) == (order[a] == order[b]) for a in prio for b in prio) and \
            max(ppar) < min(prio.values())
        ctx.check(ok, DOC, "-", "documented numerical priorities agree with the step order", detail={"documented": prio, "parentheses": sorted(ppar)})
        names = [r[0].replace("\\", "").split("(")[0] for r in par]
        names = [n for n in names if n]
        have = {s[:-1] for s in syms.values() if s.endswith("(") and len(s) > 1}
        for n in names:
            ctx.check(n in have, DOC, "Parentheses operators", f"documented function {n}( is a configured operator symbol", detail=sorted(have),
                      expected=f"{n}( in the numerical solver's operator table")
    except AnalysisError as e:
        ctx.unrecognised(DOC, "-", "numerical operator tables", str(e))
    try:
        lo = list_table(ctx.repo, DOC, "Logical operators")
        cm = list_table(ctx.repo, DOC, "Comparison operators")
        p_or = [int(r[1]) for r in lo if "||" in r[0]][0]
        p_and = [int(r[1]) for r in lo if "&&" in r[0]][0]
        p_cmp = {int(r[1]) for r in cm}
        ctx.check(max(p_cmp) < p_and < p_or, DOC, "-", "documented logical priorities: comparisons, then &&, then ||", detail={"cmp": sorted(p_cmp), "and": p_and, "or": p_or})
        lsyms = {k: log.symbol(ctx.repo, v) for k, v in log.operators.items()}
        docsyms = {r[0].split()[1] for r in cm if len(r[0].split()) == 3}
        ctx.check(docsyms <= set(lsyms.values()), DOC, "Comparison operators", "documented comparison symbols are configured", detail={"doc": sorted(docsyms), "cfg": sorted(lsyms.values())})
    except (AnalysisError, IndexError) as e:
        ctx.unrecognised(DOC, "-", "logical operator tables", str(e))


def r2_sign_siblings(ctx):
    num = _cfg(ctx, NS)
    cells = C01.sign_tables(ctx, num, {"Quantity"}, rule="C18.R2")
    ctx.floor("sign-table cells (DIP copies)", cells, 20, rule="C18.R2")


def _expression_solves(fn):
    """Calls `<x>.solve(..)` where <x> is bound by `with ExpressionSolver(..) as <x>` or `<x> = ExpressionSolver(..)`."""
    names = set()
    for n in ast.walk(fn):
        if isinstance(n, ast.With):
            for it in n.items:
                if isinstance(it.context_expr, ast.Call) and norm(it.context_expr.func).endswith("ExpressionSolver") and isinstance(it.optional_vars, ast.Name):
                    names.add(it.optional_vars.id)
        if isinstance(n, ast.Assign) and isinstance(n.value, ast.Call) and norm(n.value.func).endswith("ExpressionSolver"):
            names |= {t.id for t in n.targets if isinstance(t, ast.Name)}
    return [c for c in ast.walk(fn) if isinstance(c, ast.Call) and isinstance(c.func, ast.Attribute) and c.func.attr == "solve"
            and (isinstance(c.func.value, ast.Name) and c.func.value.id in names
                 or isinstance(c.func.value, ast.Call) and norm(c.func.value.func).endswith("ExpressionSolver"))]


def r3_unit_add(ctx):
    for cname, op in (("CustomOperatorAdd", ast.Add), ("CustomOperatorSub", ast.Sub)):
        fn = ctx.fn(NS, f"{cname}.operate_binary")
        form = K.binary_handler_form(_strip_ifs(fn))
        if form is None:
            ctx.unrecognised(NS, f"{cname}.operate_binary", "result", "put_left(L op R) not found")
        else:
            ctx.check(form == ("bin", op.__name__, "L", "R"), NS, f"{cname}.operate_binary", "result is L op R (carrying the left operand's units)", detail=list(form))
        refusal = [i for i in ast.walk(fn) if isinstance(i, ast.If) and any(isinstance(r, ast.Raise) for r in i.body)
                   and norm(i.test) in ("left.baseunits.dimensions != right.baseunits.dimensions", "not left.baseunits.dimensions == right.baseunits.dimensions")]
        convs = [c for c in ast.walk(fn) if isinstance(c, ast.Call) and norm(c.func) == "right.to"]
        if convs:
            ok = len(refusal) == 1 and refusal[0].lineno < convs[0].lineno
            ctx.check(ok, NS, f"{cname}.operate_binary", "different (also reciprocal) dimensions are refused before the right operand is converted",
                      detail={"refusal": [norm(r.test) for r in refusal], "conversion": [norm(c) for c in convs]},
                      expected="the conversion alone accepts s <-> Hz")
            ctx.check(all([norm(a) for a in c.args] == ["left.baseunits"] for c in convs), NS, f"{cname}.operate_binary", "the right operand is brought to the left operand's units")
        else:
            ctx.holds(NS, f"{cname}.operate_binary", "no explicit pre-conversion: the quantity sum refuses different dimensions itself")


def _strip_ifs(fn):
    """Copy of fn without its guard statements (for the straight-line recogniser)."""
    import copy
    f = copy.deepcopy(fn)
    f.body = [s for s in f.body if not isinstance(s, ast.If)]
    return f


def r4_boundary_kinds(ctx):
    solve = ctx.fn(NS, "NumericalSolver.solve")
    rets = [r for r in ast.walk(solve) if isinstance(r, ast.Return) and r.value is not None]
    kinds = sorted({("number" if ".value(" in norm(r.value) or norm(r.value) == "expr" else "quantity") for r in rets})
    ctx.info["numerical_solve_return_kinds"] = kinds
    for f, c, rnd in (("node_float.py", "FloatNode", False), ("node_integer.py", "IntegerNode", True)):
        fn = ctx.fn(ND + f, f"{c}.parse")
        blk = [w for w in ast.walk(fn) if isinstance(w, ast.With) and "NumericalSolver(env)" in norm(w.items[0].context_expr)]
        if len(blk) != 1:
            ctx.unrecognised(ND + f, f"{c}.parse", "expression block", "with NumericalSolver(env) not found")
            continue
        b = blk[0]
        src = norm(b).replace("\n", " ")
        stores = [a for a in ast.walk(b) if isinstance(a, ast.Assign) and norm(a.targets[0]) == "self.value_raw"]
        guard = [i for i in ast.walk(b) if isinstance(i, ast.If) and norm(i.test) == "isinstance(result, Quantity)"]
        direct = [a for a in stores if "s.solve(" in norm(a.value)]
        ok = (len(guard) == 1 and not direct and stores) or "quantity" not in kinds
        ctx.check(ok, ND + f, f"{c}.parse", "what is stored as the raw value is a number on every path (a Quantity result is reduced first)",
                  detail={"solve_returns": kinds, "stores": [norm(a)[:60] for a in stores], "guard": [norm(g.test) for g in guard]})
        if guard:
            red = [norm(x) for x in guard[0].body]
            ctx.check(red == ["result = result.to(None).value()"], ND + f, f"{c}.parse", "a unit-less node takes the dimensionless value and refuses a dimensional result", detail=red,
                      expected=["result = result.to(None).value()"])
        if rnd and stores:
            ctx.check(all("np.round(" in norm(a.value) for a in stores), ND + f, f"{c}.parse", "an integer node rounds the expression result (the caster truncates)",
                      detail=[norm(a.value) for a in stores], expected="np.round(result)")
        call = [c2 for c2 in ast.walk(b) if isinstance(c2, ast.Call) and norm(c2.func) == "s.solve"]
        ctx.check(len(call) == 1 and [norm(a) for a in call[0].args] == ["self.value_expr", "self.units_raw"], ND + f, f"{c}.parse",
                  "the expression is solved in the node's own unit", detail=[norm(x) for x in call])
    # conversion inside the custom-unit scope
    scope = [w for w in ast.walk(solve) if isinstance(w, ast.With) and "UnitEnvironment(self.env.units)" in norm(w.items[0].context_expr)]
    if len(scope) != 1:
        ctx.unrecognised(NS, "NumericalSolver.solve", "unit scope", "with UnitEnvironment(self.env.units) not found")
    else:
        convs = [c for c in ast.walk(solve) if isinstance(c, ast.Call) and isinstance(c.func, ast.Attribute) and c.func.attr in ("value", "to") and c.args and norm(c.args[0]) == "in_units"]
        inside = [c for c in convs if any(c is x for x in ast.walk(scope[0]))]
        ctx.check(bool(convs) and len(inside) == len(convs), NS, "NumericalSolver.solve", "the conversion to the requested unit happens while the custom units are registered",
                  detail=[norm(c) for c in convs], expected="inside `with UnitEnvironment(self.env.units)`")
        es = _expression_solves(solve)
        ctx.form(bool(es), NS, "NumericalSolver.solve", "the evaluation of the expression (ExpressionSolver ... .solve) is found")
        if es:
            ctx.check(all(any(c is x for x in ast.walk(scope[0])) for c in es), NS, "NumericalSolver.solve", "the expression is evaluated while the custom units are registered",
                      detail=[norm(c) for c in es if not any(c is x for x in ast.walk(scope[0]))] or None)
    lsolve = ctx.fn(LS, "LogicalSolver.solve")
    scope = [w for w in ast.walk(lsolve) if isinstance(w, ast.With) and "UnitEnvironment(self.env.units)" in norm(w.items[0].context_expr)]
    es = _expression_solves(lsolve)
    ctx.form(len(scope) == 1 and bool(es), LS, "LogicalSolver.solve", "one custom-unit scope and the evaluation of the expression are found")
    if len(scope) == 1 and es:
        ctx.check(all(any(c is x for x in ast.walk(scope[0])) for c in es), LS, "LogicalSolver.solve", "logical expressions are evaluated while the custom units are registered",
                  detail=[norm(c) for c in es if not any(c is x for x in ast.walk(scope[0]))] or None)
    C16.r4_guarded_deref(ctx)
    # negation table of the DIP copy, bare booleans and repeated negation included
    log = _cfg(ctx, LS)
    cref = log.operators.get("not")
    if cref is not None:
        C01.negation_table(ctx, cref, rule="C18.R4", kinds=("atom", "bool", "Not"))


def r5_no_nested_scope(ctx):
    C09.r5_no_reentry(ctx)
    # an expression that raises (missing reference, incompatible units) must not leave the custom units registered: the
    # next expression over the same environment would fail with "already exists" (scopes are lexical, shared with C09.R4)
    C09.r4_lexical_scopes(ctx)


def r6_templates(ctx):
    from . import C17 as _C17
    _C17.slice_cells(ctx)            # {{reference}[slice]}: the slicing routine's element/range cells (shared with C17.R7)
    _format_pattern(ctx)
    """One iteration of the template scanner, decided on resolved values for every path through the loop body:
    what is appended to the output and what remains of the text, as expressions over the text before the
    iteration, the parser object and the requested node."""
    from ..flowexpr import explore
    fn = ctx.fn(TS, "TemplateSolver.solve")
    ex = explore(fn, opaque_calls=True)
    loops = [v for v in ex.iterations.values() if isinstance(v[0], ast.While)]
    if len(loops) != 1:
        ctx.unrecognised(TS, "TemplateSolver.solve", "scanner loop", f"{len(loops)} while loops")
        return
    lp, start, its = loops[0]
    pa = [a.arg for a in fn.args.args]
    text = pa[1] if len(pa) > 1 else "expr"
    C = f"{text}@loop1"
    outs = {k for q in its for k in q.env if k != text and norm(q.env[k]).startswith(k + "@loop1 + ")}
    if len(outs) != 1:
        ctx.unrecognised(TS, "TemplateSolver.solve", "scanner loop", f"output accumulator not identified: {sorted(outs)}")
        return
    outv = outs.pop()
    O = f"{outv}@loop1"
    P, REQ = "Parser#1", "self.env.request#1"
    res = {"literal": [], "gate": [], "consume": [], "one": [], "order": [], "render": [], "parser": []}
    unk = []
    for q in its:
        ev = q.events[start:]
        brace = sub = None
        gate_txt = None
        for t in [e for e in ev if e.kind == "test"]:
            k, val = norm(t.resolved), t.extra
            if isinstance(t.resolved, ast.UnaryOp) and isinstance(t.resolved.op, ast.Not):
                k, val = norm(t.resolved.operand), not val
            if k == f"{C}[0] == '{{'":
                brace = val
            elif k == f"{C}[0] != '{{'":
                brace = not val
            elif k.startswith(f"{P}.value_ref") and sub is None:
                sub, gate_txt = val, k
        got_out, got_rest = norm(q.env.get(outv)), norm(q.env.get(text))
        if brace is None:
            unk.append("no test of the current character against '{'")
            continue
        if brace and sub is None:
            unk.append("brace path without a test of the parsed reference")
            continue
        if brace:
            calls = [e for e in ev if e.kind == "call" and e.extra == P]
            okp = len(calls) == 1 and norm(calls[0].resolved) in (f"Parser(code={C}[1:], **{{'keyword': 'expr'}})", f"Parser(code={C}[1:], keyword='expr')")
            res["parser"].append(okp)
            res["gate"].append(gate_txt)
            parts = [norm(e.resolved) for e in ev if e.kind == "expr" and norm(e.resolved).startswith(P + ".part_")]
            res["order"].append(parts)
        if not brace or not sub:
            res["literal"].append((got_out == f"{O} + {C}[0]" and got_rest == f"{C}[1:]", got_out, got_rest))
            continue
        res["consume"].append((got_rest == f"{P}.ccode[1:]", got_rest))
        rq = [e for e in ev if e.kind == "call" and e.extra == REQ]
        res["one"].append((len(rq) == 1 and norm(rq[0].resolved) == f"self.env.request({P}.value_ref, count=1)", [norm(e.resolved) for e in rq]))
        tests = {norm(t.resolved): t.extra for t in ev if t.kind == "test"}
        sl = tests.get(f"{P}.value_slice")
        if sl is None:
            unk.append("no test of the parsed slice")
            continue
        if sl:
            tok = f"{REQ}[0].slice_value#1"
            sc = [e for e in ev if e.kind == "call" and e.extra == tok]
            V = tok if len(sc) == 1 and norm(sc[0].resolved) == f"{REQ}[0].slice_value({P}.value_slice)" else None
        else:
            V = f"{REQ}[0].value"
        if V is None:
            unk.append("sliced value not recognised")
            continue
        typed = tests.get(f"isinstance({V}, Type)")
        fmt = tests.get(f"{P}.formating")
        if typed is None or fmt is None:
            unk.append("no test of the value type / format spec")
            continue
        V2 = V + ".value" if typed else V
        want = f"{O} + ('{{0' + {P}.formating + '}}').format({V2})" if fmt else f"{O} + str({V2})"
        res["render"].append((got_out == want, got_out, want))
    if unk:
        ctx.unrecognised(TS, "TemplateSolver.solve", "scanner iteration", sorted(set(unk))[0])
        return
    nm = "TemplateSolver.solve"
    ctx.check(bool(res["render"]) and all(r[0] for r in res["render"]), TS, nm, "a format spec is applied as '{0<spec>}'.format(value), i.e. format(value, spec)",
              detail=[r[1] for r in res["render"] if not r[0]][:2] or None, expected=[r[2] for r in res["render"] if not r[0]][:2] or None)
    ctx.holds(TS, nm, "without a spec the value is rendered with str()", detail=f"{len(res['render'])} substitution paths compared")
    gates = set(res["gate"])
    if gates == {f"{P}.value_ref and {P}.ccode[0] == '}}'"}:
        ctx.holds(TS, nm, "a reference is substituted only when it is closed by '}'", detail=sorted(gates))
    elif gates and all(g == f"{P}.value_ref" or "ccode" not in g for g in gates):
        ctx.violated(TS, nm, "a reference is substituted only when it is closed by '}'", detail=sorted(gates), expected="p.value_ref and p.ccode[0] == '}'")
    else:
        ctx.unrecognised(TS, nm, "a reference is substituted only when it is closed by '}'", f"gate {sorted(gates)}")
    ctx.check(bool(res["consume"]) and all(c[0] for c in res["consume"]), TS, nm, "the substituted text (and its closing brace) is consumed exactly once",
              detail=sorted({c[1] for c in res["consume"]}), expected="expr = p.ccode[1:]")
    ctx.check(bool(res["one"]) and all(c[0] for c in res["one"]), TS, nm, "a template reference must select exactly one node",
              detail=res["one"][0][1] if res["one"] else None, expected="self.env.request(p.value_ref, count=1)")
    ctx.check(bool(res["literal"]) and all(c[0] for c in res["literal"]), TS, nm, "anything else is copied literally",
              detail=[(c[1], c[2]) for c in res["literal"] if not c[0]][:2] or None, expected=(f"{O} + {C}[0]", f"{C}[1:]"))
    want_order = [f"{P}.part_reference()", f"{P}.part_slice()", f"{P}.part_format()"]
    ctx.check(bool(res["order"]) and all(o == want_order for o in res["order"]), TS, nm, "reference, then slice, then format are parsed in that order",
              detail=res["order"][0] if res["order"] else None)
    ctx.form(bool(res["parser"]) and all(res["parser"]), TS, nm, "typed values are unwrapped before formatting")


def r7_custom_unit_factor(ctx):
    reg = ctx.fn(UE, "UnitEnvironment.__init__")
    app = ctx.fn(UL, "UnitList.append")

    def mag_expr(fn):
        for d in ast.walk(fn):
            if isinstance(d, ast.Dict):
                for k, v in zip(d.keys, d.values):
                    if isinstance(k, ast.Constant) and k.value == "magnitude":
                        return v
        return None
    a, b = mag_expr(reg), mag_expr(app)
    if a is None or b is None:
        ctx.unrecognised(UL, "UnitList.append", "factor", "dictionary entry 'magnitude' not found in one of the two registration paths")
        return
    try:
        ta, tb = SymEval().ev(a), SymEval().ev(b)
    except NotSymbolic as e:
        ctx.unrecognised(UL, "UnitList.append", "factor", str(e))
        return
    want = SymEval().ev(ast.parse("unit.magnitude.value * unit.baseunits.magnitude", mode="eval").body)
    ctx.form(ta.equals(want), UE, "UnitEnvironment.__init__", "a Quantity definition registers value * unit factor (base units)", detail=ta.key(), expected=want.key())
    ctx.check(tb.equals(want), UL, "UnitList.append", "a DIP $unit definition records value * unit factor (base units), like the quantity path", detail=tb.key(), expected=want.key())
    un = ctx.fn(ND + "node_unit.py", "UnitNode.parse")
    s = norm(un).replace("\n", " ")
    ctx.form("unit = Quantity(float(parser.value_raw), parser.units_raw)" in s and "with UnitEnvironment(env.units):" in s, ND + "node_unit.py", "UnitNode.parse",
             "a unit definition is evaluated with the units defined before it in scope")


TNUM = "src/scinumtools/dip/datatypes/type_number.py"


def _ret_exprs(fn):
    return [r.value for r in ast.walk(fn) if isinstance(r, ast.Return) and r.value is not None]


def _isclose_calls(node):
    return [c for c in ast.walk(node) if isinstance(c, ast.Call) and dotted_name(c.func) in ("np.isclose", "isclose", "math.isclose", "numpy.isclose")]


def _tolerances(call):
    """(rtol, atol) texts of an isclose call: keywords, or positions 3 and 4 of np.isclose(a, b, rtol, atol)."""
    kw = {k.arg: norm(k.value) for k in call.keywords if k.arg}
    rtol = kw.get("rtol", kw.get("rel_tol"))
    atol = kw.get("atol", kw.get("abs_tol"))
    if dotted_name(call.func) in ("np.isclose", "numpy.isclose", "isclose"):
        if rtol is None and len(call.args) >= 3:
            rtol = norm(call.args[2])
        if atol is None and len(call.args) >= 4:
            atol = norm(call.args[3])
    return rtol, atol


def r8_comparisons(ctx):
    K.identity_of_values(ctx, ['src/scinumtools/dip/datatypes', 'src/scinumtools/dip/solvers'], 'comparisons are decided by value, not by object identity')
    from ..literal import Evaluator
    smod = ctx.repo.module("src/scinumtools/dip/settings.py")
    prec = Evaluator(ctx.repo, smod).ev(ctx.repo.class_attr(smod, smod.classes["Numeric"], "PRECISION")[1])
    ctx.check(prec == 1e-6, "src/scinumtools/dip/settings.py", "Numeric", "equality tolerance is 1e-6 (relative)", detail=prec)
    c = ctx.repo.cls(TNUM, "NumberType")
    ms = methods(c)
    # equality: every numeric return is an isclose with the relative tolerance
    eq = ms.get("__eq__")
    calls = [c2 for name in ("__eq__", "__le__", "__ge__") if ms.get(name) is not None for c2 in _isclose_calls(ms[name])]
    ctx.form(bool(_isclose_calls(eq)) if eq is not None else False, TNUM, "NumberType.__eq__", "numeric equality is a tolerant comparison (isclose)")
    for c2 in calls:
        rtol, atol = _tolerances(c2)
        what = "tolerant comparisons use the relative tolerance Numeric.PRECISION and no wider absolute tolerance than NumPy's default 1e-8"
        if rtol is not None and rtol not in ("Numeric.PRECISION", "1e-06", "1e-6"):
            ctx.violated(TNUM, "NumberType", what, detail=norm(c2)[:90], expected="rtol=Numeric.PRECISION")
        elif atol is not None and atol in ("Numeric.PRECISION", "1e-06", "1e-6", "rtol"):
            ctx.violated(TNUM, "NumberType", what, detail=f"{norm(c2)[:90]}: absolute tolerance {atol}: values below 1e-6 in the node's unit all compare equal", expected="atol left at its default")
        else:
            ctx.form(rtol is not None and atol in (None, "0", "0.0", "1e-08", "1e-8"), TNUM, "NumberType", what, detail=norm(c2)[:90])
    # inequality: negation of the tolerant equality
    ne = ms.get("__ne__")
    if ne is None:
        ctx.violated(TNUM, "NumberType", "__ne__", detail="missing")
    else:
        src = norm(ne)
        neg_eq = "not self.__eq__(other)" in src or "not self == other" in src or (bool(_isclose_calls(ne)) and "not " in src)
        exact = any(isinstance(x, ast.Compare) and isinstance(x.ops[0], ast.NotEq) and {norm(x.left), norm(x.comparators[0])} == {"left", "right"} for x in ast.walk(ne))
        if neg_eq and not exact:
            ctx.holds(TNUM, "NumberType.__ne__", "inequality is the negation of the tolerant equality")
        elif exact:
            ctx.violated(TNUM, "NumberType.__ne__", "inequality is the negation of the tolerant equality", detail="exact `left != right`",
                         expected="a value equal within 1e-6 must not also be unequal")
        else:
            ctx.unrecognised(TNUM, "NumberType.__ne__", "shape", src[:120])
    for m, op in (("__lt__", ast.Lt), ("__gt__", ast.Gt)):
        f = ms.get(m)
        cmps = [x for r in _ret_exprs(f) for x in ast.walk(r) if isinstance(x, ast.Compare)] if f is not None else []
        ok = len(cmps) == 1 and isinstance(cmps[0].ops[0], op) and norm(cmps[0].left) == "left" and norm(cmps[0].comparators[0]) == "right"
        ctx.check(ok, TNUM, f"NumberType.{m}", "strict comparison of (left, right) in that order", detail=[norm(x) for x in cmps])
        widened = [norm(x)[:80] for r in (_ret_exprs(f) if f is not None else []) for x in _isclose_calls(r)]
        if widened:
            ctx.violated(TNUM, f"NumberType.{m}", "a strict comparison is not widened by the equality tolerance", detail=widened,
                         expected="left " + ("<" if op is ast.Lt else ">") + " right alone: a value on the bound does not satisfy a strict bound")
        else:
            ctx.holds(TNUM, f"NumberType.{m}", "a strict comparison is not widened by the equality tolerance")
    for m, op in (("__le__", ast.Lt), ("__ge__", ast.Gt)):
        f = ms.get(m)
        if f is None:
            ctx.violated(TNUM, "NumberType", m, detail="missing")
            continue
        rets = _ret_exprs(f)
        cmps = [x for r in rets for x in ast.walk(r) if isinstance(x, ast.Compare)]
        calls = [x for r in rets for x in _isclose_calls(r)]
        ok = len(cmps) == 1 and isinstance(cmps[0].ops[0], op) and norm(cmps[0].left) == "left" and norm(cmps[0].comparators[0]) == "right" and len(calls) == 1 and \
            any(k.arg == "rtol" and norm(k.value) == "Numeric.PRECISION" for k in calls[0].keywords) and \
            any(isinstance(x, (ast.BinOp, ast.BoolOp)) and isinstance(getattr(x, "op", None), (ast.BitOr, ast.Or)) for r in rets for x in ast.walk(r))
        ctx.check(ok, TNUM, f"NumberType.{m}", "strict comparison OR tolerant equality", detail=[norm(r)[:90] for r in rets])
    # operands are brought to a common unit before comparing
    pr = ms.get("_prepare")
    src = norm(pr) if pr is not None else ""
    ctx.check(src.count("self.convert(other.unit)") >= 2 and "other.convert(self.unit)" in src, TNUM, "NumberType._prepare",
              "numeric operands are converted to a common unit before they are compared", detail=None)


def r9_stateless_atoms(ctx):
    """The value of an expression is a function of its text and the environment: the DIP solver objects keep no state
    that one atom's evaluation leaves for the next (only the constructor binds fields)."""
    MUT = {"append", "extend", "insert", "pop", "remove", "clear", "update", "setdefault", "popitem", "add", "discard"}
    n = 0
    for f, cname in (("logical_solver.py", "LogicalSolver"), ("numerical_solver.py", "NumericalSolver"), ("template_solver.py", "TemplateSolver"),
                     ("function_solver.py", "FunctionSolver")):
        rel = "src/scinumtools/dip/solvers/" + f
        try:
            c = ctx.repo.cls(rel, cname)
        except AnalysisError:
            continue
        for mname, fn in methods(c).items():
            if mname in ("__init__", "__enter__", "__exit__"):
                continue
            n += 1
            ctx.functions_analysed.add(f"{rel}::{cname}.{mname}")
            writes = []
            for x in ast.walk(fn):
                if isinstance(x, (ast.Attribute, ast.Subscript)) and isinstance(x.ctx, (ast.Store, ast.Del)):
                    d = norm(x)
                    if d.startswith("self.") and not d.startswith("self.env"):
                        writes.append(d)
                if isinstance(x, ast.Call) and isinstance(x.func, ast.Attribute) and x.func.attr in MUT and norm(x.func.value).startswith("self.") \
                        and not norm(x.func.value).startswith("self.env"):
                    writes.append(norm(x)[:60])
            ctx.check(not writes, rel, f"{cname}.{mname}", "evaluation leaves no state on the solver object (an atom's value does not depend on atoms evaluated before)",
                      detail=writes or None)
    ctx.floor("solver methods scanned for state", n, 8)


FORMAT_SPECS = (":e", ":d", ":s", ":f", ":b", ":.3e", ":05d", ":.2f", ":10.3f", ":6s", ":3d", ":.0f")


def _format_pattern(ctx):
    """`{{ref}:spec}`: the pattern that recognises the spec is a literal; whether it accepts a spec is a property of that
    regular expression alone (decided on the pattern, nothing of the repository is run).  Every spec of the frozen
    table - type letters of format() with optional width and precision, as used in the documentation - has to be
    taken in full, otherwise the template solver meets ':' where it expects '}' and leaves the placeholder as text."""
    import re as _re
    rel = "src/scinumtools/dip/nodes/parser.py"
    fn = ctx.fn(rel, "Parser.part_format")
    pats = [c.args[0] for c in ast.walk(fn) if isinstance(c, ast.Call) and dotted_name(c.func) in ("re.match", "re.compile", "re.search", "re.fullmatch") and c.args]
    lit = [p_.value for p_ in pats if isinstance(p_, ast.Constant) and isinstance(p_.value, str)]
    if len(lit) != 1:
        ctx.form(False, rel, "Parser.part_format", "the format-spec pattern is a single literal", detail=[norm(p_) for p_ in pats])
        return
    try:
        rx = _re.compile(lit[0])
    except _re.error as e:
        ctx.violated(rel, "Parser.part_format", "the format-spec pattern is a valid regular expression", detail=str(e))
        return
    bad = []
    for spec in FORMAT_SPECS:
        m = rx.match(spec + "}")
        if not m or m.group(0) != spec:
            bad.append(f"{spec}: " + ("not recognised" if not m else f"only {m.group(0)!r} taken"))
    ctx.check(not bad, rel, "Parser.part_format", "every documented format spec (type letter with optional width/precision) is recognised in full",
              detail=bad or None, expected=f"pattern {lit[0]!r} accepts each of {list(FORMAT_SPECS)}")


def r10_current_values(ctx):
    """A reference inside an expression stands for the node's current value.  Re-assignments update the typed value
    (`node.value`) only; `value_raw`/`units_raw` keep the text of the first occurrence.  So an operand built from a
    requested node reads `node.value.value` / `node.value.unit` (or the typed value itself), never the raw fields."""
    from ..flowexpr import paths
    n = 0
    for rel, q in ((NS, "NumericalSolver._parse_atom"), (LS, "LogicalSolver._eval_node"), (TS, "TemplateSolver.solve")):
        fn = ctx.fn(rel, q)
        raw, typed = set(), set()
        for pth in paths(fn):
            for e in pth.events:
                if e.resolved is None or not isinstance(e.resolved, ast.AST):
                    continue
                for a in ast.walk(e.resolved):
                    if isinstance(a, ast.Attribute) and ".request(" in norm(a.value):
                        if a.attr in ("value_raw", "units_raw"):
                            raw.add(norm(a)[:90])
                        elif a.attr == "value":
                            typed.add(norm(a)[:90])
        n += 1
        what = "an operand taken from a referenced node is its typed current value, not the raw text of its first occurrence"
        if raw:
            ctx.violated(rel, q, what, detail=sorted(raw), expected="<requested node>.value.value / .value.unit")
        else:
            ctx.form(bool(typed), rel, q, what, detail="no read of a requested node's value found")
    ctx.floor("solvers scanned for the source of referenced operands", n, 3)


RULES = [
    ("C18.R1", "DIP solver configurations: maximal munch, handler exhaustiveness, default step order, blank-delimited symbols, documented priorities and function names", r1_configurations),
    ("C18.R2", "sign rewriting of the DIP copies = sign algebra (sibling decision tables with quantities as atoms)", r2_sign_siblings),
    ("C18.R3", "unit-aware add/sub: refusal of different dimensions precedes conversion of the right operand; result L op R", r3_unit_add),
    ("C18.R4", "solver boundary: numbers stored on every path, integer rounding, conversions inside the custom-unit scope, guarded booleans, negation table", r4_boundary_kinds),
    ("C18.R5", "no unit scope is re-entered from its own body", r5_no_nested_scope),
    ("C18.R6", "template formatting and brace/consumption discipline", r6_templates),
    ("C18.R7", "custom unit factors are recorded in base units by both registration paths", r7_custom_unit_factor),
    ("C18.R9", "solver objects are stateless between atoms and expressions: no method other than the constructor writes a field of the solver", r9_stateless_atoms),
    ("C18.R10", "operands taken from referenced nodes are the typed current value (value.value / value.unit), never value_raw / units_raw, which re-assignments do not update", r10_current_values),
    ("C18.R8", "comparison semantics: == isclose(rtol=1e-6); != its negation; < > strict in (left, right) order; <= >= strict-or-tolerant; common unit first", r8_comparisons),
]
