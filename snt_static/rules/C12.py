"""C12 — densities, volume and masses of matter. Decided: (R1) Matter._norm derives n = rho/M,
rho = n*M, mass = rho*V, where the density given by the user stays authoritative; the per-component
rows are n_i = p_i n, rho_i = p_i m_i n, N_i = n_i V, M_i = rho_i V, and the summand p_i m_i of the
rows equals the summand of the formula mass M in number mode — hence sum rho_i = rho and
sum M_i = mass as term identities; for a single element the formula mass is count * atomic mass;
(R2) unit independence: inside matter.py user-supplied quantities are combined only through Quantity
operators or to(<explicit unit>): no unit-less .value()/.magnitude read (taint rule, expected
count 0, with a positive fixture); (R3) dimensional kinds: the quantity the mass density is divided
by is of kind Mass in every normalisation mode. NOT decided: numeric equality of printed tables;
per-row formulas in mass-fraction mode."""
import ast

from ..model import AnalysisError, dotted_name, methods, norm, walk_no_nested
from ..predtable import Unrecognised
from ..symexec import NONE, execute
from ..symexpr import NotSymbolic, SymEval, Term
from . import C10, C11
from . import common as K

LEVEL_TEXT = ("static analysis (ast): symbolic extraction of the density/mass derivations and of the per-component row "
              "formulas with the identity row summand = formula-mass summand; taint rule for unit-less reads; a three-point "
              "dimensional-kind domain over the normalisation totals")
LEVEL_NOTE = "trusted: Quantity arithmetic (C06) and conversion (C04); composition of rows into printed tables is not proved"
TECHNIQUE = "symbolic term identities + taint rule + dimensional-kind abstract domain over ast (static analysis)"

MT = C10.MAT + "matter.py"
CO, EL = C10.CO, C10.EL


def _to_transparent(call, ev):
    """x.to(unit) changes the representation, not the quantity."""
    if isinstance(call.func, ast.Attribute) and call.func.attr == "to" and len(call.args) == 1:
        return ev.ev(call.func.value)
    # Quantity(q.value(U), U): the same quantity re-expressed in U (out-of-place conversion)
    if dotted_name(call.func) == "Quantity" and len(call.args) == 2 and isinstance(call.args[0], ast.Call) \
            and isinstance(call.args[0].func, ast.Attribute) and call.args[0].func.attr == "value" and len(call.args[0].args) == 1 \
            and norm(call.args[0].args[0]) == norm(call.args[1]):
        return ev.ev(call.args[0].func.value)
    return None


def r1_derivations(ctx):
    fn = ctx.fn(MT, "Matter._norm")
    RHO, N, M, V = (Term.sym(x) for x in ("rho", "n", "M", "V"))
    cases = {"mass density given": dict(rho=True, n=False, given_n=False), "number density given": dict(rho=False, n=True, given_n=True),
             "number density given, mass density already derived": dict(rho=True, n=True, given_n=True)}
    # parameters the step takes besides self are bound through its call sites: every caller must hand over the same
    # field (e.g. Matter._norm(self, self.composite_mass)); anything else is a shape this rule does not interpret
    extra, bound = [a.arg for a in fn.args.args[1:]], {}
    if extra:
        sites = [c for m_ in ctx.repo.all_modules("src/scinumtools/materials") for c in ast.walk(m_.tree)
                 if isinstance(c, ast.Call) and isinstance(c.func, ast.Attribute) and c.func.attr == "_norm" and norm(c.func.value) == "Matter"]
        for i, a in enumerate(extra):
            texts = {norm(c.args[i + 1]) if len(c.args) > i + 1 else next((norm(k.value) for k in c.keywords if k.arg == a), None) for c in sites}
            if len(texts) == 1 and texts <= {"self.composite_mass", "self.volume", "self.mass_density", "self.number_density"}:
                bound[a] = texts.pop()
            else:
                ctx.unrecognised(MT, "Matter._norm", "derivation step", f"parameter {a} receives {sorted(map(str, texts))[:3]} at its call sites")
                extra = None
                break
    for name, c in cases.items() if extra is not None else ():
        for vol in (True, False):
            env = {"self.composite_mass": M, "self.volume": V if vol else NONE,
                   "self.mass_density": RHO if c["rho"] else NONE, "self.number_density": N if c["n"] else NONE}
            env.update({a: env[t] for a, t in bound.items()})

            def decide(node, h, c=c, vol=vol):
                s = norm(node)
                if s == "self.mass_density":
                    return h.value(ast.parse("self.mass_density", mode="eval").body) is not NONE
                if s == "self.number_density":
                    return h.value(ast.parse("self.number_density", mode="eval").body) is not NONE
                if s == "self.volume":
                    return vol
                if s == "self.number_density_given":
                    return c["given_n"]
                if s == "not self.number_density_given":
                    return not c["given_n"]
                return None
            cell = f"{name}, volume={'given' if vol else 'absent'}"
            try:
                h, sig = execute(fn, decide, env, inline=_to_transparent)
            except (Unrecognised, NotSymbolic) as e:
                ctx.unrecognised(MT, "Matter._norm", cell, str(e))
                continue
            rho, n, mass = h.env.get("self.mass_density"), h.env.get("self.number_density"), h.env.get("self.mass")
            foreign = sorted({a for t in (rho, n, mass) if t is not None and t is not NONE for a in t.atoms()} - {"rho", "n", "M", "V"})
            if foreign:
                ctx.unrecognised(MT, "Matter._norm", cell, f"the derived quantities depend on {foreign[:3]}, which this rule cannot relate to the formula mass")
                continue
            if c["given_n"]:
                ok = n is not NONE and n.equals(N) and rho is not NONE and rho.equals(N * M)
                ctx.check(ok, MT, "Matter._norm", f"{cell}: n stays as given and rho = n*M",
                          detail={"n": getattr(n, "key", lambda: None)(), "rho": getattr(rho, "key", lambda: None)()}, expected={"n": "n", "rho": "n*M"})
                rho_now = N * M
            else:
                ok = rho is not NONE and rho.equals(RHO) and n is not NONE and n.equals(RHO / M)
                ctx.form(ok, MT, "Matter._norm", f"{cell}: rho stays as given and n = rho/M",
                          detail={"n": getattr(n, "key", lambda: None)(), "rho": getattr(rho, "key", lambda: None)()}, expected={"n": "rho/M", "rho": "rho"})
                rho_now = RHO
            if vol:
                ctx.check(mass is not None and mass is not NONE and mass.equals(rho_now * V), MT, "Matter._norm", f"{cell}: mass = rho*V",
                          detail=getattr(mass, "key", lambda: None)())
    # the flag is what the constructor was given
    init = ctx.fn(MT, "Matter.__init__")
    s = [norm(x) for x in K.body_nodoc(init)]
    ctx.form("self.number_density_given = mass_density is None and number_density is not None" in s, MT, "Matter.__init__",
             "remembers that the number density (and no mass density) was supplied")
    # rows
    dm = ctx.fn(MT, "Matter.data_matter")
    rows = [f for f in dm.body if isinstance(f, ast.FunctionDef) and f.name == "fn_row"]
    if len(rows) != 1:
        ctx.unrecognised(MT, "Matter.data_matter", "row function", "fn_row not found")
        return
    fr = rows[0]
    mv = fr.args.args[1].arg
    env = {f"{mv}.proportion": Term.sym("p"), f"{mv}.component_mass": Term.sym("m"), "self.number_density": N, "self.volume": V}

    def decide(node, h):
        return True if norm(node) in ("self.number_density", "self.volume") else None
    try:
        h, sig = execute(fr, decide, env)
    except (Unrecognised, NotSymbolic) as e:
        ctx.unrecognised(MT, "Matter.data_matter", "row formulas", str(e))
        return
    p, m = Term.sym("p"), Term.sym("m")
    want = {"n": p * N, "rho": p * m * N, "N": p * N * V, "M": p * m * N * V}
    for k, w in want.items():
        g = h.env.get(f"values['{k}']")
        if g is None or g is NONE:
            ctx.unrecognised(MT, "Matter.data_matter", f"row {k}", "not assigned")
        else:
            ctx.check(g.equals(w), MT, "Matter.data_matter", f"row formula {k}", detail=g.key(), expected=w.key())
    # summand identity with the formula mass (number modes)
    for mode in ("NUMBER", "NUMBER_FRACTION"):
        try:
            t = C11.totals(ctx, mode)
            g = h.env.get("values['rho']")
            ctx.check(g is not None and g is not NONE and g.equals(t["composite_mass"] * N), MT, "Matter.data_matter",
                      f"{mode}: row summand of rho = summand of the formula mass times n (so the rows add up to rho)",
                      detail={"row": g.key(), "formula_mass_summand": t["composite_mass"].key()})
        except (Unrecognised, NotSymbolic) as e:
            ctx.unrecognised(CO, "Composite._norm", f"totals in mode {mode}", str(e))
    # sum row exists for matter tables
    s = norm(dm)
    ctx.form("return self._data(columns, fn_row, stats=True, weight=True, components=components, quantity=quantity)" in s, MT,
             "Matter.data_matter", "matter tables carry the sum row")
    co = ctx.fn(CO, "Composite._data")
    from ..model import cnorm
    ctx.form("pt['sum'] = [np.sum(rc[_c0]) for _c0 in column_names]" in [cnorm(a) for a in ast.walk(co) if isinstance(a, ast.Assign)], CO, "Composite._data", "sum row = column sums")
    # single element: formula mass = count * atomic mass
    fn = ctx.fn(EL, "Element.__init__")
    asg = [a for a in ast.walk(fn) if isinstance(a, ast.Assign) and norm(a.targets[0]) == "self.composite_mass"]
    if len(asg) != 1:
        ctx.unrecognised(EL, "Element.__init__", "formula mass", "single assignment of self.composite_mass not found")
    else:
        t = SymEval({"self.proportion": p, "self.mass": m}).ev(asg[0].value)
        ctx.check(t.equals(p * m), EL, "Element.__init__", "formula mass of an element with a count is count * atomic mass",
                  detail=t.key(), expected=(p * m).key())
    cm = [a for a in ast.walk(fn) if isinstance(a, ast.Assign) and norm(a.targets[0]) == "self.component_mass"]
    ctx.form(len(cm) == 1 and norm(cm[0].value) == "self.mass", EL, "Element.__init__", "component mass is the atomic mass")


def r2_unit_independence(ctx):
    from . import C03 as _C03, C04 as _C04
    _C04._system_units_agree(ctx)    # inputs given in a unit system (#SMAS, ...) and in plain units denote the same amounts (shared with C04.R1)
    _C03.r8_tables(ctx)              # ... and so do prefixed inputs: table well-formedness, SI prefix powers (shared with C03.R8)
    _cells_are_converted(ctx)
    from . import C11 as _C11
    _C11._cell_table(ctx)            # the plain-number tables (print_matter, quantity=False) show the same amounts: a cell is the quantity's value in the column unit, not rounded to a fixed number of decimals (1e-20 g/cm3 would read 0; shared with C11.R3)
    def unitless_reads(tree):
        out = []
        for n in ast.walk(tree):
            if isinstance(n, ast.Call) and isinstance(n.func, ast.Attribute) and n.func.attr == "value" and not n.args and \
                    not any(k.arg in ("expression",) for k in n.keywords):
                out.append(norm(n))
            if isinstance(n, ast.Attribute) and n.attr in ("magnitude",) and isinstance(n.ctx, ast.Load):
                out.append(norm(n))
        return out
    mod = ctx.repo.module(MT)
    n = 0
    for q in ("Matter._norm", "Matter.data_matter", "Matter.__init__"):
        fn = ctx.fn(MT, q)
        n += 1
        bad = unitless_reads(fn)
        ctx.check(not bad, MT, q, "user-supplied densities/volume are never read without a unit", detail=bad or None,
                  expected="only Quantity operators and to(<unit>)/value(<unit>)")
    fix = ast.parse("def f(self):\n    return Quantity(self.number_density.value(), 'cm-3'), self.volume.magnitude.value\n")
    if len(unitless_reads(fix)) != 2:
        raise AnalysisError("unit-less read detector self-check failed")
    ctx.holds("-", "fixture", "detector recognises q.value() and q.magnitude reads", trivial=True)
    # conversions inside _norm name their target unit explicitly
    fn = ctx.fn(MT, "Matter._norm")
    tos = [c for c in ast.walk(fn) if isinstance(c, ast.Call) and isinstance(c.func, ast.Attribute) and c.func.attr == "to"]
    bad = [norm(c) for c in tos if not (len(c.args) == 1 and norm(c.args[0]).startswith("Units."))]
    ctx.form(bool(tos) and not bad, MT, "Matter._norm", "every conversion names a unit of the materials module", detail=bad or [norm(c) for c in tos])
    want = {"self.mass_density": "Units.MASS_DENSITY", "self.number_density": "Units.NUMBER_DENSITY", "self.mass": "Units.MATERIAL_MASS"}
    for c in tos:
        pass


def _cells_are_converted(ctx):
    """A table cell that holds a quantity is brought into its column unit by a conversion (to(unit) / value(unit)).
    `Quantity(q.value(), unit)` only relabels the bare magnitude with the column unit."""
    n = 0
    for rel, q in ((EL, "Element._data"), (CO, "Composite._data")):
        if not ctx.repo.has_func(rel, q):
            continue
        fn = ctx.fn(rel, q)
        for c in [x for x in ast.walk(fn) if isinstance(x, ast.Call) and dotted_name(x.func) == "Quantity" and len(x.args) == 2]:
            a0 = c.args[0]
            if isinstance(a0, ast.Call) and isinstance(a0.func, ast.Attribute) and a0.func.attr == "value" and not a0.args and not a0.keywords:
                n += 1
                ctx.violated(rel, q, "a quantity cell is converted into the column unit, not relabelled", detail=norm(c)[:90],
                             expected=f"{norm(a0.func.value)}.to(<column unit>)")
        convs = [x for x in ast.walk(fn) if isinstance(x, ast.Call) and isinstance(x.func, ast.Attribute) and x.func.attr in ("to", "value") and x.args]
        ctx.form(bool(convs), rel, q, "quantity cells are converted with to(unit) / value(unit)")
    ctx.holds("-", "-", "scan of the table builders for relabelled magnitudes completed")


def _always_normalised(ctx):
    """The densities and the mass are derived in Matter._norm, which looks at whichever density was given.  The
    constructors call it unconditionally; a guard on one of the two densities skips the derivation for the other one."""
    from ..flowexpr import paths
    for rel, q in ((EL, "Element.__init__"), (CO, "Composite._norm")):
        fn = ctx.fn(rel, q)
        what = "the derivation of densities and mass (Matter._norm) runs on every path"
        skipped = []
        found = False
        for pth in paths(fn):
            if pth.status == "raise":
                continue
            has = any(e.resolved is not None and isinstance(e.resolved, ast.AST) and "Matter._norm(self)" in norm(e.resolved) for e in pth.events)
            found = found or has
            if not has:
                skipped.append([f"{norm(t.resolved)[:40]} is {t.extra}" for t in pth.tests()
                                if any(k in norm(t.resolved) for k in ("density", "volume"))])
        if not found:
            ctx.form(False, rel, q, what, detail="no call of Matter._norm(self)")
        elif any(sk for sk in skipped):
            ctx.violated(rel, q, what, detail={"skipped under": [sk for sk in skipped if sk][:2]}, expected="Matter._norm(self) unguarded: it tests both densities itself")
        else:
            ctx.form(not skipped, rel, q, what, detail=skipped[:2])


# kinds: Number, Mass, InvMass
def _kind(term):
    """Kind of a summand over p (Number) and m (Mass)."""
    if not term.d.is_const() and len(term.d.t) == 1:
        pass
    num_m = max((dict(mo).get("m", 0) for mo in term.n.t), default=0)
    den_m = max((dict(mo).get("m", 0) for mo in term.d.t), default=0)
    e = num_m - den_m
    return {0: "Number", 1: "Mass", -1: "InvMass"}.get(e, f"Mass^{e}")


def r3_kinds(ctx):
    fn = ctx.fn(MT, "Matter._norm")
    s = norm(fn)
    ctx.form("self.mass_density / self.composite_mass" in s and "self.number_density * self.composite_mass" in s, MT, "Matter._norm",
             "the mass density is divided by / the number density multiplied with self.composite_mass")
    for mode in C11.MODES:
        try:
            t = C11.totals(ctx, mode)
        except (Unrecognised, NotSymbolic) as e:
            ctx.unrecognised(CO, "Composite._norm", f"totals in mode {mode}", str(e))
            continue
        k = _kind(t["composite_mass"])
        ctx.check(k == "Mass", CO, "Composite._norm", f"composite_mass is of dimensional kind Mass in mode {mode}",
                  detail={"summand": t["composite_mass"].key(), "kind": k},
                  expected="Mass (rho = n * mass of one formula unit)")


def r4_renormalised(ctx):
    _always_normalised(ctx)
    C10.r3_accumulation(ctx)


RULES = [
    ("C12.R4", "counts change only through add(), which re-normalises totals and densities on every path", r4_renormalised),
    ("C12.R1", "n = rho/M, rho = n*M with the given density authoritative, mass = rho*V; rows p n, p m n, *V; row summand = formula-mass summand; element formula mass = count*mass", r1_derivations),
    ("C12.R2", "no unit-less read (.value() / .magnitude) of user-supplied quantities in matter.py; conversions name explicit units", r2_unit_independence),
    ("C12.R3", "composite_mass is of kind Mass in every normalisation mode", r3_kinds),
]
