"""C01 — structural clauses of the expression solver, decided from the source:
step table = documentation = property order; operator table and symbols; maximal-munch
order of every operator dict; handler exhaustiveness of the dispatch; left-to-right scan
discipline of the token buffers; operator/atom semantics as normal forms; unary-sign
decision tables against the sign algebra; parenthesis-scanner decision table and cursor
discipline; tokeniser cursor discipline. NOT decided: that these clauses compose to the
right value for every expression, floating-point results, user-defined atoms. Also decided: every configured operator named by a step takes part in that step's pass (no further filter), and the isinstance dispatch of a pass agrees with the operator class hierarchy (no operator class derives from one listed in an earlier step)."""
import ast

from ..doctables import csv_table
from ..literal import ClassRef
from ..model import AnalysisError, dotted_name, methods, norm, walk_no_nested
from ..predtable import Handler, Unrecognised, isinstance_args, run_block
from ..solvercfg import OPERATORS, SOLVER, TOKENS, all_configs, default_config
from . import common as K

from . import C02 as _C02

LEVEL_TEXT = ("static analysis (ast): literal tables, decision tables and normal forms of the solver's "
              "step table, operator table, dispatch, token-buffer discipline, sign rewriting and parenthesis "
              "scanner are extracted from the current source and compared with oracles taken from the property "
              "statement and the documentation; decides necessary structural clauses for all operators and all "
              "six solver configurations, not the value of every expression")
LEVEL_NOTE = ("trusted: Python semantics of the interpreted statement kinds; oracle tables A1-A3 of DESIGN.md; "
              "atoms supplied by users are assumed stateless and total")
TECHNIQUE = "ast decision-table / normal-form extraction with oracle comparison (static analysis)"

DOCS = "docs/source/solver/index.rst"
EXPR = "src/scinumtools/solver/expression.py"
ATOM = "src/scinumtools/solver/atom.py"

# oracle A1: order of the property statement (= documentation)
A1 = [("ARGS", {"log", "log10", "logb", "exp", "sqrt", "powb", "sin", "cos", "tan", "par"}),
      ("UNARY", {"add", "sub"}), ("BINARY", {"pow"}), ("BINARY", {"mul", "truediv"}),
      ("BINARY", {"add", "sub"}), ("BINARY", {"eq", "ne", "le", "ge", "lt", "gt"}),
      ("UNARY", {"not"}), ("BINARY", {"and"}), ("BINARY", {"or"})]
DOC_TYPE = {"parenthesis": "ARGS", "unary": "UNARY", "binary": "BINARY"}
# oracle A2
A2_SYMBOL = {"add": "+", "sub": "-", "mul": "*", "truediv": "/", "pow": "**", "par": "(",
             "eq": "==", "ne": "!=", "le": "<=", "ge": ">=", "lt": "<", "gt": ">",
             "and": "&&", "or": "||", "not": "!", "exp": "exp(", "log": "log(", "log10": "log10(",
             "logb": "logb(", "sqrt": "sqrt(", "powb": "pow(", "sin": "sin(", "cos": "cos(", "tan": "tan("}
A2_NARG = {"logb": 2, "powb": 2}
A2_BINARY = {"add": ("bin", "Add"), "sub": ("bin", "Sub"), "mul": ("bin", "Mult"), "truediv": ("bin", "Div"),
             "pow": ("bin", "Pow"), "eq": ("cmp", "Eq"), "ne": ("cmp", "NotEq"), "le": ("cmp", "LtE"),
             "ge": ("cmp", "GtE"), "lt": ("cmp", "Lt"), "gt": ("cmp", "Gt"),
             "and": ("meth", "logical_and"), "or": ("meth", "logical_or")}
A2_ARGS = {"par": "A0", "exp": "(atom(e) ** A0)", "log": "A0.log()", "log10": "A0.log10()", "sqrt": "A0.sqrt()",
           "sin": "A0.sin()", "cos": "A0.cos()", "tan": "A0.tan()", "logb": "(A0.log() / A1.log())",
           "powb": "(A0 ** A1)"}
ATOM_DUNDER = {"__add__": ("bin", "Add"), "__sub__": ("bin", "Sub"), "__mul__": ("bin", "Mult"),
               "__truediv__": ("bin", "Div"), "__pow__": ("bin", "Pow"), "__eq__": ("cmp", "Eq"),
               "__ne__": ("cmp", "NotEq"), "__le__": ("cmp", "LtE"), "__ge__": ("cmp", "GtE"),
               "__lt__": ("cmp", "Lt"), "__gt__": ("cmp", "Gt"), "logical_and": ("bool", "And"),
               "logical_or": ("bool", "Or")}
ATOM_UNARY = {"__neg__": "(-V)", "log": "log(V)", "log10": "log10(V)", "sqrt": "sqrt(V)", "sin": "sin(V)",
              "cos": "cos(V)", "tan": "tan(V)", "logical_not": "(not bool(V))"}


# ---------------------------------------------------------------- R1
def r1_steps(ctx):
    cfg = default_config(ctx.repo)
    ctx.functions_analysed.add(f"{SOLVER}::ExpressionSolver.__init__")
    found = [(t, set(ops)) for t, ops in cfg.steps]
    ok = len(found) == len(A1)
    for i, (t, ops) in enumerate(A1):
        f = found[i] if i < len(found) else None
        ctx.check(f is not None and f[0] == t and f[1] == ops, SOLVER, "ExpressionSolver.__init__",
                  f"steps[{i}]", detail=None if f is None else [f[0], sorted(f[1])], expected=[t, sorted(ops)])
    if len(found) > len(A1):
        ctx.violated(SOLVER, "ExpressionSolver.__init__", "steps:extra", detail=[[t, sorted(o)] for t, o in found[len(A1):]],
                     expected="9 groups")
    # documentation table
    try:
        rows = csv_table(ctx.repo, DOCS, "Operation steps")
        doc = [(DOC_TYPE.get(r[0].lower(), r[0]), {x.strip() for x in r[1].split(",")}) for r in rows]
        ctx.info["doc_steps"] = [[t, sorted(o)] for t, o in doc]
        if doc != A1:
            ctx.unrecognised(DOCS, "-", "doc-table:Operation steps",
                             "documentation table disagrees with the property statement order; code is compared "
                             "with the property statement only")
        else:
            ctx.holds(DOCS, "-", "doc-table:Operation steps == property order", trivial=True)
    except AnalysisError as e:
        ctx.unrecognised(DOCS, "-", "doc-table:Operation steps", str(e))
    # the loop that applies the table
    solve = ctx.fn(SOLVER, "ExpressionSolver.solve")
    loops = [n for n in walk_no_nested(solve) if isinstance(n, ast.For) and "self.steps" in norm(n.iter)]
    if len(loops) != 1:
        ctx.unrecognised(SOLVER, "ExpressionSolver.solve", "step-loop", f"{len(loops)} loops over self.steps")
        return
    loop = loops[0]
    it = loop.iter
    while isinstance(it, ast.Call) and dotted_name(it.func) in ("enumerate", "list", "tuple", "iter") and it.args:
        it = it.args[0]
    if dotted_name(it) != "self.steps":
        if isinstance(it, ast.Call) and dotted_name(it.func) in ("reversed", "sorted"):
            ctx.violated(SOLVER, "ExpressionSolver.solve", "step-loop order", detail=norm(loop.iter),
                         expected="iteration of self.steps in list order")
        else:
            ctx.unrecognised(SOLVER, "ExpressionSolver.solve", "step-loop", f"iteration source {norm(loop.iter)}")
        return
    calls = [c for c in ast.walk(loop) if isinstance(c, ast.Call) and isinstance(c.func, ast.Attribute)
             and c.func.attr == "operate"]
    ok = len(calls) == 1 and len(calls[0].args) == 2
    # each group applied once, not under a condition that drops configured groups: the only guard is emptiness
    ctx.check(ok, SOLVER, "ExpressionSolver.solve", "step-loop applies Tokens.operate once per group",
              detail=[norm(c) for c in calls], expected="one call operate(<classes of the group>, <otype of the group>)")
    if ok:
        a1 = norm(calls[0].args[1])
        tgt = loop.target.elts[-1].id if isinstance(loop.target, ast.Tuple) else getattr(loop.target, "id", "?")
        ctx.form(a1.replace('"', "'") == f"{tgt}['otype']", SOLVER, "ExpressionSolver.solve",
                  "step-loop passes the group's own otype", detail=a1)
        # the class tuple is built from the same group's operator names, filtered only by configuration:
        # decided on the resolved first argument of operate() in one iteration of the step loop
        from ..flowexpr import explore
        ex = explore(solve)
        its = [v for v in ex.iterations.values() if v[0] is loop]
        args0 = set()
        G = None
        if its:
            lp_, start, ips = its[0]
            for q in ips:
                for e in q.events[start:]:
                    if e.resolved is None:
                        continue
                    for c in ast.walk(e.resolved):
                        if isinstance(c, ast.Call) and isinstance(c.func, ast.Attribute) and c.func.attr == "operate" and len(c.args) == 2:
                            args0.add(c.args[0])
            G = next((n.id for a in args0 for n in ast.walk(a) if isinstance(n, ast.Name) and n.id.startswith(tgt + "@loop")), None)
        base_forms = set()
        if G:
            for q_ in ('"', "'"):
                for keys in (".keys()", ""):
                    for wrap in ("tuple([{}])", "tuple({})", "[{}]", "tuple(({}))"):
                        base_forms.add(wrap.format(f"self.operators[_c0] for _c0 in {G}[{q_}operators{q_}] if _c0 in self.operators{keys}"))
        from ..model import cnorm
        texts = sorted({cnorm(a).replace('"', "'") for a in args0})
        base_forms = {b.replace('"', "'") for b in base_forms}
        if texts and all(t in base_forms for t in texts):
            ctx.holds(SOLVER, "ExpressionSolver.solve", "step-loop selects classes of the group's names", detail=texts[0])
        else:
            # a further selection applied on top of the configured classes drops operators the step table lists
            narrowed = [a for a in args0 if any(isinstance(c, (ast.ListComp, ast.GeneratorExp)) and c.generators and c.generators[0].ifs and
                                                any(cnorm(x).replace('"', "'") in base_forms for x in ast.walk(c.generators[0].iter)) for c in ast.walk(a))]
            if narrowed:
                ctx.violated(SOLVER, "ExpressionSolver.solve", "step-loop selects classes of the group's names", detail=[norm(a)[:200] for a in narrowed],
                             expected="every configured operator named by the group takes part in the group's pass (operators may be created during earlier passes)")
            else:
                ctx.unrecognised(SOLVER, "ExpressionSolver.solve", "step-loop selects classes of the group's names", f"shape not recognised: {texts[:1]}")


# ---------------------------------------------------------------- R2
def r2_operator_table(ctx):
    cfg = default_config(ctx.repo)
    names_in_steps = set().union(*[set(o) for _, o in cfg.steps])
    n = 0
    for name in sorted(names_in_steps | set(A2_SYMBOL)):
        if name not in cfg.operators:
            ctx.violated(SOLVER, "ExpressionSolver.__init__", f"operators[{name!r}]", detail="missing",
                         expected="operator used by a step is configured")
            continue
        cref = cfg.operators[name]
        sym = cfg.symbol(ctx.repo, cref)
        if name in A2_SYMBOL:
            ctx.check(sym == A2_SYMBOL[name], cref.module.relpath, cref.name, f"symbol of {name!r}", detail=sym,
                      expected=A2_SYMBOL[name])
            n += 1
        if ctx.repo.is_subclass(cref.module, cref.node, "OperatorPar"):
            narg = cfg.symbol(ctx.repo, cref, "narg")
            ctx.check(narg == A2_NARG.get(name, 1), cref.module.relpath, cref.name, f"narg of {name!r}", detail=narg,
                      expected=A2_NARG.get(name, 1))
            for attr, exp in (("symbol_open", "("), ("symbol_close", ")"), ("symbol_separator", ",")):
                v = cfg.symbol(ctx.repo, cref, attr)
                ctx.check(v == exp, cref.module.relpath, cref.name, f"{attr} of {name!r}", detail=v, expected=exp)
    ctx.floor("operator symbols", n, 24)


# ---------------------------------------------------------------- R3
def r3_maximal_munch(ctx):
    cfgs = all_configs(ctx.repo)
    ctx.floor("solver configurations", len(cfgs), 6)
    nsym = 0
    for cfg in cfgs:
        syms = [(k, cfg.symbol(ctx.repo, v)) for k, v in cfg.operators.items()]
        nsym += len(syms)
        bad = []
        for i in range(len(syms)):
            for j in range(i + 1, len(syms)):
                a, b = syms[i][1], syms[j][1]
                if a and b.startswith(a):
                    bad.append([syms[i][0], a, syms[j][0], b])
        key = "first-match order: no earlier symbol is a prefix of a later one"
        if bad:
            for b in bad:
                ctx.violated(cfg.relpath, cfg.qual, f"operator order {b[0]!r} before {b[2]!r}", detail=b,
                             expected=f"{b[2]!r} ({b[3]!r}) must be tried before {b[0]!r} ({b[1]!r})")
        else:
            ctx.holds(cfg.relpath, cfg.qual, key, detail=[s for _, s in syms])
        emp = [k for k, s in syms if not isinstance(s, str) or s == ""]
        if emp:
            ctx.violated(cfg.relpath, cfg.qual, "empty operator symbol", detail=emp)
    ctx.floor("operator symbols over all configurations", nsym, 55)
    ctx.info["symbols_checked"] = nsym
    # tokeniser iterates the dict in its own order, first match wins
    solve = ctx.fn(SOLVER, "ExpressionSolver.solve")
    loops = [n for n in walk_no_nested(solve) if isinstance(n, ast.For) and "self.operators" in norm(n.iter)]
    if len(loops) != 1:
        ctx.unrecognised(SOLVER, "ExpressionSolver.solve", "tokeniser-loop", f"{len(loops)} loops over self.operators")
        return
    it = norm(loops[0].iter)
    if it in ("self.operators.values()", "list(self.operators.values())"):
        ctx.holds(SOLVER, "ExpressionSolver.solve", "tokeniser tries operators in table order", detail=it)
    elif it.startswith(("reversed(", "sorted(")):
        ctx.violated(SOLVER, "ExpressionSolver.solve", "tokeniser tries operators in table order", detail=it,
                     expected="self.operators.values()")
    else:
        ctx.unrecognised(SOLVER, "ExpressionSolver.solve", "tokeniser-loop", f"iteration source {it}")
    has_break = any(isinstance(n, ast.Break) for st in loops[0].body for n in ast.walk(st))
    ctx.check(has_break, SOLVER, "ExpressionSolver.solve", "first matching operator wins (break)")


# ---------------------------------------------------------------- R4
def dispatch_table(ctx):
    """Decision table of one scan step of Tokens.operate over (token is one of the step's operators, step type).
    The step type is bound to each Otype member in turn and the function is partially evaluated (literal dispatch
    dicts, comparisons of enum members, getattr with a literal name fold away); the remaining test is the isinstance
    test of the scanned token.  -> {'UNARY': 'operate_unary', ..., 'default': [...actions for a non-operator...],
    'token': <expression the scanned token is taken from>}"""
    from ..flowexpr import consistent, explore
    op = ctx.fn(TOKENS, "Tokens.operate")
    pa = [a.arg for a in op.args.args]
    p_ops, p_type = (pa[1], pa[2]) if len(pa) >= 3 else ("operators", "otype")
    table = {}
    for ot in ("UNARY", "BINARY", "ARGS"):
        ex = explore(op, env={p_type: ast.parse(f"Otype.{ot}", mode="eval").body})
        loops = [v for v in ex.iterations.values() if isinstance(v[0], ast.While)]
        if len(loops) != 1:
            raise AnalysisError(f"{len(loops)} scan loops in Tokens.operate")
        lp, start, its = loops[0]
        toks = sorted({norm(e.resolved) for q in its for e in q.events[start:] if e.kind == "assign"
                       and norm(e.resolved) in ("self.right.pop(0)", "self.get_right()", "self.right.popleft()")})
        if len(toks) != 1:
            raise AnalysisError(f"scan step: scanned token not identified: {toks}")
        tok = toks[0]
        table["token"] = tok
        for is_op in (True, False):
            def atom(e, _o=is_op):
                k = norm(e)
                if k == f"isinstance({tok}, {p_ops})":
                    return _o
                return None
            ps, unk = consistent(its, atom, start)
            if unk and not ps:
                raise AnalysisError(f"scan step: test not decided by (operator?, step type): {sorted(set(unk))[:2]}")
            acts = sorted({tuple(norm(e.resolved) for e in q.events[start:] if e.kind == "expr") for q in ps})
            if len(acts) != 1:
                raise AnalysisError(f"scan step: {len(acts)} different action lists for operator={is_op} type={ot}")
            if is_op:
                m = [a for a in acts[0] if a.startswith(tok + ".operate_")]
                if len(m) == 1 and len(acts[0]) == 1 and m[0].endswith("(self)"):
                    table[ot] = m[0][len(tok) + 1:-len("(self)")]
                else:
                    table[ot] = None
            else:
                table.setdefault("default", set()).add(tuple(a.replace(tok, "TOKEN") for a in acts[0]))
    table["default"] = sorted(table.get("default", []))
    return table


def r4_handlers(ctx):
    table = dispatch_table(ctx)
    exp = {"UNARY": "operate_unary", "BINARY": "operate_binary", "ARGS": "operate_args"}
    for ot, m in exp.items():
        ctx.check(table.get(ot) == m, TOKENS, "Tokens.operate", f"dispatch {ot}", detail=table.get(ot), expected=m)
    pairs = 0
    for cfg in all_configs(ctx.repo):
        for si, (ot, names) in enumerate(cfg.steps):
            for nm in names:
                if nm not in cfg.operators:
                    continue
                cref = cfg.operators[nm]
                need = table.get(ot)
                if need is None:
                    ctx.violated(cfg.relpath, cfg.qual, f"step {si} type {ot}", detail="no dispatch entry")
                    continue
                has = ctx.repo.method(cref.module, cref.node, need) is not None
                pairs += 1
                ctx.check(has, cfg.relpath, cfg.qual, f"step {si}: {cref.name} handles {ot}",
                          detail=f"{cref.name}.{need} {'found' if has else 'missing'}", expected=f"{need} defined along the MRO")
    ctx.floor("(step, operator) pairs", pairs, 55)
    ctx.info["dispatch_pairs"] = pairs
    # a pass picks its tokens with isinstance(token, <classes of the step>): a token is therefore processed in the first
    # step that lists its class *or one of its base classes* - which must be the step that lists the operator itself
    checked = 0
    for cfg in all_configs(ctx.repo):
        step_classes = []
        for ot, names in cfg.steps:
            step_classes.append([(nm, cfg.operators[nm]) for nm in names if nm in cfg.operators])
        for nm, cref in cfg.operators.items():
            own = [i for i, (ot, names) in enumerate(cfg.steps) if nm in names]
            if not own:
                continue
            anc = {(m.relpath, c.name) for m, c in ctx.repo.mro(cref.module, cref.node)}
            first = None
            via = None
            for i, lst in enumerate(step_classes):
                hit = [n2 for n2, c2 in lst if (c2.module.relpath, c2.node.name) in anc]
                if hit:
                    first, via = i, hit
                    break
            checked += 1
            ctx.check(first == min(own), cfg.relpath, cfg.qual, f"operator {nm!r} is picked up by its own step (isinstance dispatch vs class hierarchy)",
                      detail={"own_step": min(own), "first_step_matching_by_isinstance": first, "through": via},
                      expected="no operator class derives from the class of an operator listed in an earlier step")
    ctx.floor("operators checked against the class hierarchy", checked, 50)


# ---------------------------------------------------------------- R5
def r5_scan(ctx):
    T = TOKENS
    exp = {"append": [("right", "back", "push")], "get_left": [("left", "back", "pop")],
           "get_right": [("right", "front", "pop")], "put_left": [("left", "back", "push")],
           "put_right": [("right", "front", "push")]}
    for m, e in exp.items():
        fn = ctx.fn(T, f"Tokens.{m}")
        ops = K.list_ops(fn)
        ctx.check(ops == e, T, f"Tokens.{m}", "buffer operation", detail=ops, expected=e)
    fn = ctx.fn(T, "Tokens.operate")
    loops = [n for n in fn.body if isinstance(n, ast.While)]
    if len(loops) != 1 or norm(loops[0].test) not in ("self.right", "len(self.right) > 0", "len(self.right)"):
        ctx.unrecognised(T, "Tokens.operate", "scan loop", "expected one `while self.right` loop")
        return
    lp = loops[0]
    first = lp.body[0]
    ops = K.list_ops(first, cls=ctx.repo.cls(T, "Tokens"))
    ctx.check(ops == [("right", "front", "pop")] and isinstance(first, ast.Assign), T, "Tokens.operate",
              "scan takes the next token from the front of the right queue", detail=ops,
              expected=[("right", "front", "pop")])
    # default action: token goes to the left stack
    try:
        d = dispatch_table(ctx)["default"]
    except AnalysisError as e:
        ctx.unrecognised(T, "Tokens.operate", "non-matching token is pushed on the left stack", str(e))
    else:
        ctx.form(d in ([("self.put_left(TOKEN)",)], [("self.left.append(TOKEN)",)]), T, "Tokens.operate",
                 "non-matching token is pushed on the left stack", detail=d)
    after = [norm(s) for s in fn.body[fn.body.index(lp) + 1:]]
    ok = after in (["self.right = self.left", "self.left = []"], ["self.right, self.left = (self.left, [])"], ["self.left, self.right = ([], self.left)"])
    ctx.form(ok, T, "Tokens.operate", "pass ends with right <- left, left <- []", detail=after)
    # Expression primitives
    e = {"shift": ["self.left += self.right[:nchar]", "self.right = self.right[nchar:]"],
         "remove": ["self.right = self.right[len(string):]"]}
    for m, want in e.items():
        fn = ctx.fn(EXPR, f"Expression.{m}")
        arg = fn.args.args[1].arg
        got = [norm(s).replace(arg, "ARG") for s in fn.body if not K.is_docstring(s)]
        want2 = [w.replace("nchar", "ARG").replace("string", "ARG") for w in want]
        alt = [w.replace("self.left += ", "self.left = self.left + ") for w in want2]
        ctx.form(got in (want2, alt), EXPR, f"Expression.{m}", "cursor primitive", detail=got)
    fn = ctx.fn(EXPR, "Expression.shift")
    dflt = fn.args.defaults
    ctx.check(len(dflt) == 1 and isinstance(dflt[0], ast.Constant) and dflt[0].value == 1, EXPR, "Expression.shift",
              "default shift is one character", detail=[norm(d) for d in dflt], expected=["1"])
    fn = ctx.fn(EXPR, "Expression.pop_left")
    got = [norm(s) for s in fn.body if not K.is_docstring(s)]
    ok = any("self.left.strip()" in g for g in got) and "self.left = ''" in got and got[-1].startswith("return")
    ctx.form(ok, EXPR, "Expression.pop_left", "returns stripped text and clears it", detail=got)


# ---------------------------------------------------------------- R6
def r6_semantics(ctx):
    cfg = default_config(ctx.repo)
    nb = na = 0
    for name, cref in cfg.operators.items():
        if name in A2_BINARY:
            r = ctx.repo.method(cref.module, cref.node, "operate_binary")
            if r is None:
                continue  # reported by R4
            m, c, fn = r
            ctx.functions_analysed.add(f"{m.relpath}::{c.name}.operate_binary")
            form = K.binary_handler_form(fn)
            nb += 1
            if form is None:
                ctx.unrecognised(m.relpath, f"{c.name}.operate_binary", "result term", "not of the form put_left(L <op> R)")
            else:
                kind, opn = A2_BINARY[name]
                ctx.check(form == (kind, opn, "L", "R"), m.relpath, f"{c.name}.operate_binary",
                          f"result of {name!r}", detail=list(form), expected=[kind, opn, "L", "R"])
        if name in A2_ARGS:
            r = ctx.repo.method(cref.module, cref.node, "operate_args")
            if r is None:
                continue
            m, c, fn = r
            ctx.functions_analysed.add(f"{m.relpath}::{c.name}.operate_args")
            term = K.args_handler_term(fn)
            na += 1
            if term is None:
                ctx.unrecognised(m.relpath, f"{c.name}.operate_args", "result term", "not a single put_left(<term>)")
            else:
                ctx.check(term == A2_ARGS[name], m.relpath, f"{c.name}.operate_args", f"result of {name!r}",
                          detail=term, expected=A2_ARGS[name])
    ctx.floor("binary handlers", nb, 13)
    ctx.floor("argument handlers", na, 10)
    # negation
    cref = cfg.operators.get("not")
    if cref is not None:
        negation_table(ctx, cref)
    # atom dunders
    acls = ctx.repo.cls(ATOM, "AtomBase")
    nd = 0
    for mname, fn in methods(acls).items():
        ctx.functions_analysed.add(f"{ATOM}::AtomBase.{mname}")
        if mname in ATOM_DUNDER:
            nd += 1
            form = K.atom_binary_form(fn)
            kind, opn = ATOM_DUNDER[mname]
            if form is None:
                ctx.unrecognised(ATOM, f"AtomBase.{mname}", "result term", "not AtomBase(self.value <op> other.value)")
            else:
                ctx.check(form == (kind, opn, "S", "O"), ATOM, f"AtomBase.{mname}", "value term", detail=list(form),
                          expected=[kind, opn, "S", "O"])
        elif mname in ATOM_UNARY:
            nd += 1
            t = K.atom_unary_term(fn)
            if t is None:
                ctx.unrecognised(ATOM, f"AtomBase.{mname}", "result term", "not AtomBase(f(self.value))")
            else:
                ctx.check(t == ATOM_UNARY[mname], ATOM, f"AtomBase.{mname}", "value term", detail=t,
                          expected=ATOM_UNARY[mname])
    ctx.floor("atom methods", nd, 21)


class NotHandler(Handler):
    """operate_unary of the negation operator for one kind of right neighbour."""

    def __init__(self, repo, module, rkind, extra_true=()):
        super().__init__()
        self.repo, self.module, self.rkind = repo, module, rkind
        self.env = {}
        self.queue = ["R1", "R2"]          # symbolic tokens waiting on the right
        self.out = []
        self.extra_true = extra_true

    def test(self, node):
        ia = isinstance_args(node)
        if ia and isinstance(ia[0], ast.Name) and ia[0].id in self.env:
            v = self.env[ia[0].id]
            names = [norm(t) for t in ia[1]]
            if any(n.endswith("Not") or n == "OperatorNot" for n in names):
                return v == "R1" and self.rkind == "Not"
            if set(names) <= {"bool", "np.bool_", "numpy.bool_"}:
                return self.rkind == "bool" and not v.startswith("wrap(")
        return None

    def stmt(self, node):
        s = norm(node)
        if isinstance(node, ast.Assign) and len(node.targets) == 1 and isinstance(node.targets[0], ast.Name):
            t = node.targets[0].id
            if norm(node.value) == "tokens.get_right()":
                self.env[t] = self.queue.pop(0)
                return
            if isinstance(node.value, ast.Call) and len(node.value.args) == 1 and isinstance(node.value.args[0], ast.Name) \
                    and node.value.args[0].id in self.env and isinstance(node.value.func, ast.Name):
                self.env[t] = f"wrap({self.env[node.value.args[0].id]})"
                return
            if isinstance(node.value, ast.Name) and node.value.id in self.env:
                self.env[t] = self.env[node.value.id]
                return
        if isinstance(node, ast.Expr) and isinstance(node.value, ast.Call):
            c = node.value
            if isinstance(c.func, ast.Attribute) and c.func.attr == "operate_unary" and isinstance(c.func.value, ast.Name) \
                    and self.env.get(c.func.value.id) == "R1" and [norm(a) for a in c.args] == ["tokens"]:
                nxt = self.queue.pop(0)
                self.queue.insert(0, f"not({nxt})")      # the inner negation consumed its operand and re-queued the result
                return
            if norm(c.func) == "tokens.put_right" and len(c.args) == 1:
                a = c.args[0]
                if isinstance(a, ast.Call) and isinstance(a.func, ast.Attribute) and a.func.attr == "logical_not" and isinstance(a.func.value, ast.Name):
                    self.out.append(f"not({self.env.get(a.func.value.id)})")
                    return
        raise Unrecognised(f"statement {s}")


def negation_table(ctx, cref, rule=None, kinds=("atom", "Not")):
    r = ctx.repo.method(cref.module, cref.node, "operate_unary")
    if r is None:
        return
    m, c, fn = r
    ctx.functions_analysed.add(f"{m.relpath}::{c.name}.operate_unary")
    for rk in kinds:
        h = NotHandler(ctx.repo, m, rk)
        cell = f"negation cell right={rk}"
        try:
            run_block(fn.body, h)
        except Unrecognised as e:
            ctx.unrecognised(m.relpath, f"{c.name}.operate_unary", cell, str(e), rule)
            continue
        want = {"atom": ["not(R1)"], "bool": ["not(wrap(R1))"], "Not": ["not(not(R2))"]}[rk]
        ctx.check(h.out == want, m.relpath, f"{c.name}.operate_unary", cell, detail=h.out, expected=want, rule=rule)


# ---------------------------------------------------------------- R7
class SignHandler(Handler):
    """One cell of the unary-sign decision table."""

    def __init__(self, repo, module, Lk, Rk, add_cls, sub_cls, atom_names):
        super().__init__()
        self.repo, self.module = repo, module
        self.Lk, self.Rk = Lk, Rk            # L in None/atom/op ; R in atom/Add/Sub/other
        self.add_cls, self.sub_cls = add_cls, sub_cls
        self.atom_names = atom_names
        self.env = {}
        self.left, self.right = [], []

    def _kind_of(self, var):
        v = self.env.get(var)
        if v == "L":
            return self.Lk
        if v == "R":
            return self.Rk
        return None

    def test(self, node):
        s = norm(node)
        if isinstance(node, ast.Compare) and len(node.ops) == 1 and isinstance(node.left, ast.Name) \
                and isinstance(node.comparators[0], ast.Constant) and node.comparators[0].value is None:
            k = self._kind_of(node.left.id)
            if k is None:
                return None
            if isinstance(node.ops[0], ast.Is):
                return k == "None"
            if isinstance(node.ops[0], ast.IsNot):
                return k != "None"
        ia = isinstance_args(node)
        if ia and isinstance(ia[0], ast.Name):
            k = self._kind_of(ia[0].id)
            if k is None:
                return None
            res = False
            for t in ia[1]:
                tn = norm(t)
                if tn in self.atom_names:
                    res = res or k == "atom"
                    continue
                r = self.repo.resolve(self.module, tn) if isinstance(t, ast.Name) else None
                if not r or r[1] != "class":
                    return None
                tested = r[2].name
                for kind, cref in (("Add", self.add_cls), ("Sub", self.sub_cls)):
                    if k == kind and cref is not None and self.repo.is_subclass(cref.module, cref.node, tested):
                        res = True
                if k in ("other", "op") and tested == "OperatorBase":
                    res = True
            return res
        return None

    def _val(self, node):
        if isinstance(node, ast.Name) and node.id in self.env:
            return self.env[node.id]
        if isinstance(node, ast.UnaryOp) and isinstance(node.op, ast.USub):
            v = self._val(node.operand)
            return None if v is None else f"neg({v})"
        if isinstance(node, ast.UnaryOp) and isinstance(node.op, ast.UAdd):
            return self._val(node.operand)
        if isinstance(node, ast.IfExp):
            t = self.test(node.test)
            if t is None and isinstance(node.test, ast.UnaryOp) and isinstance(node.test.op, ast.Not):
                t = self.test(node.test.operand)
                t = None if t is None else not t
            return None if t is None else self._val(node.body if t else node.orelse)
        if isinstance(node, ast.Call) and isinstance(node.func, ast.Name) and not node.args:
            r = self.repo.resolve(self.module, node.func.id)
            if r and r[1] == "class":
                for kind, cref in (("Add", self.add_cls), ("Sub", self.sub_cls)):
                    if cref is not None and cref.name == r[2].name and cref.module.relpath == r[0].relpath:
                        return kind + "()"
                return f"{r[2].name}()"
        return None

    def stmt(self, node):
        if isinstance(node, ast.Assign) and len(node.targets) == 1:
            t, v = node.targets[0], node.value
            pairs = []
            if isinstance(t, ast.Tuple) and isinstance(v, ast.Tuple) and len(t.elts) == len(v.elts):
                pairs = list(zip(t.elts, v.elts))
            elif isinstance(t, ast.Name):
                pairs = [(t, v)]
            for tt, vv in pairs:
                s = norm(vv)
                if s == "tokens.get_left()":
                    self.env[tt.id] = "L"
                elif s == "tokens.get_right()":
                    self.env[tt.id] = "R"
                else:
                    val = self._val(vv)
                    if val is None:
                        raise Unrecognised(f"assignment {norm(node)}")
                    self.env[tt.id] = val
            return
        if isinstance(node, ast.Expr) and isinstance(node.value, ast.Call):
            c = node.value
            fn = norm(c.func)
            if fn in ("tokens.put_left", "tokens.put_right") and len(c.args) == 1:
                v = self._val(c.args[0])
                if v is None:
                    raise Unrecognised(f"token value {norm(c.args[0])}")
                if fn.endswith("left"):
                    self.left.append(v)
                else:
                    self.right.insert(0, v)
                return
        if isinstance(node, ast.Return) and (node.value is None or (isinstance(node.value, ast.Constant) and node.value.value is None)):
            return          # early exit of the handler: the cell is complete
        raise Unrecognised(f"statement {norm(node)}")


def sign_oracle(sign, Lk, Rk):
    """Expected (reading sequence, placement constraints) or None when unconstrained."""
    other = {"Add": "Sub", "Sub": "Add"}
    comb = lambda r: "Add" if (sign == r) else "Sub"   # noqa: E731  (+,+)->+ (-,-)->+ else -
    Lseq = [] if Lk == "None" else ["L"]
    signedR = "R" if sign == "Add" else "neg(R)"
    if Rk in ("Add", "Sub"):
        return Lseq + [comb(Rk) + "-like"], {"sign_on": "right"}
    if Rk == "atom" and Lk in ("None", "op"):
        return Lseq + [signedR], {}
    if Rk == "atom" and Lk == "atom":
        return ["L", sign + "()", "R"], {"binary_on": "left"}
    if Rk == "other" and Lk == "atom":
        return ["L", sign + "()", "R"], {"binary_on": "left"}
    return None


def sign_tables(ctx, cfg, atom_names, rule=None):
    add_cls, sub_cls = cfg.operators.get("add"), cfg.operators.get("sub")
    cells = 0
    for sign, cref in (("Add", add_cls), ("Sub", sub_cls)):
        if cref is None:
            continue
        r = ctx.repo.method(cref.module, cref.node, "operate_unary")
        if r is None:
            continue
        m, c, fn = r
        ctx.functions_analysed.add(f"{m.relpath}::{c.name}.operate_unary")
        for Lk in ("None", "atom", "op"):
            for Rk in ("atom", "Add", "Sub", "other"):
                want = sign_oracle(sign, Lk, Rk)
                cell = f"sign cell L={Lk} R={Rk}"
                h = SignHandler(ctx.repo, m, Lk, Rk, add_cls, sub_cls, atom_names)
                try:
                    run_block(fn.body, h)
                except Unrecognised as e:
                    if want is not None:
                        ctx.unrecognised(m.relpath, f"{c.name}.operate_unary", cell, str(e), rule)
                    continue
                if want is None:
                    continue
                cells += 1
                drop = (lambda x: x == "L") if Lk == "None" else (lambda x: False)  # a popped None is pushed back and popped again
                h.left = [x for x in h.left if not drop(x)]
                h.right = [x for x in h.right if not drop(x)]
                seq = [x for x in h.left + h.right]
                # R is known to be the configured add/sub instance when Rk is Add/Sub
                def canon(x):
                    if x == "R" and Rk in ("Add", "Sub"):
                        return Rk + "-like"
                    if x in ("Add()", "Sub()") and Rk in ("Add", "Sub"):
                        return x[:-2] + "-like"
                    return x
                seqc = [canon(x) for x in seq]
                exp_seq, place = want
                ok = seqc == exp_seq
                if ok and place.get("sign_on") == "right":
                    ok = len(h.right) == 1 and canon(h.right[0]) == exp_seq[-1]
                if ok and place.get("binary_on") == "left":
                    ok = (sign + "()") in h.left
                ctx.check(ok, m.relpath, f"{c.name}.operate_unary", cell,
                          detail={"left_stack": h.left, "right_queue": h.right}, expected={"reading": exp_seq, **place},
                          rule=rule)
    return cells


def r7_sign_algebra(ctx):
    cfg = default_config(ctx.repo)
    cells = sign_tables(ctx, cfg, {"tokens.atom"})
    ctx.floor("sign-table cells", cells, 20)
    ctx.info["sign_cells"] = cells


# ---------------------------------------------------------------- R8
class ParHandler(Handler):
    """One iteration of the OperatorPar.__init__ scanning loop."""

    def __init__(self, lexeme, depth, sym_is_open, symlen):
        super().__init__()
        self.lex, self.depth, self.sym_is_open, self.symlen = lexeme, depth, sym_is_open, symlen
        self.consumed, self.split, self.raised = [], 0, False
        self.alias = {}          # local name -> text it is a snapshot of (valid until the input is consumed)

    def _unalias(self, node):
        if not self.alias:
            return node
        from ..normalise import clone

        class A(ast.NodeTransformer):
            def visit_Name(s_, n):
                if isinstance(n.ctx, ast.Load) and n.id in self.alias:
                    return ast.parse(self.alias[n.id], mode="eval").body
                return n
        return ast.fix_missing_locations(A().visit(clone(node)))

    def test(self, node):
        node = self._unalias(node)
        s = norm(node)
        if s in ("len(expr.right) == 0", "not expr.right", "expr.right == ''", "len(expr.right) < 1"):
            return self.lex == "END"
        if s in ("expr.right", "len(expr.right)", "len(expr.right) > 0", "len(expr.right) != 0", "expr.right != ''", "len(expr.right) >= 1"):
            return self.lex != "END"
        if s.startswith("expr.right.startswith(") and s.endswith(")"):
            a = s[len("expr.right.startswith("):-1]
            if a == "self.symbol_open":
                return self.lex == "OPEN"
            if a == "self.symbol_separator":
                return self.lex == "SEP"
            if a == "self.symbol_close":
                return self.lex == "CLOSE"
            if a == "self.symbol":
                return self.lex == "OPEN" if self.sym_is_open else self.lex == "FUNC"
            return None
        if isinstance(node, ast.Compare) and len(node.ops) == 1 and norm(node.left) == "depth" \
                and isinstance(node.comparators[0], ast.Constant):
            c = node.comparators[0].value
            op = node.ops[0]
            d = self.depth
            return {ast.Eq: d == c, ast.NotEq: d != c, ast.Gt: d > c, ast.GtE: d >= c, ast.Lt: d < c,
                    ast.LtE: d <= c}.get(type(op))
        return None

    def stmt(self, node):
        if isinstance(node, ast.Assign) and len(node.targets) == 1 and isinstance(node.targets[0], ast.Name) and norm(node.value) in ("expr.right", "len(self.args)", "self.narg"):
            self.alias[node.targets[0].id] = norm(node.value)       # a snapshot of the remaining input / of a counter
            return
        if isinstance(node, ast.Expr) and isinstance(node.value, ast.Call):
            node = self._unalias(node)
            if norm(node.value.func).startswith("expr."):
                self.alias = {k: v for k, v in self.alias.items() if v != "expr.right"}     # the input moves on: snapshots of it are stale
        s = norm(node)
        if isinstance(node, ast.AugAssign) and norm(node.target) == "depth" and isinstance(node.value, ast.Constant):
            self.depth += node.value.value if isinstance(node.op, ast.Add) else -node.value.value
            return
        if isinstance(node, ast.Assign) and norm(node.targets[0]) == "depth":
            if s == "depth = depth + 1":
                self.depth += 1
                return
            if s == "depth = depth - 1":
                self.depth -= 1
                return
        if s.startswith("expr.remove(") and isinstance(node, ast.Expr):
            a = s[len("expr.remove("):-1]
            self.consumed.append(("remove", {"self.symbol_separator": "SEP", "self.symbol_close": "CLOSE",
                                             "self.symbol_open": "OPEN", "self.symbol": "SYM"}.get(a, a)))
            return
        if s == "expr.shift()" or s == "expr.shift(1)":
            self.consumed.append(("shift", 1))
            return
        if s in ("expr.shift(len(self.symbol))",):
            self.consumed.append(("shift", "SYM"))
            return
        if s == "self.args.append(Expression(expr.pop_left()))":
            self.split += 1
            return
        if isinstance(node, ast.Raise):
            self.raised = True
            return
        raise Unrecognised(f"scanner statement {s}")


def r8_parenthesis(ctx):
    fn = ctx.fn(OPERATORS, "OperatorPar.__init__")
    loops = [s for s in fn.body if isinstance(s, ast.While)]
    if len(loops) != 1 or norm(loops[0].test) not in ("depth > 0", "depth >= 1", "depth != 0", "depth"):
        ctx.unrecognised(OPERATORS, "OperatorPar.__init__", "scan loop", "expected one `while depth>0` loop")
        return
    lp = loops[0]
    pre = [norm(s) for s in fn.body[: fn.body.index(lp)]]
    ctx.form("super().__init__(expr)" in pre and "depth = 1" in pre and "self.args = []" in pre, OPERATORS,
              "OperatorPar.__init__", "consumes its own symbol, then starts at depth 1 with no arguments", detail=pre)
    base = ctx.fn(OPERATORS, "OperatorBase.__init__")
    s = [norm(x) for x in ast.walk(base) if isinstance(x, ast.Expr)]
    ctx.form("expr.remove(self.symbol)" in s, OPERATORS, "OperatorBase.__init__",
              "operator constructor consumes exactly its symbol", detail=s)
    cells = 0
    for sym_is_open in (True, False):
        for lex in ("END", "OPEN", "FUNC", "SEP", "CLOSE", "OTHER"):
            if sym_is_open and lex == "FUNC":
                continue
            for depth in (1, 2):
                h = ParHandler(lex, depth, sym_is_open, 4)
                cell = f"scanner cell class={'par' if sym_is_open else 'function'} lexeme={lex} depth={depth}"
                try:
                    sig = run_block(lp.body, h)
                except Unrecognised as e:
                    ctx.unrecognised(OPERATORS, "OperatorPar.__init__", cell, str(e))
                    continue
                cells += 1
                got = {"depth": h.depth, "consumed": h.consumed, "split": h.split, "raised": h.raised, "exit": sig}
                if lex == "END":
                    ok, exp = h.raised and not h.consumed, "raise (unclosed parenthesis)"
                elif lex == "OPEN":
                    ok = h.depth == depth + 1 and h.consumed == [("shift", 1)] and not h.split and not h.raised
                    exp = "depth+1, the one inspected character shifted, no split"
                elif lex == "FUNC":
                    ok = (h.depth == depth and h.consumed == [("shift", 1)]) or \
                         (h.depth == depth + 1 and h.consumed == [("shift", "SYM")])
                    ok = ok and not h.split and not h.raised
                    exp = "either (depth unchanged, 1 char shifted: its '(' is counted later) or (depth+1, whole symbol shifted)"
                elif lex == "SEP" and depth == 1:
                    ok = h.depth == 1 and h.consumed == [("remove", "SEP")] and h.split == 1 and not h.raised
                    exp = "separator removed, one argument split, nothing else consumed in this iteration"
                elif lex == "SEP":
                    ok = h.depth == depth and h.consumed == [("shift", 1)] and not h.split
                    exp = "nested separator belongs to the inner call: shifted, no split"
                elif lex == "CLOSE" and depth == 1:
                    ok = h.depth == 0 and h.consumed == [("remove", "CLOSE")] and h.split == 1 and not h.raised
                    exp = "depth 0, closing symbol removed, last argument split, loop ends"
                elif lex == "CLOSE":
                    ok = h.depth == depth - 1 and h.consumed == [("shift", 1)] and not h.split
                    exp = "depth-1, character shifted"
                else:
                    ok = h.depth == depth and h.consumed == [("shift", 1)] and not h.split and not h.raised
                    exp = "one character shifted into the argument text"
                ctx.check(ok, OPERATORS, "OperatorPar.__init__", cell, detail=got, expected=exp)
    ctx.floor("scanner cells", cells, 20)
    # arity check after the loop
    post = fn.body[fn.body.index(lp) + 1:]
    found = False
    for st in post:
        if isinstance(st, ast.If) and isinstance(st.test, ast.Compare) and len(st.test.ops) == 1:
            l, r = norm(st.test.left), norm(st.test.comparators[0])
            if {l, r} == {"len(self.args)", "self.narg"}:
                found = True
                op = type(st.test.ops[0])
                raises_body = any(isinstance(x, ast.Raise) for x in st.body)
                raises_else = any(isinstance(x, ast.Raise) for x in st.orelse)
                swap = l == "self.narg"
                res = {}
                for rel, (a, b) in {"fewer": (1, 2), "equal": (2, 2), "more": (3, 2)}.items():
                    x, y = (b, a) if swap else (a, b)
                    t = {ast.Eq: x == y, ast.NotEq: x != y, ast.Lt: x < y, ast.LtE: x <= y, ast.Gt: x > y,
                         ast.GtE: x >= y}.get(op)
                    res[rel] = raises_body if t else raises_else
                ctx.check(res == {"fewer": True, "equal": False, "more": True}, OPERATORS, "OperatorPar.__init__",
                          "arity check", detail=res, expected={"fewer": True, "equal": False, "more": True})
    if not found:
        ctx.violated(OPERATORS, "OperatorPar.__init__", "arity check", detail="no comparison of len(self.args) with self.narg after the loop",
                     expected="raise when the number of arguments differs from narg")


def residue_guard(ctx, after=None):
    """After the reduction passes: leftover tokens (anything on the left, more than one on the right) are rejected.
    Shared with C03.R10 (juxtaposed unit symbols without an operator are an error)."""
    if after is None:
        solve = ctx.fn(SOLVER, "ExpressionSolver.solve")
        wl = [n for n in solve.body if isinstance(n, ast.While)]
        if not wl:
            ctx.unrecognised(SOLVER, "ExpressionSolver.solve", "unprocessed tokens are rejected", "tokeniser loop not found")
            return
        after = solve.body[solve.body.index(wl[0]) + 1:]
    # leftover tokens rejected
    rs = [n for n in after if isinstance(n, ast.If) and any(isinstance(x, ast.Raise) for x in n.body)]
    t = norm(rs[0].test) if rs else None
    L, R = "self.tokens.left", "self.tokens.right"
    # the guard as a decision table over the sizes of the two buffers (one result token is always there)
    what = "unprocessed tokens are rejected"
    if not rs:
        ctx.form(False, SOLVER, "ExpressionSolver.solve", what, detail="no raising guard after the reduction passes")
    else:
        from ..normalise import clone

        class _Sizes(ast.NodeTransformer):
            def __init__(self, l, r):
                self.l, self.r = l, r

            def visit_Call(self, n):
                if norm(n) == f"len({L})":
                    return ast.Constant(value=self.l)
                if norm(n) == f"len({R})":
                    return ast.Constant(value=self.r)
                return self.generic_visit(n)

            def visit_Attribute(self, n):
                if norm(n) == L:
                    return ast.Constant(value=self.l > 0)
                if norm(n) == R:
                    return ast.Constant(value=self.r > 0)
                return self.generic_visit(n)
        bad, undecided = [], []
        for l in (0, 1, 2):
            for r in (1, 2, 3):
                v = _Sizes(l, r).visit(clone(rs[0].test))
                if all(isinstance(x, (ast.Constant, ast.Compare, ast.BoolOp, ast.UnaryOp, ast.BinOp, ast.cmpop, ast.boolop, ast.unaryop, ast.operator, ast.expr_context))
                       for x in ast.walk(v)):
                    # constant folding of an integer/boolean expression without names or calls
                    v = ast.Constant(value=eval(compile(ast.fix_missing_locations(ast.Expression(body=v)), "<guard>", "eval"), {"__builtins__": {}}, {}))
                if not (isinstance(v, ast.Constant) and isinstance(v.value, (bool, int))):
                    undecided.append(norm(v))
                elif bool(v.value) != (l > 0 or r > 1):
                    bad.append(f"left={l} right={r}: {'rejected' if v.value else 'accepted'}")
        if undecided:
            ctx.form(False, SOLVER, "ExpressionSolver.solve", what, detail=sorted(set(undecided))[:2])
        else:
            ctx.check(not bad, SOLVER, "ExpressionSolver.solve", what, detail=bad or None, expected="rejected exactly when a token is left on the left or more than one on the right")


def r8c_tokeniser(ctx):
    solve = ctx.fn(SOLVER, "ExpressionSolver.solve")
    wl = [n for n in solve.body if isinstance(n, ast.While)]
    if len(wl) != 1 or norm(wl[0].test) not in ("self.expr.right", "len(self.expr.right) > 0", "len(self.expr.right)"):
        ctx.unrecognised(SOLVER, "ExpressionSolver.solve", "tokeniser", "expected `while self.expr.right` loop")
        return
    fl = [n for n in wl[0].body if isinstance(n, ast.For)]
    if len(fl) != 1:
        ctx.unrecognised(SOLVER, "ExpressionSolver.solve", "tokeniser", "expected one for loop over operators")
        return
    f = fl[0]
    var = f.target.id if isinstance(f.target, ast.Name) else None
    ifs = [n for n in f.body if isinstance(n, ast.If)]
    ok = len(ifs) == 1 and norm(ifs[0].test) == f"self.expr.right.startswith({var}.symbol)"
    ctx.form(ok, SOLVER, "ExpressionSolver.solve", "operator recognised by its symbol prefixing the remaining text",
              detail=[norm(i.test) for i in ifs])
    if not ok:
        return
    body = ifs[0].body
    stm = [norm(s) for s in body]
    # order: atom from left text, construct operator (consumes symbol), append operator, break
    idx_atom = next((i for i, s in enumerate(body) if "self.expr.pop_left()" in norm(s) and "self.tokens.atom(" in norm(s)), None)
    idx_ctor = next((i for i, s in enumerate(body) if isinstance(s, ast.Assign) and norm(s.value) == f"{var}(self.expr)"), None)
    opvar = norm(body[idx_ctor].targets[0]) if idx_ctor is not None else None
    idx_app = next((i for i, s in enumerate(body) if norm(s) == f"self.tokens.append({opvar})"), None)
    idx_brk = next((i for i, s in enumerate(body) if isinstance(s, ast.Break)), None)
    order_ok = None not in (idx_atom, idx_ctor, idx_app, idx_brk) and idx_atom < idx_ctor < idx_app < idx_brk
    ctx.check(order_ok, SOLVER, "ExpressionSolver.solve",
              "pending text becomes an atom before the operator; operator appended once; scan restarts",
              detail={"atom": idx_atom, "construct": idx_ctor, "append": idx_app, "break": idx_brk})
    # pending atom appended only when non-empty and exactly once
    if idx_atom is not None:
        a = body[idx_atom]
        s = norm(a)
        ok = isinstance(a, ast.If) and len(a.body) == 1 and "self.tokens.append(self.tokens.atom(" in norm(a.body[0])
        ctx.form(ok, SOLVER, "ExpressionSolver.solve", "non-empty text before an operator becomes one atom", detail=s)
    # nested arguments solved with the same configuration
    nested = [c for c in ast.walk(ifs[0]) if isinstance(c, ast.Call) and dotted_name(c.func) == "ExpressionSolver"]
    ok = len(nested) == 1 and [norm(a) for a in nested[0].args] == ["self.tokens.atom", "self.operators", "self.steps"]
    ctx.form(ok, SOLVER, "ExpressionSolver.solve", "arguments are solved by a nested solver with the same atom, operators and steps",
              detail=[norm(c) for c in nested])
    argloop = [n for n in ast.walk(ifs[0]) if isinstance(n, ast.For)]
    ok = len(argloop) == 1 and norm(argloop[0].iter) == f"range(len({opvar}.args))" and \
        [norm(s) for s in argloop[0].body] == [f"{opvar}.args[{norm(argloop[0].target)}] = es.solve({opvar}.args[{norm(argloop[0].target)}])"]
    if argloop:
        ctx.form(ok, SOLVER, "ExpressionSolver.solve", "every argument is replaced by its own value, in position",
                  detail=[norm(s) for s in argloop[0].body])
    # for-else shifts one character
    els = [norm(s) for s in f.orelse]
    ctx.check(els in (["self.expr.shift()"], ["self.expr.shift(1)"]), SOLVER, "ExpressionSolver.solve",
              "no operator matched: exactly one character moves into the atom text", detail=els,
              expected=["self.expr.shift()"])
    # trailing atom
    after = solve.body[solve.body.index(wl[0]) + 1:]
    ok = bool(after) and isinstance(after[0], ast.If) and "self.expr.pop_left()" in norm(after[0].test) and \
        "self.tokens.append(self.tokens.atom(" in norm(after[0].body[0])
    ctx.form(ok, SOLVER, "ExpressionSolver.solve", "remaining text becomes the last atom",
              detail=norm(after[0]) if after else None)
    residue_guard(ctx, after)


def r10_literal_domain(ctx):
    """A number written in an expression is read as a float: the property's values are those of float arithmetic
    (`7**30` reaches `sin` as a float, `2**64 == 2**64 + 1` is decided in floats), and the numpy functions the atom calls
    refuse Python integers beyond 64 bit.  On every path of AtomBase.__init__ taken for a string argument the stored
    value is float(<the string, possibly stripped>); a different constructor (int, Decimal, Fraction, complex, eval,
    literal_eval) on such a path is the violation, any other spelling is unrecognised."""
    from ..flowexpr import explore, truth
    fn = ctx.fn(ATOM, "AtomBase.__init__")
    ctx.functions_analysed.add(f"{ATOM}::AtomBase.__init__")
    pa = [a.arg for a in fn.args.args]
    pv = pa[1] if len(pa) > 1 else "value"
    what = "a literal in an expression is read as a float"

    def atom(e):
        k = norm(e)
        if k in (f"isinstance({pv}, str)",):
            return True
        return None
    ex = explore(fn)
    # paths taken for a string: the type test is true; tests over the text itself (isdigit, a pattern) stay free - each
    # of their branches is a path some string takes
    tkey = f"isinstance({pv}, str)"
    ps, unk = [], []
    for q in ex.paths:
        tt = [e for e in q.events if e.kind == "test" and isinstance(e.resolved, ast.AST) and tkey in norm(e.resolved)]
        if not tt:
            continue
        vals = [truth(e.resolved, lambda x: True if norm(x) == tkey else None) for e in tt]
        if any(v is None for v in vals):
            unk.append(norm(tt[0].resolved))
            continue
        if all(v == e.extra for v, e in zip(vals, tt)):
            ps.append(q)
    n = 0
    for q in ps:
        stores = [e for e in q.events if e.kind == "store" and e.extra == "self.value"]
        if len(stores) != 1:
            ctx.unrecognised(ATOM, "AtomBase.__init__", what, f"{len(stores)} stores to self.value on a string path")
            continue
        n += 1
        v = stores[0].resolved
        heads = set()
        for c in ast.walk(v):
            if isinstance(c, ast.Call):
                h = dotted_name(c.func)
                if h:
                    heads.add(h.split(".")[-1])
        foreign = sorted(heads & {"int", "Decimal", "Fraction", "complex", "eval", "literal_eval", "round"})
        if foreign:
            ctx.violated(ATOM, "AtomBase.__init__", what, detail=norm(v)[:160], expected=f"float({pv}.strip())")
        elif isinstance(v, ast.Call) and dotted_name(v.func) == "float" and len(v.args) == 1:
            ctx.holds(ATOM, "AtomBase.__init__", what, detail=norm(v)[:120])
        else:
            ctx.unrecognised(ATOM, "AtomBase.__init__", what, f"stored value {norm(v)[:100]}")
    if unk and not ps:
        ctx.unrecognised(ATOM, "AtomBase.__init__", what, f"tests not decided for a string argument: {sorted(set(unk))[:2]}")
    ctx.floor("string paths of AtomBase.__init__", n + (1 if unk and not ps else 0), 1)


def r9_fresh_buffers(ctx):
    _C02.r1_kill_before_use(ctx)


RULES = [
    ("C01.R1", "the literal step table equals the order of the property statement (= docs table) and is applied in list order, each group once with its own arity", r1_steps),
    ("C01.R2", "every operator used by a step is configured; symbol and arity equal the documented ones", r2_operator_table),
    ("C01.R3", "first-match tokenisation is maximal munch: in every operator dict no earlier symbol is a proper prefix of a later one; the tokeniser iterates in dict order and stops at the first match", r3_maximal_munch),
    ("C01.R4", "every (step, configured operator class) pair has the handler the dispatch of Tokens.operate calls for that arity", r4_handlers),
    ("C01.R5", "token buffers: right is a FIFO queue read at the front, left a LIFO stack; a pass ends with right<-left; cursor primitives move/consume what they say", r5_scan),
    ("C01.R6", "the term each operator hands back is L <op> R / f(args) as documented; AtomBase methods compute the matching Python operation", r6_semantics),
    ("C01.R7", "unary-sign decision tables equal the sign algebra up to the resulting token sequence, combined signs are re-scanned, binary signs are not", r7_sign_algebra),
    ("C01.R8", "parenthesis scanner: per (lexeme, depth) the depth change, characters consumed and argument splits are the expected ones; what is consumed was inspected, once; arity is checked", r8_parenthesis),
    ("C01.R8c", "tokeniser cursor discipline: symbol inspected => consumed by the operator constructor; otherwise one character shifted; pending text becomes exactly one atom; leftovers rejected", r8c_tokeniser),
    ("C01.R9", "the value of an expression depends on that expression only: every solve() starts from empty token buffers (shared with C02.R1)", r9_fresh_buffers),
    ("C01.R10", "a number written in an expression is read as a float on every path of AtomBase.__init__ taken for a string", r10_literal_domain),
]
