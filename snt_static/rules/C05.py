"""C05 — temperature and logarithmic conversions as closed forms. Decided: (R1) every
pairwise temperature method reduces to the affine map demanded by the standard scale
relations and the tabulated unit factors; (R2) every ordered pair the temperature type claims
has a method (identity pairs included); (R3) the logarithmic table is algebraically closed:
reverse entries exist with the same exponent and reciprocal reference, offsets are
antisymmetric, every processed unit has an identity, the generic maps have the log/exp shapes
that make each pair compose to the identity, the Bel/Neper factor is ln(10)/2; (R4) exponent
(1 power / 2 amplitude, 1/2 and 1 for nepers) and reference level of each unit equal the
documented ones given the tabulated factor of the linear unit; (R5) level addition is the power
sum log10(10^(a m) +- 10^(b m))/m with both guards; (R6) process lists = table rows naming the
class, and special unit types precede the standard type. NOT decided: numpy's log/exp numerics. (R8) every sum/difference/conversion reaches the unit-type dispatch (no early return) and conversions do not write to their operand; (R9) a unit scope removes from UNIT_TYPES only what it inserted."""
import ast
import math

from ..literal import ClassRef, Evaluator
from ..model import AnalysisError, dotted_name, methods, norm
from ..symexpr import NotSymbolic, SymEval, Term, affine_in, close, func
from ..unittables import SETTINGS, UNIT_TYPES_PY, module_const, unit_standard
from . import common as K

from . import C04 as _C04

LEVEL_TEXT = ("static analysis (ast): symbolic normal forms of all pairwise temperature formulas and of the "
              "generic logarithmic maps, plus algebraic closure checks over every row of the conversion table, "
              "compared with the standard scale relations and reference levels; holds for all magnitudes at once "
              "because the comparison is between closed forms, not sampled values")
LEVEL_NOTE = ("trusted: oracle A4/A5 (standard temperature relations, reference levels) and the tabulated unit "
              "factors in UNIT_STANDARD; numpy log10/log/exp/power implement the mathematical functions")
TECHNIQUE = "symbolic affine/log normal forms and table-closure rules over ast-extracted literals (static analysis)"

U = UNIT_TYPES_PY
# oracle A4: kelvin = a * t + b
SCALES = {"K": (1.0, 0.0), "Cel": (1.0, 273.15), "degF": (5.0 / 9.0, 459.67 * 5.0 / 9.0), "degR": (5.0 / 9.0, 0.0)}
TEMP_FACTORS = {"K": 1.0, "Cel": 1.0, "degF": 1.0, "degR": 5.0 / 9.0}   # expected tabulated factors
# oracle A5: logarithmic unit -> (exponent, linear unit, reference level in SI units of the linear unit)
REFS = {"Bm": (1, "W", 1e-3), "BmW": (1, "W", 1e-3), "BW": (1, "W", 1.0), "BSIL": (1, "W", 1e-12),
        "BSWL": (1, "W", 1e-12), "BV": (2, "V", 1.0), "BuV": (2, "V", 1e-6), "BA": (2, "A", 1.0),
        "BuA": (2, "A", 1e-6), "BOhm": (2, "Ohm", 1.0), "BSPL": (2, "Pa", 20e-6)}
RATIO = {("PR", "B"): 1, ("AR", "B"): 2, ("PR", "Np"): 0.5, ("AR", "Np"): 1}
OFFSETS = {("BW", "Bm"): 3, ("BW", "BmW"): 3, ("Bm", "BmW"): 0, ("BV", "BuV"): 12}   # in bels


def _tclass(ctx, name):
    return ctx.repo.module(U), ctx.repo.cls(U, name)


def _class_literal(ctx, cname, attr):
    mod, c = _tclass(ctx, cname)
    r = ctx.repo.class_attr(mod, c, attr)
    if r is None:
        raise AnalysisError(f"{cname}.{attr} missing")
    return Evaluator(ctx.repo, r[0]).ev(r[1])


def _return_term(fn, params):
    """Symbolic term of a one-expression method body `return <expr>` with params mapped to symbols."""
    body = K.body_nodoc(fn)
    env = {}
    ev = SymEval(env)
    if not body or not isinstance(body[-1], ast.Return) or body[-1].value is None:
        raise NotSymbolic("no return expression")
    names = [a.arg for a in fn.args.args[1:]]
    defaults = dict(zip(names[len(names) - len(fn.args.defaults):], fn.args.defaults))
    for i, n_ in enumerate(names):
        if i < len(params):
            ev.env[n_] = Term.sym(params[i])
        elif n_ in defaults:
            ev.env[n_] = ev.ev(defaults[n_])   # parameter not supplied by the caller: its default applies
    for st in body[:-1]:
        if isinstance(st, ast.Assign) and len(st.targets) == 1 and isinstance(st.targets[0], ast.Name):
            ev.env[st.targets[0].id] = ev.ev(st.value)
        else:
            raise NotSymbolic(f"statement {norm(st)}")
    return ev.ev(body[-1].value)


# ---------------------------------------------------------------- R1 / R2
def r1_temperature_formulas(ctx):
    mod, c = _tclass(ctx, "TemperatureUnitType")
    cols, rows = unit_standard(ctx.repo)
    mi = cols.index("magnitude")
    for u, f in TEMP_FACTORS.items():
        if u not in rows:
            ctx.violated(SETTINGS, "UNIT_STANDARD", f"row {u!r}", detail="missing")
            continue
        ctx.check(close(float(rows[u][mi]), f), SETTINGS, "UNIT_STANDARD", f"factor of {u!r}", detail=rows[u][mi], expected=f)
    n = 0
    for name, fn in methods(c).items():
        if not name.startswith("_convert_"):
            continue
        parts = name[len("_convert_"):].split("_")
        if len(parts) != 2 or parts[0] not in SCALES or parts[1] not in SCALES:
            ctx.unrecognised(U, f"TemperatureUnitType.{name}", "conversion method", "name is not _convert_<X>_<Y> over K/Cel/degF/degR")
            continue
        X, Y = parts
        ctx.functions_analysed.add(f"{U}::TemperatureUnitType.{name}")
        n += 1
        try:
            t = _return_term(fn, ["v"])
            a, b = affine_in(t, "v")
        except NotSymbolic as e:
            ctx.unrecognised(U, f"TemperatureUnitType.{name}", "formula", f"not an affine closed form: {e}")
            continue
        aX, bX = SCALES[X]
        aY, bY = SCALES[Y]
        mX, mY = float(rows[X][mi]), float(rows[Y][mi])
        ea = mY * aX / (mX * aY)
        eb = mY * (bX - bY) / aY
        ok = close(a, ea, 1e-9) and close(b, eb, 1e-9, 1e-9)
        ctx.check(ok, U, f"TemperatureUnitType.{name}", f"affine map {X}->{Y}", detail={"alpha": a, "beta": b},
                  expected={"alpha": ea, "beta": eb})
    ctx.floor("temperature formulas", n, 10)


def _claim_is_final(ctx, cname, ist):
    """Once a pair of units touches one of the type's own (affine / logarithmic) units, the type answers for it: it
    sets a conversion or refuses with an error.  Declining (`return False`) on such a path hands the pair to the
    standard type, which converts the affine unit as if it were its multiplicative base unit."""
    from ..flowexpr import paths
    what = "a pair touching the type's own units is converted by this type or refused - never handed on to the standard type"
    try:
        ps = paths(ist)
    except AnalysisError as e:
        ctx.unrecognised(U, f"{cname}._istype", what, str(e))
        return
    n = 0
    for q in ps:
        claims = [t for t in q.tests() if isinstance(t.resolved, ast.AST) and "self.process" in norm(t.resolved)]
        if not claims:
            continue
        t0 = claims[0]
        neg = isinstance(t0.resolved, ast.UnaryOp) and isinstance(t0.resolved.op, ast.Not)
        claimed = (t0.extra is True) != neg
        if not claimed:
            continue
        n += 1
        rets = [e for e in q.events if e.kind == "return"]
        declines = bool(rets) and isinstance(rets[-1].resolved, ast.Constant) and rets[-1].resolved.value is False
        sets = any(e.kind == "store" and e.extra == "self.conversion" for e in q.events)
        if q.status == "raise" or (sets and not declines):
            ctx.holds(U, f"{cname}._istype", what, detail=[f"{norm(t.resolved)[:50]} is {t.extra}" for t in q.tests()])
        elif declines:
            ctx.violated(U, f"{cname}._istype", what, detail={"declines under": [f"{norm(t.resolved)[:70]} is {t.extra}" for t in q.tests()]},
                         expected="raise (only simple units can be converted) or set self.conversion")
        else:
            ctx.form(False, U, f"{cname}._istype", what, detail=[f"{norm(t.resolved)[:50]} is {t.extra}" for t in q.tests()])
    ctx.floor(f"claimed paths of {cname}._istype", n, 2, file=U)


def r2_temperature_complete(ctx):
    K.conversion_roles(ctx)          # the converted number and its source units come from the same object (shared)
    from . import C03 as _C03
    _C03.r1_atom_parser(ctx)         # `including prefixed kelvin` / the dB family: prefix and unit symbol are cut by the atom parser (shared with C03.R1)
    mod, c = _tclass(ctx, "TemperatureUnitType")
    process = _class_literal(ctx, "TemperatureUnitType", "process")
    cols, rows = unit_standard(ctx.repo)
    di = cols.index("dimensions")
    kdim = rows["K"][di]
    temps = [u for u, r in rows.items() if r[di] == kdim]
    ctx.info["temperature_units"] = temps
    ms = methods(c)
    # the claim/dispatch shape of _istype
    ist = ms.get("_istype")
    if ist is None:
        raise AnalysisError("TemperatureUnitType._istype missing")
    s = norm(ist)
    ok = "self.process" in s and "_convert_{self.baseunits1.units[0]}_{self.baseunits2.units[0]}" in s
    if not ok:
        ctx.unrecognised(U, "TemperatureUnitType._istype", "dispatch by unit names", "claim/dispatch idiom not recognised")
        return
    ctx.holds(U, "TemperatureUnitType._istype", "claims pairs touching `process` and dispatches by (from,to) unit name")
    _claim_is_final(ctx, "TemperatureUnitType", ist)
    n = 0
    for X in temps:
        for Y in temps:
            if X in process or Y in process:
                n += 1
                ctx.check(f"_convert_{X}_{Y}" in ms, U, "TemperatureUnitType", f"claimed pair {X}->{Y} has a method",
                          detail=None if f"_convert_{X}_{Y}" in ms else "missing", expected=f"_convert_{X}_{Y}")
    ctx.floor("claimed temperature pairs", n, 12)
    # convert() raises for a missing method instead of falling back silently
    conv = ctx.fn(U, "UnitType.convert")
    s = norm(conv)
    ctx.form("hasattr(self, self.conversion[0])" in s and any(isinstance(x, ast.Raise) for x in ast.walk(conv)), U,
              "UnitType.convert", "missing conversion method is an error")


# ---------------------------------------------------------------- R3 / R4
GENERIC = {
    "_convert_Ratio_B": ("log10", "E*log10(V*C)"),
    "_convert_B_Ratio": ("pow10", "pow10"),
    "_convert_Ratio_Np": ("ln", "E*ln(V*C)"),
    "_convert_Np_Ratio": ("exp", "exp"),
    "_convert_B_B": ("offset", "V+E"),
}


def _generic_shapes(ctx):
    mod, c = _tclass(ctx, "LogarithmicUnitType")
    ms = methods(c)
    V, E, C = Term.sym("v"), Term.sym("e"), Term.sym("c")
    want = {
        "_convert_Ratio_B": E * func("log10", V * C),
        "_convert_B_Ratio": func("pow", Term.const(10), V / E) * C,
        "_convert_Ratio_Np": E * func("ln", V * C),
        "_convert_Np_Ratio": func("exp", V / E) * C,
        "_convert_B_B": V + E,
    }
    for name, exp in want.items():
        fn = ms.get(name)
        if fn is None:
            ctx.violated(U, "LogarithmicUnitType", f"generic map {name}", detail="missing")
            continue
        ctx.functions_analysed.add(f"{U}::LogarithmicUnitType.{name}")
        try:
            t = _return_term(fn, ["v", "e", "c"])
        except NotSymbolic as e:
            ctx.unrecognised(U, f"LogarithmicUnitType.{name}", "shape", str(e))
            continue
        ctx.check(t.equals(exp), U, f"LogarithmicUnitType.{name}", "closed form", detail=t.key(), expected=exp.key())


def r3_log_table(ctx):
    K.duplicate_dict_keys(ctx, ['src/scinumtools/units/unit_types.py'], 'temperature and logarithmic conversion tables')
    _generic_shapes(ctx)
    conv = _class_literal(ctx, "LogarithmicUnitType", "conversions")
    process = _class_literal(ctx, "LogarithmicUnitType", "process")
    mod, c = _tclass(ctx, "LogarithmicUnitType")
    ms = methods(c)
    ctx.info["log_table_entries"] = len(conv)
    ctx.floor("logarithmic table entries", len(conv), 45)
    inverse = {"_convert_Ratio_B": "_convert_B_Ratio", "_convert_B_Ratio": "_convert_Ratio_B",
               "_convert_Ratio_Np": "_convert_Np_Ratio", "_convert_Np_Ratio": "_convert_Ratio_Np",
               "_convert_B_B": "_convert_B_B"}
    for key, ent in conv.items():
        X, _, Y = key.partition("_")
        ent = tuple(ent)
        fn = ent[0]
        if fn not in inverse:
            ctx.unrecognised(U, "LogarithmicUnitType.conversions", f"entry {key!r}", f"unknown generic map {fn}")
            continue
        rkey = f"{Y}_{X}"
        if rkey not in conv:
            ctx.violated(U, "LogarithmicUnitType.conversions", f"entry {key!r} has a reverse entry", detail="missing",
                         expected=rkey)
            continue
        rev = tuple(conv[rkey])
        if fn == "_convert_B_B":
            a = ent[1] if len(ent) > 1 else 0
            b = rev[1] if len(rev) > 1 else 0
            ok = rev[0] == "_convert_B_B" and close(a + b, 0.0)
            ctx.check(ok, U, "LogarithmicUnitType.conversions", f"offsets {key!r}/{rkey!r} are antisymmetric",
                      detail=[list(ent), list(rev)], expected="offset(X->Y) = -offset(Y->X)")
        else:
            ok = rev[0] == inverse[fn] and len(ent) == 3 and len(rev) == 3 and close(ent[1], rev[1]) and \
                close(ent[2] * rev[2], 1.0, 1e-12)
            ctx.check(ok, U, "LogarithmicUnitType.conversions", f"{key!r} and {rkey!r} invert each other",
                      detail=[list(ent), list(rev)], expected="inverse map, same exponent, reference * reference' = 1")
    for u in process:
        k = f"{u}_{u}"
        if k in conv:
            e = tuple(conv[k])
            ok = e[0] == "_convert_B_B" and (len(e) == 1 or close(e[1], 0.0))
            ctx.check(ok, U, "LogarithmicUnitType.conversions", f"identity {k!r}", detail=list(e), expected=["_convert_B_B", 0])
        elif f"_convert_{k}" in ms:
            try:
                a, b = affine_in(_return_term(ms[f"_convert_{k}"], ["v"]), "v")
                ctx.check(close(a, 1.0) and close(b, 0.0), U, f"LogarithmicUnitType._convert_{k}", "identity", detail=[a, b])
            except NotSymbolic as e:
                ctx.unrecognised(U, f"LogarithmicUnitType._convert_{k}", "identity", str(e))
        else:
            ctx.violated(U, "LogarithmicUnitType.conversions", f"identity {k!r}", detail="missing",
                         expected="converting a unit to itself is the identity")
    # documented decibel offsets
    for (X, Y), off in OFFSETS.items():
        k = f"{X}_{Y}"
        e = tuple(conv.get(k, ()))
        ctx.check(len(e) >= 1 and e[0] == "_convert_B_B" and close((e[1] if len(e) > 1 else 0), off), U,
                  "LogarithmicUnitType.conversions", f"offset {k!r}", detail=list(e), expected=["_convert_B_B", off])
    # fall-back methods: Bel <-> Neper
    facs = {}
    for nm in ("_convert_B_Np", "_convert_Np_B"):
        fn = ms.get(nm)
        if fn is None:
            ctx.violated(U, "LogarithmicUnitType", nm, detail="missing")
            continue
        try:
            t = _return_term(fn, ["v"])
            co = t.coeffs_in("v")
            if set(co) - {1}:
                raise NotSymbolic("not linear")
            facs[nm] = co[1]
        except NotSymbolic as e:
            ctx.unrecognised(U, f"LogarithmicUnitType.{nm}", "linear factor", str(e))
    def num(t):
        # evaluate constant term possibly containing ln(10)
        k = t.key()
        val = 0.0
        for m, cc in t.n.t.items():
            prod = float(cc)
            for atom, p in m:
                if atom == "ln(10*1)" or atom == "ln(10)":
                    prod *= math.log(10) ** p
                else:
                    raise NotSymbolic(f"atom {atom}")
            val += prod
        den = 0.0
        for m, cc in t.d.t.items():
            prod = float(cc)
            for atom, p in m:
                if atom in ("ln(10*1)", "ln(10)"):
                    prod *= math.log(10) ** p
                else:
                    raise NotSymbolic(f"atom {atom}")
            den += prod
        return val / den
    if len(facs) == 2:
        try:
            f1, f2 = num(facs["_convert_B_Np"]), num(facs["_convert_Np_B"])
            ctx.check(close(f1, math.log(10) / 2, 1e-9), U, "LogarithmicUnitType._convert_B_Np", "factor is ln(10)/2",
                      detail=f1, expected=math.log(10) / 2)
            ctx.check(close(f1 * f2, 1.0, 1e-12), U, "LogarithmicUnitType._convert_Np_B", "inverse of the Bel->Neper factor",
                      detail=f2, expected=2 / math.log(10))
        except NotSymbolic as e:
            ctx.unrecognised(U, "LogarithmicUnitType._convert_B_Np", "factor", str(e))
    # _istype: table lookup first, then method by name
    ist = norm(ms["_istype"]) if "_istype" in ms else ""
    ok = "self.conversions[conversion]" in ist and "f'_convert_{conversion}'" in ist and \
        "f'{self.baseunits1.units[0]}_{self.baseunits2.units[0]}'" in ist and "self.process" in ist
    if ok:
        ctx.holds(U, "LogarithmicUnitType._istype", "claims pairs touching `process`; table entry first, method by name otherwise")
    else:
        ctx.unrecognised(U, "LogarithmicUnitType._istype", "dispatch", "claim/dispatch idiom not recognised")


def r4_reference_levels(ctx):
    conv = _class_literal(ctx, "LogarithmicUnitType", "conversions")
    cols, rows = unit_standard(ctx.repo)
    mi = cols.index("magnitude")
    n = 0
    for unit, (exp, lin, ref) in REFS.items():
        k = f"{lin}_{unit}"
        if k not in conv:
            ctx.violated(U, "LogarithmicUnitType.conversions", f"entry {k!r}", detail="missing")
            continue
        e = tuple(conv[k])
        want = 1.0 / (float(rows[lin][mi]) * ref)
        n += 1
        ok = e[0] == "_convert_Ratio_B" and len(e) == 3 and close(e[1], exp) and close(e[2], want, 1e-9)
        ctx.check(ok, U, "LogarithmicUnitType.conversions", f"{k!r}: exponent and reference level", detail=list(e),
                  expected=["_convert_Ratio_B", exp, want])
    for (lin, unit), exp in RATIO.items():
        k = f"{lin}_{unit}"
        e = tuple(conv.get(k, ()))
        n += 1
        fn = "_convert_Ratio_B" if unit == "B" else "_convert_Ratio_Np"
        ok = len(e) == 3 and e[0] == fn and close(e[1], exp) and close(e[2], 1.0)
        ctx.check(ok, U, "LogarithmicUnitType.conversions", f"{k!r}: exponent of a plain ratio", detail=list(e),
                  expected=[fn, exp, 1])
    ctx.floor("reference-level entries", n, 15)
    # unit factors of the logarithmic units themselves are 1 (bels); prefixes only 'd' (and 'c','d' for Np)
    pi = cols.index("prefixes")
    for unit in list(REFS) + ["B", "Np"]:
        if unit in rows:
            ctx.check(close(float(rows[unit][mi]), 1.0), SETTINGS, "UNIT_STANDARD", f"factor of {unit!r} is 1 (bel)",
                      detail=rows[unit][mi], expected=1)


# ---------------------------------------------------------------- R5
class Obj(dict):
    pass


def _level_sum(ctx, name, sign):
    fn = ctx.fn(U, f"LogarithmicUnitType.{name}")
    p1, p2 = [a.arg for a in fn.args.args[1:3]]
    guards = []
    env = {}
    ev = SymEval()
    V1, V2, M = Term.sym("v1"), Term.sym("v2c"), Term.sym("m1")
    ev.env[f"{p1}.magnitude.value"] = V1
    ev.env[f"{p1}.baseunits.magnitude"] = M
    objs = {}
    result = None
    conv_ok = False
    for st in K.body_nodoc(fn):
        if isinstance(st, ast.If) and any(isinstance(x, ast.Raise) for x in st.body) and not st.orelse:
            guards.append(norm(st.test))
            continue
        if isinstance(st, ast.Assign) and len(st.targets) == 1:
            t, v = st.targets[0], st.value
            if isinstance(t, ast.Name):
                if isinstance(v, ast.Attribute) and v.attr == "magnitude" and isinstance(v.value, ast.Call):
                    v = v.value   # <conversion>(...).magnitude
                if isinstance(v, ast.Call) and isinstance(v.func, ast.Attribute) and v.func.attr in ("_convert", "to"):
                    recv = dotted_name(v.func.value)
                    tgt = norm(v.args[-1]) if v.args else ""
                    conv_ok = recv == p2 and tgt == f"{p1}.baseunits"
                    o = Obj(value=V2, error=Term.sym("e2"))
                    if v.func.attr == "to":
                        o = Obj(value=V2, error=Term.sym("e2"))
                    objs[t.id] = o
                    continue
                if isinstance(v, ast.Attribute) and norm(v) == f"{p1}.magnitude":
                    objs[t.id] = Obj(value=V1, error=Term.sym("e1"), alias=f"{p1}.magnitude")
                    continue
                if isinstance(v, ast.Call) and dotted_name(v.func) == "Magnitude" and v.args:
                    objs[t.id] = Obj(value=_ev_obj(ev, objs, v.args[0]), error=Term.sym("err"))
                    continue
                if isinstance(v, ast.BinOp) and isinstance(v.left, ast.Name) and isinstance(v.right, ast.Name) \
                        and v.left.id in objs and v.right.id in objs and isinstance(v.op, (ast.Add, ast.Sub)):
                    a, b = objs[v.left.id]["value"], objs[v.right.id]["value"]
                    objs[t.id] = Obj(value=(a + b) if isinstance(v.op, ast.Add) else (a - b), error=Term.sym("err"))
                    continue
            if isinstance(t, ast.Attribute) and isinstance(t.value, ast.Name) and t.value.id in objs and t.attr == "value":
                objs[t.value.id]["value"] = _ev_obj(ev, objs, v)
                continue
        if isinstance(st, ast.Return) and isinstance(st.value, ast.Name) and st.value.id in objs:
            result = objs[st.value.id]["value"]
            continue
        raise NotSymbolic(f"statement {norm(st)}")
    if result is None:
        raise NotSymbolic("no returned magnitude")
    P = lambda x: func("pow", Term.const(10), x)   # noqa: E731
    inner = P(V1 * M) + P(V2 * M) if sign > 0 else P(V1 * M) - P(V2 * M)
    want = func("log10", inner) / M
    return result, want, guards, conv_ok, (p1, p2)


def _ev_obj(ev, objs, node):
    # substitute obj.value attribute reads
    class T(ast.NodeTransformer):
        def visit_Attribute(self, n):
            if isinstance(n.value, ast.Name) and n.value.id in objs and n.attr == "value":
                return ast.Name(id=f"__{n.value.id}_value", ctx=ast.Load())
            return self.generic_visit(n)
    import copy
    node2 = T().visit(copy.deepcopy(node))
    for k, o in objs.items():
        ev.env[f"__{k}_value"] = o["value"]
    return ev.ev(node2)


def r5_level_addition(ctx):
    for name, sign in (("add", 1), ("sub", -1)):
        try:
            got, want, guards, conv_ok, (p1, p2) = _level_sum(ctx, name, sign)
        except NotSymbolic as e:
            ctx.unrecognised(U, f"LogarithmicUnitType.{name}", "level sum", str(e))
            continue
        ctx.check(got.equals(want), U, f"LogarithmicUnitType.{name}", "power-sum closed form", detail=got.key(),
                  expected=want.key())
        ctx.check(conv_ok, U, f"LogarithmicUnitType.{name}", "right operand is brought to the left operand's unit first")
        g = " ;; ".join(guards)
        ctx.form("self.baseunits1.dimensions != self.baseunits2.dimensions" in g, U, f"LogarithmicUnitType.{name}",
                  "different dimensions are refused", detail=guards)
        ctx.check("self.baseunits1.units != self.baseunits2.units" in g, U, f"LogarithmicUnitType.{name}",
                  "different level units are refused", detail=guards)


# ---------------------------------------------------------------- R6
def r6_tables_agree(ctx):
    cols, rows = unit_standard(ctx.repo)
    di = cols.index("definition")
    for cname in ("TemperatureUnitType", "LogarithmicUnitType"):
        process = _class_literal(ctx, cname, "process")
        named = [u for u, r in rows.items() if isinstance(r[di], ClassRef) and r[di].name == cname]
        ctx.check(set(process) == set(named), U, cname, "process list = table rows whose definition names the class",
                  detail={"process": sorted(process), "table": sorted(named)})
    types = module_const(ctx.repo, "UNIT_TYPES")
    names = [t.name for t in types]
    ok = "StandardUnitType" in names and all(names.index(s) < names.index("StandardUnitType")
                                              for s in ("TemperatureUnitType", "LogarithmicUnitType") if s in names) \
        and {"TemperatureUnitType", "LogarithmicUnitType"} <= set(names)
    ctx.check(ok, SETTINGS, "UNIT_TYPES", "temperature and logarithmic types are tried before the standard type",
              detail=names)
    # the type loop takes the first type that claims the pair
    q = "src/scinumtools/units/quantity.py"
    fn = ctx.fn(q, "Quantity._convert")
    fl = K.first_claim_loop(fn)
    ok = fl is not None and fl["iter"] == "UNIT_TYPES" and fl["claimed_all_return"] and fl["falls_through"] and fl["exhausted_raises"]
    ctx.form(ok, q, "Quantity._convert", "first claiming type converts; no claiming type is an error")


def r7_failed_conversion(ctx):
    _C04.r4_atomic_to(ctx)


def r8_dispatch_and_readonly(ctx):
    """Level arithmetic and conversions are what the unit types define only if (a) every sum/difference reaches the
    claiming type's add/sub - no path returns before the type dispatch - and (b) a conversion does not write to its
    operand, so converting the same quantity again gives the same value (shared with C07.R1)."""
    from . import C07 as _C07
    q = "src/scinumtools/units/quantity.py"
    for name in ("_add", "_sub", "_convert"):
        fn = ctx.fn(q, f"Quantity.{name}")
        fl = K.first_claim_loop(fn)
        if fl is None:
            ctx.unrecognised(q, f"Quantity.{name}", "type dispatch", "first-claim loop over UNIT_TYPES not recognised")
            continue
        ctx.check(not fl["returns_before_loop"], q, f"Quantity.{name}", "no result is returned before the unit types were asked (logarithmic and temperature rules cannot be bypassed)",
                  detail=fl["returns_before_loop"] or None, expected="every return is the claiming type's result")
    _C07.r1_no_operand_mutation(ctx)


def r9_types_stay_registered(ctx):
    """The temperature and logarithmic rules apply as long as their types are in UNIT_TYPES: a unit scope removes only
    the types it inserted itself (do/undo pairing of the one table writer, shared with C09.R2)."""
    from . import C09 as _C09
    _C09.r2_pairing(ctx)
    # to() converts in place: a unit quantity handed out twice from a memo (module- or class-level) makes the second
    # user convert an already converted object - 25 Cel -> K gives 6853.75 (shared with C09.R6)
    _C09.r6_no_derived_state(ctx)


RULES = [
    ("C05.R1", "each pairwise temperature method is the affine map alpha*v+beta required by the standard scale relations and the tabulated unit factors (tolerance 1e-9)", r1_temperature_formulas),
    ("C05.R2", "every ordered temperature pair the type claims (touching Cel/degF, identity included) has a conversion method; a missing method is an error", r2_temperature_complete),
    ("C05.R3", "logarithmic table closure: generic maps have the log/exp shapes, every entry has an inverse entry (same exponent, reciprocal reference), offsets antisymmetric, identities present, Bel<->Neper factor ln(10)/2", r3_log_table),
    ("C05.R4", "exponent and reference level of every documented logarithmic unit given the tabulated factor of its linear unit", r4_reference_levels),
    ("C05.R5", "level addition/subtraction is log10(10^(a m) +- 10^(b m))/m after bringing b to a's unit; dimension and unit guards raise", r5_level_addition),
    ("C05.R6", "process lists equal the table rows naming the class; special types precede the standard type; first claiming type wins", r6_tables_agree),
    ("C05.R9", "the built-in conversion types stay registered: a unit scope removes from UNIT_TYPES exactly what it inserted (shared with C09.R2)", r9_types_stay_registered),
    ("C05.R8", "every sum/difference/conversion goes through the unit-type dispatch (no early return); conversions do not write to their operand (effect analysis shared with C07.R1)", r8_dispatch_and_readonly),
    ("C05.R7", "a refused temperature/logarithmic conversion leaves the quantity untouched (store-before-raise path rule of to(), shared with C04.R4)", r7_failed_conversion),
]
