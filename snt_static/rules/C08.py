"""C08 — uncertainty propagation. Decided: (R1) by induction over the constructors of
Magnitude, every error term the package computes is derived non-negative (or None) in a sign
domain, assuming operands' errors are non-negative; (R2) sum rule tables of _add/_sub over
(exact/uncertain)^2; (R3) with one exact operand the error is |k|*e (product) or e/|k|
(quotient by an exact number); (R4) the two-sided product/quotient interval formulas expand
to first order plus remainder (polynomial / rational identities); (R5) on the linear path of
unit conversion the error is scaled by the same two unit factors as the value, and None stays
None. NOT decided: tightness of the interval formulas, numpy reduction semantics on arrays."""
import ast

from ..model import AnalysisError, dotted_name, methods, norm, walk_no_nested
from ..predtable import Unrecognised
from ..symexec import NONE, execute
from ..symexpr import NotSymbolic, SymEval, Term, func
from ..unittables import UNIT_TYPES_PY
from . import common as K

from . import C07 as _C07

LEVEL_TEXT = ("static analysis (ast): sign-domain abstract interpretation of every computed error term, decision "
              "tables of the exact/uncertain branches and polynomial identities of the interval formulas; covers "
              "all magnitudes and all signs at once, which sampled tests with positive values cannot")
LEVEL_NOTE = ("trusted: np.abs/np.max/np.sqrt return non-negative results for real inputs; uncertainties handed in "
              "by the user through abse=/abse() are the user's responsibility (not results)")
TECHNIQUE = "sign-domain abstract interpretation + symbolic identities over ast (static analysis)"

MAG = "src/scinumtools/units/magnitude.py"
QTY = "src/scinumtools/units/quantity.py"
UT = UNIT_TYPES_PY

NONNEG, ANY, NONEV, UNKNOWN = "NonNeg", "Any", "None", "Unknown"     # Unknown: a construct the sign domain does not interpret
PUBLIC_INPUT = {("Magnitude.__init__", "abse"), ("Magnitude.abse", "abse"), ("Quantity.__init__", "abse"),
                ("Quantity.abse", "error"), ("Quantity.__init__", "rele"), ("Magnitude.__init__", "rele"),
                ("Magnitude.rele", "rele"), ("Quantity.rele", "error")}


def join(a, b):
    if a == b:
        return a
    if {a, b} <= {NONNEG, NONEV}:
        return NONNEG   # "non-negative or None"
    if ANY in (a, b):
        return ANY
    return UNKNOWN


class Sign:
    """Sign of an expression given an environment of local names."""

    def __init__(self, ctx, relpath, cls_methods, env):
        self.ctx, self.relpath, self.cm, self.env = ctx, relpath, cls_methods, env
        self.depth = 0

    def of(self, n):
        if isinstance(n, ast.Constant):
            if n.value is None:
                return NONEV
            if isinstance(n.value, (int, float)) and not isinstance(n.value, bool):
                return NONNEG if n.value >= 0 else ANY
            return ANY
        if isinstance(n, ast.Name):
            return self.env.get(n.id, ANY)
        if isinstance(n, ast.Attribute):
            d = dotted_name(n)
            if d in self.env:
                return self.env[d]
            if n.attr == "error":
                return NONNEG      # inductive hypothesis: stored errors are non-negative or None
            return ANY
        if isinstance(n, (ast.List, ast.Tuple)):
            # a list of terms (argument of max/sum): non-negative when every element is
            r = None
            for e in n.elts:
                s_ = self.of(e)
                r = s_ if r is None else (s_ if r == s_ else (ANY if ANY in (r, s_) else (NONNEG if {r, s_} <= {NONNEG, NONEV} else UNKNOWN)))
            return r or UNKNOWN
        if isinstance(n, ast.BinOp):
            a, b = self.of(n.left), self.of(n.right)
            if UNKNOWN in (a, b) and ANY not in (a, b):
                return UNKNOWN
            if isinstance(n.op, (ast.Add, ast.Mult, ast.Div)):
                return NONNEG if a == NONNEG and b == NONNEG else ANY
            if isinstance(n.op, ast.Pow):
                return NONNEG if a == NONNEG else ANY
            return ANY
        if isinstance(n, ast.UnaryOp):
            if isinstance(n.op, ast.UAdd):
                return self.of(n.operand)
            return ANY
        if isinstance(n, ast.IfExp):
            return join(self.of(n.body), self.of(n.orelse))
        if isinstance(n, ast.Call):
            f = dotted_name(n.func) or ""
            if f in ("np.abs", "abs", "np.absolute", "np.fabs", "numpy.abs", "np.sqrt", "math.sqrt", "math.fabs"):
                return NONNEG
            if f in ("np.max", "max", "np.maximum", "np.amax", "np.min", "min", "np.minimum", "np.sum", "sum",
                     "np.hypot"):
                args = n.args[0].elts if len(n.args) == 1 and isinstance(n.args[0], (ast.List, ast.Tuple)) else n.args
                sg = [self.of(a) for a in args if not isinstance(a, ast.keyword)]
                if sg and all(x == NONNEG for x in sg):
                    return NONNEG
                return ANY if ANY in sg else UNKNOWN
            if f in ("np.full_like",) and len(n.args) == 2:
                return self.of(n.args[1])
            if f in ("float", "np.array", "np.asarray", "Decimal", "np.float64") and n.args:
                return self.of(n.args[0])
            if f.startswith("self.") and f[5:] in self.cm and self.depth < 3:
                return self.method_return(self.cm[f[5:]])
            return UNKNOWN          # a call the domain does not know
        if isinstance(n, (ast.ListComp, ast.GeneratorExp, ast.Subscript, ast.Dict, ast.JoinedStr, ast.Lambda)):
            return UNKNOWN
        return ANY

    def method_return(self, fn):
        """Join of the signs of all return expressions with parameters of unknown sign."""
        self.depth += 1
        try:
            sub = Sign(self.ctx, self.relpath, self.cm, {})
            sub.depth = self.depth
            res = None
            flow(fn.body, sub)
            for r in [x for x in walk_no_nested(fn) if isinstance(x, ast.Return)]:
                s = sub.of(r.value) if r.value is not None else NONEV
                res = s if res is None else join(res, s)
            return res or ANY
        finally:
            self.depth -= 1


def flow(stmts, S):
    """Forward pass binding local names to signs (branches joined; loops run once)."""
    for st in stmts:
        if isinstance(st, ast.Assign):
            v = S.of(st.value)
            for t in st.targets:
                if isinstance(t, ast.Name):
                    S.env[t.id] = v
                elif isinstance(t, ast.Attribute) and dotted_name(t) and t.attr != "error":
                    S.env[dotted_name(t)] = v      # stores to .error are checked as sites; reads use the invariant
                elif isinstance(t, ast.Tuple) and isinstance(st.value, ast.Tuple) and len(t.elts) == len(st.value.elts):
                    for tt, vv in zip(t.elts, st.value.elts):
                        if isinstance(tt, ast.Name):
                            S.env[tt.id] = S.of(vv)
        elif isinstance(st, ast.AugAssign) and isinstance(st.target, ast.Name):
            cur, v = S.env.get(st.target.id, ANY), S.of(st.value)
            S.env[st.target.id] = NONNEG if isinstance(st.op, (ast.Add, ast.Mult, ast.Div)) and cur == NONNEG and v == NONNEG else ANY
        elif isinstance(st, ast.If):
            e0 = dict(S.env)
            flow(st.body, S)
            e1 = dict(S.env)
            S.env.clear()
            S.env.update(e0)
            flow(st.orelse, S)
            e2 = dict(S.env)
            S.env.clear()
            for k in set(e1) | set(e2):
                a, b = e1.get(k), e2.get(k)
                S.env[k] = join(a, b) if a is not None and b is not None else ANY
        elif isinstance(st, (ast.For, ast.While, ast.With, ast.Try)):
            for blk in ("body", "orelse", "finalbody"):
                flow(getattr(st, blk, []) or [], S)
            for h in getattr(st, "handlers", []):
                flow(h.body, S)


def _error_sites(fn):
    """(node, error-argument expr or None-if-omitted, kind) for Magnitude(...) constructions and error stores."""
    out = []
    for n in walk_no_nested(fn):
        if isinstance(n, ast.Call) and dotted_name(n.func) == "Magnitude":
            err = n.args[1] if len(n.args) > 1 else None
            for k in n.keywords:
                if k.arg == "abse":
                    err = k.value
            out.append((n, err, "ctor"))
        if isinstance(n, ast.Assign):
            for t in n.targets:
                if isinstance(t, ast.Attribute) and t.attr == "error":
                    out.append((n, n.value, "store"))
    return out


def r1_nonnegative(ctx):
    nsites = ncomputed = 0
    for rel, classes in ((MAG, None), (UT, None), (QTY, None)):
        mod = ctx.repo.module(rel)
        units = []
        for cname, c in mod.classes.items():
            for mname, fn in methods(c).items():
                units.append((f"{cname}.{mname}", fn, methods(c)))
        for fname, fn in mod.functions.items():
            units.append((fname, fn, {}))
        for qual, fn, cm in units:
            sites = _error_sites(fn)
            if not sites:
                continue
            ctx.functions_analysed.add(f"{rel}::{qual}")
            for node, err, kind in sites:
                nsites += 1
                if err is None:
                    ctx.holds(rel, qual, f"{kind}: {norm(node)[:90]}", detail="exact (no error)", trivial=True)
                    continue
                # statements dominating the site: flow over the whole function, then refine along the path to the site
                S = Sign(ctx, rel, cm, {})
                _flow_to(fn, node, S)
                if isinstance(err, ast.Name) and (qual, err.id) in PUBLIC_INPUT and S.env.get(err.id) is None:
                    ctx.holds(rel, qual, f"{kind}: {norm(node)[:90]}", detail="user-supplied uncertainty (input, not a result)",
                              trivial=True)
                    continue
                sg = S.of(err)
                local = isinstance(err, ast.Name) and any(
                    isinstance(a, ast.Assign) and any(isinstance(t, ast.Name) and t.id == err.id for t in a.targets)
                    for a in ast.walk(fn))
                if local or not isinstance(err, (ast.Constant, ast.Name, ast.Attribute)):
                    ncomputed += 1
                if sg == UNKNOWN:
                    ctx.unrecognised(rel, qual, f"{kind}: error term {norm(err)[:90]}", "the sign domain does not interpret a part of this term")
                else:
                    ctx.check(sg in (NONNEG, NONEV), rel, qual, f"{kind}: error term {norm(err)[:90]}", detail=sg,
                              expected="NonNeg or None")
    ctx.floor("error-term sites", nsites, 14)
    ctx.floor("computed error terms", ncomputed, 6)
    ctx.info["error_sites"] = nsites


def _flow_to(fn, target, S):
    """Flow-sensitive environment at `target`: follow only the blocks that contain it."""
    def contains(st):
        return any(x is target for x in ast.walk(st))

    def go(stmts):
        for st in stmts:
            if not contains(st):
                flow([st], S)
                continue
            if isinstance(st, ast.If):
                if any(contains(x) for x in st.body):
                    go(st.body)
                else:
                    go(st.orelse)
            elif isinstance(st, (ast.For, ast.While, ast.With, ast.Try)):
                for blk in ("body", "orelse", "finalbody"):
                    b = getattr(st, blk, []) or []
                    if any(contains(x) for x in b):
                        go(b)
                for h in getattr(st, "handlers", []):
                    if any(contains(x) for x in h.body):
                        go(h.body)
            return True
        return False
    go(fn.body)


# ---------------------------------------------------------------- R2..R4: branch tables of Magnitude
def _decider(lnone, rnone):
    def decide(node, h):
        s = norm(node)
        tab = {"left.error is None": lnone, "left.error is not None": not lnone,
               "right.error is None": rnone, "right.error is not None": not rnone}
        if s in tab:
            return tab[s]
        if s.startswith("isinstance(") and "Decimal" in s:
            return False      # float branch; the Decimal branch is compared separately by R2b
        return None
    return decide


def _cell_error(ctx, mname, lnone, rnone, decimal=False):
    fn = ctx.fn(MAG, f"Magnitude.{mname}")
    env = {"left.value": Term.sym("l"), "right.value": Term.sym("r"),
           "left.error": NONE if lnone else Term.sym("le"), "right.error": NONE if rnone else Term.sym("re")}

    def decide(node, h):
        s = norm(node)
        if s.startswith("isinstance(") and "Decimal" in s:
            return decimal
        return _decider(lnone, rnone)(node, h)
    h, sig = execute(fn, decide, env)
    if not h.returned or not isinstance(h.ret, ast.Call) or dotted_name(h.ret.func) != "Magnitude" or len(h.ret.args) != 2:
        raise Unrecognised("does not return Magnitude(value, error)")
    return h.value(h.ret.args[0]), h.value(h.ret.args[1])


def r2_sum_rule(ctx):
    from . import C06 as _C06
    _C06.r2_shapes(ctx)             # negation, product and quotient hand the whole magnitude (value and uncertainty) on (shared with C06.R2)
    l, r, le, re_ = (Term.sym(x) for x in ("l", "r", "le", "re"))
    for m, sign in (("_add", 1), ("_sub", -1)):
        for lnone in (True, False):
            for rnone in (True, False):
                cell = f"exact-left={lnone} exact-right={rnone}"
                try:
                    v, e = _cell_error(ctx, m, lnone, rnone)
                    vd, ed = _cell_error(ctx, m, lnone, rnone, decimal=True)
                except (Unrecognised, NotSymbolic) as ex:
                    ctx.unrecognised(MAG, f"Magnitude.{m}", cell, str(ex))
                    continue
                want = NONE if (lnone and rnone) else (re_ if lnone else (le if rnone else le + re_))
                ok = (e is NONE and want is NONE) or (e is not NONE and want is not NONE and e.equals(want))
                ctx.check(ok, MAG, f"Magnitude.{m}", f"error cell {cell}", detail=e.key(), expected=want.key())
                wv = l + r if sign > 0 else l - r
                ctx.check(v is not NONE and v.equals(wv), MAG, f"Magnitude.{m}", f"value cell {cell}", detail=v.key(),
                          expected=wv.key())
                ctx.check(vd is not NONE and vd.equals(wv), MAG, f"Magnitude.{m}", f"value cell (Decimal) {cell}",
                          detail=vd.key(), expected=wv.key())


def _accept(e, forms):
    return e is not NONE and any(e.equals(f) for f in forms)


def r3_exact_factor(ctx):
    l, r, le, re_ = (Term.sym(x) for x in ("l", "r", "le", "re"))
    A = lambda t: func("abs", t)   # noqa: E731
    cases = [
        ("_mul", True, False, [A(re_ * l), re_ * A(l), A(re_) * A(l)], "|k|*e with k the exact left operand"),
        ("_mul", False, True, [A(le * r), le * A(r), A(le) * A(r)], "|k|*e with k the exact right operand"),
        ("_truediv", False, True, [A(le / r), le / A(r), A(le) / A(r)], "e/|k| with k the exact divisor"),
    ]
    for m, lnone, rnone, forms, text in cases:
        cell = f"exact-left={lnone} exact-right={rnone}"
        try:
            v, e = _cell_error(ctx, m, lnone, rnone)
        except (Unrecognised, NotSymbolic) as ex:
            ctx.unrecognised(MAG, f"Magnitude.{m}", cell, str(ex))
            continue
        ctx.check(_accept(e, forms), MAG, f"Magnitude.{m}", f"error cell {cell}", detail=e.key(),
                  expected=f"{text}: {forms[0].key()}")
    for m in ("_mul", "_truediv"):
        try:
            v, e = _cell_error(ctx, m, True, True)
            ctx.check(e is NONE, MAG, f"Magnitude.{m}", "exact operands give an exact result", detail=e.key())
            wv = l * r if m == "_mul" else l / r
            ctx.check(v.equals(wv), MAG, f"Magnitude.{m}", "value term", detail=v.key(), expected=wv.key())
            vd, _ = _cell_error(ctx, m, True, True, decimal=True)
            ctx.check(vd.equals(wv), MAG, f"Magnitude.{m}", "value term (Decimal)", detail=vd.key(), expected=wv.key())
        except (Unrecognised, NotSymbolic) as ex:
            ctx.unrecognised(MAG, f"Magnitude.{m}", "exact cell", str(ex))
    # power and negation keep exactness, negation keeps the error
    from ..flowexpr import paths
    fn = ctx.fn(MAG, "Magnitude.__neg__")
    rets = [norm(e.resolved) for q in paths(fn) for e in q.events if e.kind == "return"]
    ctx.check(rets == ["Magnitude(-self.value, self.error)"], MAG, "Magnitude.__neg__", "negation keeps the uncertainty", detail=rets)
    fn = ctx.fn(MAG, "Magnitude.__pow__")
    rows, bad, unk = [], [], []
    for q in paths(fn):
        exact = None
        for t in q.tests():
            k = norm(t.resolved)
            if k == "self.error is None":
                exact = t.extra
            elif k == "self.error is not None":
                exact = not t.extra
        ret = next((e.resolved for e in q.events if e.kind == "return"), None)
        if exact is None or not (isinstance(ret, ast.Call) and dotted_name(ret.func) == "Magnitude" and len(ret.args) == 2):
            unk.append([norm(t.resolved) for t in q.tests()])
            continue
        isnone = isinstance(ret.args[1], ast.Constant) and ret.args[1].value is None
        rows.append(f"exact={exact}: error={norm(ret.args[1])[:60]}")
        if exact != isnone:
            bad.append(rows[-1])
    if unk or not rows:
        ctx.unrecognised(MAG, "Magnitude.__pow__", "power of an exact value is exact", f"path not classified by a test of self.error: {unk[:1]}")
    else:
        ctx.check(not bad, MAG, "Magnitude.__pow__", "power of an exact value is exact", detail=bad or rows)


def r4_first_order(ctx):
    l, r, le, re_ = (Term.sym(x) for x in ("l", "r", "le", "re"))
    A = lambda t: func("abs", t)   # noqa: E731
    M = lambda a, b: func("max", *sorted([a, b], key=lambda t: t.key()))   # noqa: E731
    try:
        v, e = _cell_error(ctx, "_mul", False, False)
        want = M(A(l * re_ + r * le + le * re_), A(-(l * re_) - r * le + le * re_))
        ctx.check(e is not NONE and e.equals(want), MAG, "Magnitude._mul", "two-sided product error expands to first order + remainder",
                  detail=e.key(), expected=want.key())
    except (Unrecognised, NotSymbolic) as ex:
        ctx.unrecognised(MAG, "Magnitude._mul", "two-sided cell", str(ex))
    try:
        v, e = _cell_error(ctx, "_truediv", False, False)
        want = M(A((l + le) / (r - re_) - l / r), A((l - le) / (r + re_) - l / r))
        ctx.check(e is not NONE and e.equals(want), MAG, "Magnitude._truediv", "two-sided quotient error is the interval half-width",
                  detail=e.key(), expected=want.key())
        v, e = _cell_error(ctx, "_truediv", True, False)
        want = M(A(l / (r + re_) - l / r), A(l / (r - re_) - l / r))
        ctx.check(e is not NONE and e.equals(want), MAG, "Magnitude._truediv", "exact dividend: error is the interval half-width",
                  detail=e.key(), expected=want.key())
    except (Unrecognised, NotSymbolic) as ex:
        ctx.unrecognised(MAG, "Magnitude._truediv", "two-sided cell", str(ex))
    # reflected operators keep operand order
    for op in ("add", "sub", "mul", "truediv"):
        for refl, want in ((f"__{op}__", f"return self._{op}(self, other)"), (f"__r{op}__", f"return self._{op}(other, self)")):
            fn = ctx.fn(MAG, f"Magnitude.{refl}")
            last = norm(K.body_nodoc(fn)[-1])
            ctx.check(last == want, MAG, f"Magnitude.{refl}", "operand order", detail=last, expected=want)


# ---------------------------------------------------------------- R5
def r5_conversion(ctx):
    from . import C09 as _C09
    _C09.r6_no_derived_state(ctx)     # the factor that rescales the uncertainty is the live one of the tables, not a memo (shared with C09.R6)
    fn = ctx.fn(UT, "UnitType.convert")
    p = fn.args.args[1].arg
    for has_err in (True, False):
        for linear in (True, False):
            for dec in (False, True):
                env = {f"{p}.value": Term.sym("x"), "self.baseunits1.magnitude": Term.sym("f1"),
                       "self.baseunits2.magnitude": Term.sym("f2"), f"{p}.error": Term.sym("e") if has_err else NONE}

                def decide(node, h, has_err=has_err, linear=linear, dec=dec):
                    s = norm(node)
                    if s.startswith("hasattr("):
                        return True
                    if s.startswith("isinstance(") and "Decimal" in s:
                        return dec
                    if isinstance(node, ast.Compare) and len(node.ops) == 1:
                        lft, rgt = node.left, node.comparators[0]
                        if isinstance(rgt, ast.Constant) and rgt.value is None:
                            v = h.value(lft)
                            if isinstance(node.ops[0], ast.IsNot):
                                return v is not NONE
                            if isinstance(node.ops[0], ast.Is):
                                return v is NONE
                        if norm(lft) == "self.conversion[0]" and isinstance(rgt, ast.Constant) and isinstance(rgt.value, str):
                            isl = rgt.value == "_convert_linear"
                            if isinstance(node.ops[0], ast.Eq):
                                return linear if isl else None
                            if isinstance(node.ops[0], ast.NotEq):
                                return (not linear) if isl else None
                    return None
                cell = f"uncertain={has_err} linear={linear} decimal={dec}"

                def inline(call, ev):
                    f = norm(call.func)
                    if f == "getattr(self, self.conversion[0])" and call.args:
                        a0 = ev.ev(call.args[0])
                        return a0 if linear else func("rule", a0)
                    return None
                try:
                    h, sig = execute(fn, decide, env, inline=inline)
                    if not h.returned or not isinstance(h.ret, ast.Call) or dotted_name(h.ret.func) != "Magnitude" \
                            or len(h.ret.args) != 2:
                        raise Unrecognised("does not return Magnitude(value, error)")
                    v, e = h.value(h.ret.args[0]), h.value(h.ret.args[1])
                except (Unrecognised, NotSymbolic) as ex:
                    ctx.unrecognised(UT, "UnitType.convert", cell, str(ex))
                    continue
                x, f1, f2, er = (Term.sym(s) for s in ("x", "f1", "f2", "e"))
                A = lambda t: func("abs", t)   # noqa: E731
                if linear:
                    ctx.check(v is not NONE and v.equals(x * f1 / f2), UT, "UnitType.convert", f"value {cell}",
                              detail=v.key(), expected=(x * f1 / f2).key())
                else:
                    want = func("rule", x * f1) / f2
                    ctx.check(v is not NONE and v.equals(want), UT, "UnitType.convert", f"value {cell}", detail=v.key(),
                              expected=want.key())
                if not has_err:
                    ctx.check(e is NONE, UT, "UnitType.convert", f"error {cell}: exact stays exact", detail=e.key())
                elif linear:
                    forms = [A(er * f1 / f2), er * A(f1 / f2), er * A(f1) / A(f2), A(er) * A(f1) / A(f2)]
                    ctx.check(_accept(e, forms), UT, "UnitType.convert", f"error {cell}: scaled like the value",
                              detail=e.key(), expected=forms[0].key())


    _scaled_converters(ctx)
    _paired_value_error(ctx)


def _paired_value_error(ctx):
    """Wherever a magnitude is rebuilt as Magnitude(f(X.value), Y.error) - the linearised operands of a level sum, a
    converted operand - value and uncertainty come from the same object X = Y."""
    n = 0
    for q in ("LogarithmicUnitType.add", "LogarithmicUnitType.sub"):
        fn = ctx.fn(UT, q)
        for c in [x for x in ast.walk(fn) if isinstance(x, ast.Call) and dotted_name(x.func) == "Magnitude" and len(x.args) == 2]:
            vals = {norm(a.value) for a in ast.walk(c.args[0]) if isinstance(a, ast.Attribute) and a.attr == "value" and isinstance(a.value, (ast.Name, ast.Attribute))
                    and not norm(a.value).endswith("baseunits")}
            vals = {v[:-len(".magnitude")] if v.endswith(".magnitude") else v for v in vals}
            errs = {norm(a.value) for a in ast.walk(c.args[1]) if isinstance(a, ast.Attribute) and a.attr == "error"}
            errs = {v[:-len(".magnitude")] if v.endswith(".magnitude") else v for v in errs}
            if len(vals) != 1 or len(errs) != 1:
                continue
            n += 1
            what = "a rebuilt magnitude takes value and uncertainty from the same operand"
            if vals == errs:
                ctx.holds(UT, q, what)
            else:
                ctx.violated(UT, q, what, detail=norm(c)[:110], expected=f"Magnitude(f({sorted(vals)[0]}.value), {sorted(vals)[0]}.error)")
    ctx.floor("rebuilt magnitudes in the level sum/difference", n, 4)


def _scaled_converters(ctx):
    """convert() rescales the uncertainty only for the converter names it tests for.  Every converter the standard unit
    type can select whose rule is the identity (or a constant multiple) of its argument converts the value by the plain
    factor f1/f2, so it has to be among those names - otherwise the value is scaled and the uncertainty is not."""
    fn = ctx.fn(UT, "UnitType.convert")
    scaled = set()
    for c in ast.walk(fn):
        if isinstance(c, ast.Compare) and len(c.ops) == 1 and norm(c.left) == "self.conversion[0]":
            r = c.comparators[0]
            if isinstance(c.ops[0], (ast.Eq, ast.NotEq)) and isinstance(r, ast.Constant) and isinstance(r.value, str):
                scaled.add(r.value)
            elif isinstance(c.ops[0], (ast.In, ast.NotIn)) and isinstance(r, (ast.Tuple, ast.List, ast.Set)):
                scaled |= {e.value for e in r.elts if isinstance(e, ast.Constant) and isinstance(e.value, str)}
    ist = ctx.fn(UT, "StandardUnitType._istype")
    selected = set()
    for a in ast.walk(ist):
        if isinstance(a, ast.Assign) and any(norm(t) == "self.conversion" for t in a.targets) and isinstance(a.value, ast.Tuple) and a.value.elts:
            e0 = a.value.elts[0]
            if isinstance(e0, ast.Constant) and isinstance(e0.value, str):
                selected.add(e0.value)
            elif isinstance(e0, ast.JoinedStr) and all(isinstance(v, ast.Constant) for v in e0.values):
                selected.add("".join(v.value for v in e0.values))
    ctx.form(bool(scaled) and bool(selected), UT, "UnitType.convert", "the converter names with rescaled uncertainty and the names the standard type selects are found",
             detail={"rescaled": sorted(scaled), "selected": sorted(selected)})
    mod = ctx.repo.module(UT)
    for name in sorted(selected):
        owner = None
        for cname in ("StandardUnitType", "UnitType"):
            m_ = methods(ctx.repo.cls(UT, cname)).get(name)
            if m_ is not None:
                owner = (cname, m_)
                break
        if owner is None:
            ctx.form(False, UT, f"StandardUnitType.{name}", "selected converter is defined")
            continue
        cname, m_ = owner
        rets = [r.value for r in ast.walk(m_) if isinstance(r, ast.Return) and r.value is not None]
        arg = m_.args.args[1].arg if len(m_.args.args) >= 2 else None
        if len(rets) != 1 or arg is None:
            ctx.form(False, UT, f"{cname}.{name}", "selected converter is a single expression of its argument")
            continue
        try:
            t = SymEval({arg: Term.sym("x")}).ev(rets[0])
            x = Term.sym("x")
            proportional = t.equals(x) or (t / x).is_const() if hasattr(t, "is_const") else t.equals(x)
        except NotSymbolic:
            proportional = None
        what = f"converter {name}: an identity/proportional rule has its uncertainty rescaled by convert()"
        if proportional and scaled and name not in scaled:
            ctx.violated(UT, f"{cname}.{name}", what, detail={"rule": norm(rets[0]), "rescaled names": sorted(scaled)},
                         expected="the value is multiplied by f1/f2, so the absolute uncertainty must be too")
        elif proportional is None:
            ctx.form(False, UT, f"{cname}.{name}", what, detail=norm(rets[0]))
        else:
            ctx.holds(UT, f"{cname}.{name}", what)


# ---------------------------------------------------------------- R6
def _linear_scaling_of(node):
    """X if node is `X.value * f`, `f * X.value` or `X.value / f` (top-level linear scaling), else None."""
    if isinstance(node, ast.BinOp) and isinstance(node.op, (ast.Mult, ast.Div)):
        for side, other in ((node.left, node.right), (node.right, node.left)):
            if isinstance(side, ast.Attribute) and side.attr == "value" and dotted_name(side):
                if side is node.right and isinstance(node.op, ast.Div):
                    continue
                if isinstance(other, ast.Constant) and other.value in (1, 1.0):
                    continue
                return dotted_name(side)[: -len(".value")]
    return None


def r6_scaled_value_scaled_error(ctx):
    n = 0
    for rel in (MAG, UT, QTY, "src/scinumtools/units/unit_environment.py", "src/scinumtools/units/constant.py",
                "src/scinumtools/units/unit.py"):
        try:
            mod = ctx.repo.module(rel)
        except AnalysisError:
            continue
        for fn in [x for x in ast.walk(mod.tree) if isinstance(x, (ast.FunctionDef, ast.AsyncFunctionDef))]:
            from ..model import qualname
            q = qualname(fn)
            for node in walk_no_nested(fn):
                if isinstance(node, ast.Call) and dotted_name(node.func) == "Magnitude" and node.args:
                    n += 1
                    X = _linear_scaling_of(node.args[0])
                    err = node.args[1] if len(node.args) > 1 else None
                    if X is not None and err is not None and norm(err) == f"{X}.error":
                        ctx.violated(rel, q, f"scaled value with unscaled error: {norm(node)[:100]}",
                                     detail="value is X.value times a factor, error is X.error unchanged",
                                     expected="the absolute error is scaled by the same factor (e.g. through Magnitude.__mul__)")
                    else:
                        ctx.holds(rel, q, f"magnitude construction {norm(node)[:80]}", trivial=X is None)
                tg = None
                if isinstance(node, ast.AugAssign) and isinstance(node.op, (ast.Mult, ast.Div)):
                    tg, scaled = node.target, True
                elif isinstance(node, ast.Assign) and len(node.targets) == 1:
                    tg = node.targets[0]
                    scaled = _linear_scaling_of(node.value) is not None and \
                        _linear_scaling_of(node.value) + ".value" == (dotted_name(tg) or "")
                if tg is not None and isinstance(tg, ast.Attribute) and tg.attr == "value" and scaled and rel != MAG:
                    X = dotted_name(tg.value)
                    n += 1
                    touched = any(isinstance(a, (ast.Assign, ast.AugAssign)) and
                                  any(dotted_name(t) == f"{X}.error" for t in (a.targets if isinstance(a, ast.Assign) else [a.target]))
                                  for a in walk_no_nested(fn))
                    ctx.check(touched, rel, q, f"in-place scaling of {X}.value also scales {X}.error", detail=norm(node)[:100])
    ctx.floor("magnitude constructions scanned", n, 8)


def _array_values_are_float(ctx):
    """Magnitude.__init__ expands a scalar uncertainty with np.full_like(self.value, self.error): the error array takes
    the dtype of the value array.  Lists and arrays are therefore held as float arrays; an integer array stored as
    given turns abse=0.5 into 0.  On every non-raising path the expression stored to self.value is read: apart from the
    Decimal branch it converts (float(..), dtype=float, astype(float)); the argument itself is the violation."""
    from ..flowexpr import paths
    fn = ctx.fn(MAG, "Magnitude.__init__")
    pa = [a.arg for a in fn.args.args]
    pv = pa[1] if len(pa) > 1 else "value"
    what = "a list / array value is held as a float array (the expanded uncertainty takes its dtype)"
    seen = set()
    n = 0
    for q in paths(fn):
        if q.status == "raise":
            continue
        st = [e for e in q.events if e.kind == "store" and e.extra == "self.value"]
        if not st:
            continue
        v = st[0].resolved
        key = norm(v)
        if key in seen:
            continue
        seen.add(key)
        decimal = any(isinstance(t.resolved, ast.AST) and "Decimal" in norm(t.resolved) and t.extra for t in q.tests())
        leaves, todo = [], [v]
        while todo:
            x = todo.pop()
            if isinstance(x, ast.IfExp):
                todo += [x.body, x.orelse]
            else:
                leaves.append(x)
        n += 1
        for leaf in leaves:
            t = norm(leaf)
            if t == pv:
                if decimal:
                    ctx.holds(MAG, "Magnitude.__init__", what, detail="Decimal kept as given")
                else:
                    ctx.violated(MAG, "Magnitude.__init__", what, detail=f"self.value = {key[:100]}", expected=f"{pv}.astype(float) / np.array({pv}, dtype=float)")
            elif t.startswith("float(") or "dtype=float" in t or ".astype(float)" in t or "np.float64(" in t or "np.asarray(" in t and "float" in t:
                ctx.holds(MAG, "Magnitude.__init__", what, detail=t[:80])
            else:
                ctx.form(False, MAG, "Magnitude.__init__", what, detail=t[:100])
    ctx.floor("stores to Magnitude.value", n, 3)


def r8_stated_uncertainty_reaches_the_object(ctx):
    """abse(x) / rele(x) with an argument set the uncertainty.  The setter of Magnitude either writes self.error (then a
    caller may discard what it returns) or hands back a new object (then every caller has to keep the result).  The
    contract is read from the setter paths of Magnitude.abse/rele and compared with every call site in units/ that
    passes an argument to `<...magnitude>.abse(..)` / `.rele(..)`: a discarded result of a non-writing setter drops the
    uncertainty the user stated."""
    from ..flowexpr import paths
    what = "an uncertainty handed to abse(x)/rele(x) is kept: the setter writes self.error or its result is used"
    mc = ctx.repo.cls(MAG, "Magnitude")
    ms = methods(mc)
    writes = {}
    for name in ("abse", "rele"):
        fn = ms.get(name)
        if fn is None:
            ctx.unrecognised(MAG, f"Magnitude.{name}", what, "setter missing")
            continue
        ctx.functions_analysed.add(f"{MAG}::Magnitude.{name}")
        pa = [a.arg for a in fn.args.args]
        par = pa[1] if len(pa) > 1 else name
        setter = []
        for q in paths(fn):
            tt = [e for e in q.events if e.kind == "test" and isinstance(e.resolved, ast.AST) and norm(e.resolved) in (f"{par} is None", f"{par} is not None")]
            if not tt:
                continue
            given = all((e.extra is False) if norm(e.resolved) == f"{par} is None" else (e.extra is True) for e in tt)
            if given:
                setter.append(any(e.kind == "store" and e.extra == "self.error" for e in q.events))
        if not setter:
            ctx.unrecognised(MAG, f"Magnitude.{name}", what, f"no path with `{par}` given")
            continue
        writes[name] = all(setter)
    n = 0
    for rel in ctx.repo.all_py("src/scinumtools/units"):
        try:
            mod = ctx.repo.module(rel)
        except Exception:
            continue
        for st in ast.walk(mod.tree):
            if not (isinstance(st, ast.Expr) and isinstance(st.value, ast.Call)):
                continue
            c = st.value
            if not (isinstance(c.func, ast.Attribute) and c.func.attr in writes and (c.args or c.keywords)):
                continue
            recv = norm(c.func.value)
            if not recv.split(".")[-1].endswith("magnitude"):
                continue
            n += 1
            from ..model import enclosing_function, qualname
            f = enclosing_function(st)
            q = qualname(f) if f is not None else "<module>"
            if writes[c.func.attr]:
                ctx.holds(rel, q, what, detail=norm(c)[:80])
            else:
                ctx.violated(rel, q, what, detail=f"{norm(c)[:80]} as a statement, while Magnitude.{c.func.attr}(x) returns a new object and leaves self.error as it was",
                             expected=f"{recv} = {norm(c)[:60]}  (or a setter that writes self.error)")
    ctx.floor("setter calls with a discarded result", n + (0 if all(writes.values()) else 1), 1)
    _array_values_are_float(ctx)


def r7_operand_errors_intact(ctx):
    _C07.r1_no_operand_mutation(ctx)


RULES = [
    ("C08.R1", "every error term computed by the package (argument of Magnitude(...), store to .error) is NonNeg or None in the sign domain, assuming operand errors are", r1_nonnegative),
    ("C08.R2", "sum rule: error table of _add/_sub over (exact, uncertain)^2 is (None, r, l, l+r); value terms l+-r in float and Decimal branches", r2_sum_rule),
    ("C08.R3", "one exact operand: product error |k|*e, quotient-by-exact error e/|k|; exact operands give exact results", r3_exact_factor),
    ("C08.R4", "two-sided product/quotient errors are the interval half-widths, whose expansion is first order + remainder; reflected operators keep operand order", r4_first_order),
    ("C08.R6", "no Magnitude is rebuilt from another one's value times a factor while passing that one's error through unscaled (scaling goes through Magnitude arithmetic)", r6_scaled_value_scaled_error),
    ("C08.R5", "unit conversion: value x*f1/f2 (linear) or rule(x*f1)/f2; on the linear path the error is scaled by the same factors, None stays None", r5_conversion),
    ("C08.R7", "propagation never rewrites the uncertainty of an operand in place (effect analysis shared with C07.R1)", r7_operand_errors_intact),
    ("C08.R8", "an uncertainty handed to abse(x)/rele(x) is kept: the setter writes self.error, or no call site discards its result", r8_stated_uncertainty_reaches_the_object),
]
