"""C16 — parse() returns only environments that satisfy every declared constraint. Decided:
(R1) constraint coverage: for options, condition and format the node kinds a property line can
attach the constraint to are a subset of the kinds the final loop validates, and no validation
guard truth-tests the value itself; (R2) the only successful exit is dominated by the validation
loop, whose failed checks raise; (R3) the int and float branches of option registration are
identical up to the type name; (R4) solver results are dereferenced only under a type test that
admits the bare booleans equality comparisons return, and the logical operators wrap them;
(R5) dimension bounds: shape < min and shape > max raise, for every declared dimension;
(R6) the self reference is bound to the node's path before and cleared after each condition;
(R7) option membership: first equal option accepts, exhausting the list raises, no options accept;
(R8) property lines attach to the node defined or modified last (cursor set on both paths of the
dispatch, read by every property kind); (R9) node copies are deep (option lists are per node).
NOT decided: boundary numerics of tolerant comparisons, regex semantics of !format."""
import ast

from ..model import AnalysisError, dotted_name, methods, norm, walk_no_nested
from ..predtable import Handler, Unrecognised, run_block
from ..truthy import bare_truth_uses
from . import C13, C14
from . import common as K

LEVEL_TEXT = ("static analysis (ast): attach/validate coverage matrix from the guards of the property nodes and of the final "
              "loop, sibling comparison of the option branches, guarded-dereference rule for solver results, comparator table "
              "of the dimension bounds, for-else shape of the membership test, cursor discipline of property attachment")
LEVEL_NOTE = "trusted: the logical solver evaluates conditions (C18); NumberType comparisons (tolerances) are not analysed numerically"
TECHNIQUE = "ast coverage-matrix / sibling-agreement / guarded-dereference rules (static analysis)"

DIP = C13.DIP
NB = C13.NB
ND = C13.ND
SEL = ND + "node_select.py"
LS = "src/scinumtools/dip/solvers/logical_solver.py"
TN = C14.TN


def _validation_loop(ctx):
    fn = ctx.fn(DIP, "DIP.parse")
    body = K.body_nodoc(fn)
    val = [s for s in body if isinstance(s, ast.For) and norm(s.iter) == "target.nodes"]
    if len(val) != 1:
        raise AnalysisError("validation loop over target.nodes not found")
    lp = val[0]
    if isinstance(lp.target, ast.Name) and lp.target.id != "node":
        # the rules below name the loop variable `node`: alpha-rename a copy of the loop
        from ..normalise import clone
        old = lp.target.id
        if any(isinstance(n, ast.Name) and n.id == "node" for n in ast.walk(lp)):
            raise AnalysisError("validation loop: both `node` and another loop variable in use")
        lp2 = clone(lp)
        for n in ast.walk(lp2):
            if isinstance(n, ast.Name) and n.id == old:
                n.id = "node"
        for n in ast.walk(lp2):
            for ch in ast.iter_child_nodes(n):
                ch._parent = n
        lp2._parent = getattr(lp, "_parent", None)
        lp = lp2
    return fn, lp


def _isinstance_classes(test, var):
    out = set()
    for c in ast.walk(test):
        if isinstance(c, ast.Call) and dotted_name(c.func) == "isinstance" and len(c.args) == 2 and norm(c.args[0]) == var:
            t = c.args[1]
            for e in (t.elts if isinstance(t, (ast.Tuple, ast.List)) else [t]):
                out.add(norm(e))
    return out


def r1_coverage(ctx):
    fn, loop = _validation_loop(ctx)
    # options
    op = ctx.fn(ND + "node_option.py", "OptionNode.parse")
    att = set()
    for i in [x for x in ast.walk(op) if isinstance(x, ast.If) and any(isinstance(r, ast.Raise) for r in x.body)]:
        att |= _isinstance_classes(i.test, "node")
    val_opts = [i for i in loop.body if isinstance(i, ast.If) and any("validate_options" in norm(x) for x in ast.walk(i))]
    vset = _isinstance_classes(val_opts[0].test, "node") if val_opts else set()
    what = "options: every node kind that can carry options is validated"
    if att and vset and not att <= vset:
        ctx.violated(DIP, "DIP.parse", what, detail={"can carry options": sorted(att), "validated": sorted(vset), "never validated": sorted(att - vset)},
                     expected="isinstance(node, (" + ", ".join(sorted(att)) + "))")
    else:
        ctx.form(bool(att) and att <= vset, DIP, "DIP.parse", what, detail={"attach": sorted(att), "validate": sorted(vset)})
    # condition
    cn = ctx.fn(ND + "node_condition.py", "ConditionNode.parse")
    restricted = [norm(i.test) for i in ast.walk(cn) if isinstance(i, ast.If) and any(isinstance(r, ast.Raise) for r in i.body)]
    cond = [i for i in loop.body if isinstance(i, ast.If) and "node.condition" in norm(i.test)]
    if len(cond) != 1:
        ctx.unrecognised(DIP, "DIP.parse", "condition validation", "block guarded by node.condition not found")
    else:
        t = norm(cond[0].test)
        if restricted:
            ctx.unrecognised(DIP, "DIP.parse", "condition coverage", f"attachment is restricted by {restricted}; matrix comparison not implemented for it")
        else:
            what = "condition: attachable to any node, so validated for any node that has one"
            tt = cond[0].test
            conj = [norm(v) for v in tt.values] if isinstance(tt, ast.BoolOp) and isinstance(tt.op, ast.And) else [t]
            extra = [c for c in conj if c not in ("node.condition", "node.condition is not None")]
            if not extra:
                ctx.holds(DIP, "DIP.parse", what)
            elif any("isinstance(" in c or ".keyword" in c for c in extra) and len(extra) < len(conj):
                ctx.violated(DIP, "DIP.parse", what, detail=f"validation restricted by {extra}", expected="node.condition")
            else:
                ctx.form(False, DIP, "DIP.parse", what, detail=t)
    # format
    fm = ctx.fn(ND + "node_format.py", "FormatNode.parse")
    fatt = [norm(i.test) for i in ast.walk(fm) if isinstance(i, ast.If) and any(isinstance(r, ast.Raise) for r in i.body)]
    fval = [i for i in loop.body if isinstance(i, ast.If) and "node.format" in norm(i.test)]
    # the guard of the format validation as a truth table over (string node?, has a format?)
    from ..flowexpr import truth as _truth
    table = {}
    guard_t, match_in_test = None, False
    if len(fval) == 1:
        # the match itself may be a conjunct of the guard (`if is_str and has_format and not re.match(..): raise`)
        tt = fval[0].test
        conj = list(tt.values) if isinstance(tt, ast.BoolOp) and isinstance(tt.op, ast.And) else [tt]
        rest = [c for c in conj if not any(isinstance(x, ast.Call) and dotted_name(x.func) == "re.match" for x in ast.walk(c))]
        match_in_test = len(rest) < len(conj)
        guard_t = rest[0] if len(rest) == 1 else (ast.BoolOp(op=ast.And(), values=rest) if rest else ast.Constant(value=True))
        for is_str in (True, False):
            for has in (True, False):
                table[(is_str, has)] = _truth(guard_t, lambda e, _s=is_str, _h=has: {"node.keyword == 'str'": _s, "node.keyword != 'str'": not _s,
                                                                                           "node.format": _h, "node.format is not None": _h, "node.format is None": not _h,
                                                                                           "isinstance(node, StringNode)": _s}.get(norm(e)))
    if len(fatt) != 1 or len(fval) != 1 or any(v is None for v in table.values()):
        ctx.unrecognised(DIP, "DIP.parse", "format: attachable to strings only, validated for every string that has one",
                         f"attach guard {fatt} / validation guard {[norm(i.test) for i in fval]} not interpreted")
    else:
        runs_in_body = match_in_test or any(isinstance(c, ast.Call) and dotted_name(c.func) == "re.match" for x in fval[0].body for c in ast.walk(x))
        want = {(True, True): runs_in_body, (True, False): not runs_in_body, (False, True): not runs_in_body, (False, False): not runs_in_body}
        ctx.check(fatt[0].endswith(".keyword != 'str'") and table == want, DIP, "DIP.parse", "format: attachable to strings only, validated for every string that has one",
                  detail={"attach": fatt, "validate": [norm(i.test) for i in fval], "runs for (string, has format)": {str(k): v for k, v in table.items()}},
                  expected={"attach": "keyword != 'str' -> raise", "validate": "node.keyword == 'str' and node.format"})
    if fval:
        m = [c for c in ast.walk(fval[0]) if isinstance(c, ast.Call) and dotted_name(c.func) == "re.match"]
        ok = len(m) == 1 and [norm(a) for a in m[0].args] == ["node.format", "node.value.value"] and any(isinstance(r, ast.Raise) for r in ast.walk(fval[0]))
        ctx.check(ok, DIP, "DIP.parse", "the format expression is matched against the final value; no match => error", detail=[norm(x) for x in m])
    # no guard of the loop truth-tests the value itself
    hits = bare_truth_uses(loop, lambda s: s in ("node.value.value", "node.value_raw", "value"))
    ctx.check(not hits, DIP, "DIP.parse", "no validation guard depends on the truth value of the node's value (0, false and '' are validated too)",
              detail=[f"{e} in `{t}`" for e, t, _ in hits] or None)


def r2_dominance(ctx):
    C14.r4_final_checks(ctx)
    fn, loop = _validation_loop(ctx)
    n = 0
    for i in loop.body:
        if isinstance(i, ast.If):
            n += 1
            fails = any(isinstance(r, ast.Raise) for r in ast.walk(i)) or any("validate_options" in norm(x) for x in ast.walk(i))
            ctx.check(fails, DIP, "DIP.parse", f"failed check `{norm(i.test)[:50]}` raises", detail=None)
    ctx.floor("validation blocks", n, 4, file=DIP)


def r3_option_siblings(ctx):
    # options and the operands of a condition are brought to the node's unit by NumberType.convert before they are
    # compared: a cell of its table that relabels without converting (0 Cel taken as 0 K) makes parse() accept values
    # outside the declared set (shared with C14.R2)
    C14.conversion_table(ctx)
    fn = ctx.fn(SEL, "SelectNode.set_option")
    chain = [s for s in fn.body if isinstance(s, ast.If) and norm(s.test) == "self.keyword == 'int'"]
    if len(chain) != 1 or len(chain[0].orelse) != 1 or not isinstance(chain[0].orelse[0], ast.If) or norm(chain[0].orelse[0].test) != "self.keyword == 'float'":
        ctx.unrecognised(SEL, "SelectNode.set_option", "int/float branches", "if keyword=='int' / elif keyword=='float' not found")
        return
    a = [norm(s).replace("IntegerType", "T") for s in chain[0].body]
    b = [norm(s).replace("FloatType", "T") for s in chain[0].orelse[0].body]
    ctx.check(a == b, SEL, "SelectNode.set_option", "int and float options are registered identically (same unit conversion under the same condition)",
              detail={"int": a, "float": b})
    conv = [c for c in ast.walk(chain[0]) if isinstance(c, ast.Call) and norm(c.func) == "value.convert"]
    ctx.check(len(conv) == 2 and all([norm(x) for x in c.args] == ["self.units_raw", "env"] for c in conv), SEL, "SelectNode.set_option",
              "options are converted into the node's unit with the environment's custom units", detail=[norm(c) for c in conv])
    guards = [norm(i.test) for i in ast.walk(chain[0]) if isinstance(i, ast.If) and len(i.body) == 1 and norm(i.body[0]).startswith("value.convert(")]
    ctx.check(all(g in ("not env.envtype == EnvType.DOCS", "env.envtype != EnvType.DOCS") for g in guards) and len(guards) == 2, SEL, "SelectNode.set_option",
              "conversion happens in data mode (documentation mode keeps the options as written)", detail=guards)
    s = norm(fn)
    ctx.form("self.options.append(Option(value=value, value_raw=node.value_raw, units_raw=node.units_raw))" in s, SEL, "SelectNode.set_option", "the converted option is recorded")


def _return_kinds(fn):
    kinds = set()
    for r in ast.walk(fn):
        if isinstance(r, ast.Return) and r.value is not None:
            v = r.value
            if isinstance(v, ast.Call) and dotted_name(v.func) == "BooleanType":
                kinds.add("BooleanType")
            else:
                kinds.add("bool")
    return kinds


def r4_guarded_deref(ctx):
    K.escape_marks_removed(ctx)      # a condition with an escaped quote is evaluated on the text as written
    # kinds the logical solver can return
    kinds = {}
    for rel, cname in ((TN, "NumberType"), ("src/scinumtools/dip/datatypes/type_boolean.py", "BooleanType"), ("src/scinumtools/dip/datatypes/type_string.py", "StringType")):
        c = ctx.repo.cls(rel, cname)
        for m in ("__eq__", "__ne__", "__lt__", "__gt__", "__le__", "__ge__"):
            f = methods(c).get(m)
            if f is not None:
                kinds[f"{cname}.{m}"] = sorted(_return_kinds(f))
    ctx.info["comparison_return_kinds"] = kinds
    bare = sorted(k for k, v in kinds.items() if "bool" in v)
    ctx.floor("comparison methods", len(kinds), 8)
    fn, loop = _validation_loop(ctx)
    cond = [i for i in loop.body if isinstance(i, ast.If) and "node.condition" in norm(i.test)]
    if cond:
        solves = [a for a in ast.walk(cond[0]) if isinstance(a, ast.Assign) and isinstance(a.value, ast.Call) and norm(a.value.func).endswith(".solve")]
        derefs = [a for a in ast.walk(cond[0]) if isinstance(a, ast.Attribute) and a.attr == "value" and
                  ((solves and norm(a.value) == norm(solves[0].targets[0])) or (isinstance(a.value, ast.Call) and norm(a.value.func).endswith(".solve")))]
        for d in derefs:
            p = d
            guarded = False
            while p is not cond[0]:
                par = p._parent
                if isinstance(par, (ast.IfExp, ast.If)) and "isinstance(" in norm(par.test) and norm(d.value) in norm(par.test) and (p is getattr(par, "body", None) or p in (par.body if isinstance(par.body, list) else [par.body])):
                    guarded = True
                p = par
            ctx.check(guarded or not bare, DIP, "DIP.parse", f"`{norm(d)}` of a condition result is read only under a type test",
                      detail={"bare_bool_producers": bare}, expected="result.value if isinstance(result, Type) else result")
        ctx.floor("dereferences of the condition result", len(derefs), 1, file=DIP)
    # logical operators wrap bare booleans
    mod = ctx.repo.module(LS)
    for cname, meth in (("CustomNot", "operate_unary"), ("CustomAnd", "operate_binary"), ("CustomOr", "operate_binary")):
        c = ctx.repo.cls(LS, cname)
        f = methods(c).get(meth)
        if f is None:
            ctx.check(not bare, LS, cname, f"{meth} accepts the bare booleans comparisons return", detail="inherits the generic handler", expected="wrap (bool, np.bool_) into BooleanType")
            continue
        from ..flowexpr import paths
        unwrapped, seen, unk = set(), 0, []
        narrow = {}
        for q in paths(f):
            if q.status == "raise":
                continue
            calls = [c2 for e in q.events if e.resolved is not None for c2 in ast.walk(e.resolved)
                     if isinstance(c2, ast.Call) and isinstance(c2.func, ast.Attribute) and c2.func.attr.startswith("logical_")]
            tests = {}
            for t in q.tests():
                r = t.resolved
                if isinstance(r, ast.Call) and dotted_name(r.func) == "isinstance" and len(r.args) == 2 and "bool" in norm(r.args[1]):
                    tests[norm(r.args[0])] = t.extra
                    kinds = {norm(x) for x in (r.args[1].elts if isinstance(r.args[1], ast.Tuple) else [r.args[1]])}
                    if kinds <= {"bool", "np.bool_", "numpy.bool_", "np.bool"}:
                        narrow.setdefault(norm(r), kinds)
            for c2 in calls[-1:]:
                # the receiver is made from the left token and the argument from the right one
                if meth == "operate_binary" and c2.args:
                    rtxt, atxt = norm(c2.func.value), norm(c2.args[0])
                    crossed = []
                    if "get_right(" in rtxt and "get_left(" not in rtxt:
                        crossed.append(f"receiver built from the right token: {rtxt[:70]}")
                    if "get_left(" in atxt and "get_right(" not in atxt:
                        crossed.append(f"argument built from the left token: {atxt[:70]}")
                    if "get_left(" in rtxt and "get_right(" in rtxt or "get_left(" in atxt and "get_right(" in atxt:
                        pass        # mixes both (e.g. a test on one selecting the other): not decided here
                    if crossed:
                        ctx.violated(LS, f"{cname}.{meth}", "left and right operand keep their sides when bare booleans are wrapped", detail=crossed,
                                     expected="left.logical_op(right), each wrapped from its own token")
                for o in [c2.func.value] + list(c2.args):
                    seen += 1
                    if isinstance(o, ast.IfExp) and isinstance(o.test, ast.Call) and dotted_name(o.test.func) == "isinstance" and "bool" in norm(o.test.args[1]) \
                            and norm(o.body) == f"BooleanType({norm(o.test.args[0])})" and norm(o.orelse) == norm(o.test.args[0]):
                        continue
                    if isinstance(o, ast.Call) and dotted_name(o.func) == "BooleanType" and len(o.args) == 1:
                        continue          # wrapped (conditionally or not)
                    if tests.get(norm(o)) is False:
                        continue          # this path is the one on which the operand is not a bare boolean
                    raw = isinstance(o, (ast.Name, ast.Attribute)) or (isinstance(o, ast.Call) and norm(o.func) in ("tokens.get_left", "tokens.get_right") and not o.args)
                    if raw:
                        unwrapped.add(norm(o))          # a token as it came from the buffers, untested and unwrapped
                    else:
                        unk.append(norm(o))             # some other expression: what it returns is not known here
        # numeric comparisons answer with NumPy booleans (isclose, array comparisons): a guard that names `bool` alone lets them through unwrapped
        for gtxt, kinds in narrow.items():
            w = "the guard that wraps bare booleans names both bool and np.bool_ (numeric comparisons return NumPy booleans)"
            if bare and "bool" in kinds and not (kinds & {"np.bool_", "numpy.bool_"}):
                ctx.violated(LS, f"{cname}.{meth}", w, detail=gtxt, expected="isinstance(x, (bool, np.bool_))")
            elif kinds & {"np.bool_", "numpy.bool_"} and "bool" in kinds:
                ctx.holds(LS, f"{cname}.{meth}", w, detail=gtxt)
        if not seen:
            ctx.unrecognised(LS, f"{cname}.{meth}", "every operand is wrapped when it is a bare boolean", "no logical_* call found on any path")
        elif unk and not unwrapped:
            ctx.unrecognised(LS, f"{cname}.{meth}", "every operand is wrapped when it is a bare boolean", f"operand expression not interpreted: {sorted(set(unk))[:2]}")
        else:
            ctx.check(not unwrapped or not bare, LS, f"{cname}.{meth}", "every operand is wrapped when it is a bare boolean",
                      detail={"operands reaching logical_* unwrapped and untested": sorted(unwrapped)} if unwrapped else None,
                      expected="BooleanType(x) when isinstance(x, (bool, np.bool_))")


def r5_dimension_bounds(ctx):
    """Bounds check of cast_value on resolved iteration paths: every *declared* dimension is visited (a zip with the
    value's shape would stop at the value's rank), and for each one the extent is refused exactly when it is below the
    declared minimum or above the declared maximum."""
    from ..flowexpr import consistent, explore
    fn = ctx.fn(NB, "BaseNode.cast_value")
    nm = "BaseNode.cast_value"
    try:
        ex = explore(fn, max_paths=20000)
    except AnalysisError as e:
        ctx.unrecognised(NB, nm, "dimension loop", str(e))
        return
    cands = []
    for lst in ex.iterations_all.values():
        for lp, start, its in lst:
            if isinstance(lp, ast.For) and "self.dimension" in norm(lp.iter):
                cands.append((lp, start, its))
    loops = {id(c[0]): c[0] for c in cands}
    if len(loops) != 1:
        ctx.unrecognised(NB, nm, "dimension loop", f"{len(loops)} loops over self.dimension")
        return
    lp = list(loops.values())[0]
    it = norm(lp.iter)
    if it in ("enumerate(self.dimension)",):
        ctx.holds(NB, nm, "each declared dimension is compared with the value's extent on that axis", detail=it)
    elif "zip(" in it and ".shape" in it:
        ctx.violated(NB, nm, "each declared dimension is compared with the value's extent on that axis", detail=it,
                     expected="enumerate(self.dimension): a value with fewer axes than declared must fail, not skip the remaining dimensions")
    else:
        ctx.unrecognised(NB, nm, "each declared dimension is compared with the value's extent on that axis", f"iteration over {it}")
    # names of (index, minimum, maximum) in one iteration
    tg = lp.target
    if not (isinstance(tg, ast.Tuple) and len(tg.elts) == 2 and isinstance(tg.elts[0], ast.Name)):
        ctx.unrecognised(NB, nm, "bounds", "loop target")
        return
    rows, unk = [], []
    for lp_, start, its in [c for c in cands if c[0] is lp][:1]:
        tag = next((n.id.split("@")[1] for q in its for e in q.events[start:] if e.resolved is not None for n in ast.walk(e.resolved)
                    if isinstance(n, ast.Name) and "@loop" in n.id and not n.id.endswith("'")), None)
        if tag is None:
            continue
        if isinstance(tg.elts[1], ast.Name):
            MIN, MAX = f"{tg.elts[1].id}@{tag}[0]", f"{tg.elts[1].id}@{tag}[1]"
        elif isinstance(tg.elts[1], ast.Tuple) and len(tg.elts[1].elts) == 2 and all(isinstance(x, ast.Name) for x in tg.elts[1].elts):
            MIN, MAX = (f"{x.id}@{tag}" for x in tg.elts[1].elts)
        else:
            continue
        D = f"{tg.elts[0].id}@{tag}"
        for rmin in ("lt", "eq", "gt"):
            for rmax in ("lt", "eq", "gt"):
                def atom(e, _a=rmin, _b=rmax):
                    k = norm(e)
                    if k in (f"{MIN} is not None", f"{MAX} is not None"):
                        return True
                    if k in (f"{MIN} is None", f"{MAX} is None"):
                        return False
                    if isinstance(e, ast.Compare) and len(e.ops) == 1 and ".shape[" in norm(e.left) and D in norm(e.left):
                        other = norm(e.comparators[0])
                        rel = _a if other == MIN else (_b if other == MAX else None)
                        if rel is None:
                            return None
                        o = {"lt": -1, "eq": 0, "gt": 1}[rel]
                        return {ast.Lt: o < 0, ast.LtE: o <= 0, ast.Gt: o > 0, ast.GtE: o >= 0, ast.Eq: o == 0, ast.NotEq: o != 0}.get(type(e.ops[0]))
                    if isinstance(e, ast.Compare) and len(e.ops) == 1 and ".shape[" in norm(e.comparators[0]) and D in norm(e.comparators[0]):
                        other = norm(e.left)
                        rel = _a if other == MIN else (_b if other == MAX else None)
                        if rel is None:
                            return None
                        o = -{"lt": -1, "eq": 0, "gt": 1}[rel]
                        return {ast.Lt: o < 0, ast.LtE: o <= 0, ast.Gt: o > 0, ast.GtE: o >= 0, ast.Eq: o == 0, ast.NotEq: o != 0}.get(type(e.ops[0]))
                    return None
                cs, u = consistent(its, atom, start)
                unk += u
                if cs:
                    raised = {q.status == "raise" for q in cs}
                    rows.append((rmin, rmax, raised))
    if unk or not rows:
        ctx.unrecognised(NB, nm, "bounds: extent < minimum and extent > maximum are errors (bounds inclusive)", f"tests in the dimension loop not interpreted: {sorted(set(unk))[:2]}")
    else:
        bad = [(a, b, sorted(r)) for a, b, r in rows if r != {(a == "lt") or (b == "gt")}]
        ctx.check(not bad, NB, nm, "bounds: extent < minimum and extent > maximum are errors (bounds inclusive)",
                  detail=bad or f"{len(rows)} relation cells", expected="refused iff extent < minimum or extent > maximum")
    mv = ctx.fn(NB, "BaseNode.modify_value")
    ctx.form("self.cast_value(node.value_raw)" in norm(mv), NB, "BaseNode.modify_value", "modifications are cast (and bounds-checked) by the same function")


def r6_autoref(ctx):
    fn, loop = _validation_loop(ctx)
    cond = [i for i in loop.body if isinstance(i, ast.If) and "node.condition" in norm(i.test)]
    if not cond:
        ctx.unrecognised(DIP, "DIP.parse", "condition block", "not found")
        return
    b = [norm(s).split("\n")[0] for s in cond[0].body]
    first, last = b[0], b[-1]
    ctx.check(first == "target.autoref = node.name" and last == "target.autoref = None", DIP, "DIP.parse",
              "{?} is bound to the node's path before its condition and cleared afterwards", detail=[first, last])
    rq = ctx.fn("src/scinumtools/dip/environment.py", "Environment.request")
    from ..flowexpr import consistent, paths
    pth = rq.args.args[1].arg if len(rq.args.args) > 1 else "path"
    cnt = rq.args.args[2].arg if len(rq.args.args) > 2 else "count"

    def atom(e):
        k = norm(e)
        return {"self.autoref": True, f"{pth} == Sign.QUERY": True, "not self.nodes": False, "self.nodes": True, cnt: False}.get(k)
    cs, unk = consistent(paths(rq), atom)
    rets = sorted({norm(e.resolved) for q in cs for e in q.events if e.kind == "return"})
    ctx.form(bool(cs) and not unk and rets == ["self.nodes.query(self.autoref, tags=tags)"], "src/scinumtools/dip/environment.py",
             "Environment.request", "a bare {?} resolves to the bound path", detail=rets or sorted(set(unk))[:2])


def r7_membership(ctx):
    """validate_options as: no options -> accept; some option equal to the value -> accept; none -> error.  The
    quantifier over the options may be a first-match loop with for-else or `any(...)`; both are read from resolved paths."""
    from . import C18 as _C18
    _C18.r8_comparisons(ctx)     # what `option == value` and the comparisons inside conditions mean (tolerance, common unit): shared with C18.R8
    from ..flowexpr import consistent, explore
    from ..model import cnorm
    fn = ctx.fn(SEL, "SelectNode.validate_options")
    nm = "SelectNode.validate_options"
    ex = explore(fn)
    EQ = ("_c0.value == self.value", "self.value == _c0.value")
    any_txt = [f"any(({e} for _c0 in self.options))" for e in EQ] + [f"any([{e} for _c0 in self.options])" for e in EQ]

    def outcome(qs):
        return sorted({"raise" if q.status == "raise" else norm(next((e.resolved for e in q.events if e.kind == "return"), None)) for q in qs})
    # no options
    cs, unk = consistent(ex.paths, lambda e: False if norm(e) == "self.options" else (True if cnorm(e) in any_txt else None))
    # the membership loop compares an option with the value (a loop that only collects the options for the message is not it)
    loops = [v for v in ex.iterations.values() if isinstance(v[0], ast.For) and norm(v[0].iter) == "self.options"
             and any(isinstance(c, ast.Compare) and "self.value" in norm(c) for c in ast.walk(v[0]))]
    if loops:
        # with a loop the function-level paths carry one representative iteration: decide the empty case on paths without loop events
        cs = [q for q in ex.paths if not any(e.kind == "loop" for e in q.events) and any(e.kind == "test" and norm(e.resolved) == "self.options" and e.extra is False
                                                                                    or (isinstance(e.resolved, ast.UnaryOp) and norm(e.resolved.operand) == "self.options" and e.extra is True)
                                                                                    for e in q.events if e.kind == "test")]
    ctx.check(bool(cs) and outcome(cs) == ["True"], SEL, nm, "a node without options accepts any value", detail=outcome(cs))
    if loops:
        lp, start, its = loops[0]
        if not isinstance(lp.target, ast.Name):
            ctx.unrecognised(SEL, nm, "option loop", "loop target")
            return
        o = lp.target.id + "@loop1"
        eq = (f"{o}.value == self.value", f"self.value == {o}.value")
        ne = (f"{o}.value != self.value", f"self.value != {o}.value")
        hit, u1 = consistent(its, lambda e: True if norm(e) in eq else (False if norm(e) in ne else (True if norm(e) == "self.options" else None)), start)
        miss, u2 = consistent(its, lambda e: False if norm(e) in eq else (True if norm(e) in ne else (True if norm(e) == "self.options" else None)), start)
        if u1 or u2 or not hit or not miss:
            ctx.unrecognised(SEL, nm, "option loop", f"tests in the loop body not recognised: {sorted(set(u1 + u2))[:2]}")
            return
        ctx.check(outcome(hit) == ["True"] and all(q.status in (None, "continue") for q in miss), SEL, nm, "the first option equal to the value accepts",
                  detail={"equal": outcome(hit), "different": sorted({str(q.status) for q in miss})})
        exhausted = [q for q in ex.paths if any(e.kind == "loop" for e in q.events) and not any(e.kind == "return" and any(e.node is x for x in ast.walk(lp)) for e in q.events)]
        ctx.check(bool(exhausted) and all(q.status == "raise" for q in exhausted), SEL, nm, "exhausting the option list without a match is an error (for...else raise)",
                  detail=outcome(exhausted))
    else:
        yes, u1 = consistent(ex.paths, lambda e: True if norm(e) == "self.options" or cnorm(e) in any_txt else None)
        no, u2 = consistent(ex.paths, lambda e: True if norm(e) == "self.options" else (False if cnorm(e) in any_txt else None))
        if u1 or u2 or not yes or not no:
            ctx.unrecognised(SEL, nm, "shape", f"membership test not recognised: {sorted(set(u1 + u2))[:2]}")
            return
        ctx.check(outcome(yes) == ["True"], SEL, nm, "the first option equal to the value accepts", detail=outcome(yes))
        ctx.check(outcome(no) == ["raise"], SEL, nm, "exhausting the option list without a match is an error (for...else raise)", detail=outcome(no))


def _all_functions(tree, prefix=""):
    for st in tree.body:
        if isinstance(st, (ast.FunctionDef, ast.AsyncFunctionDef)):
            yield prefix + st.name, st
        elif isinstance(st, ast.ClassDef):
            yield from _all_functions(st, prefix + st.name + ".")


def r8_property_target(ctx):
    n = 0
    for f, c in (("node_option.py", "OptionNode"), ("node_constant.py", "ConstantNode"), ("node_condition.py", "ConditionNode"),
                 ("node_format.py", "FormatNode"), ("node_tags.py", "TagsNode"), ("node_description.py", "DescriptionNode")):
        fn = ctx.fn(ND + f, f"{c}.parse")
        src = norm(fn)
        last = "env.nodes[-1]" in src
        cur = "env.nodes.current()" in src
        n += 1
        if last:
            ctx.violated(ND + f, f"{c}.parse", "the property is attached to the node defined or modified last",
                         detail="attaches to env.nodes[-1], the node appended last", expected="env.nodes.current()")
        else:
            ctx.form(cur, ND + f, f"{c}.parse", "the property is attached to the node defined or modified last")
    ctx.floor("property kinds", n, 6)
    fn, body, orelse = C14._found_branch(ctx)
    mi = next((i for i, s in enumerate(body) if "modify_value(node, target)" in norm(s)), None)
    what = "after a modification the modified node becomes the property target"
    # who writes a cursor at all in the DIP package (evidence for "nobody moves the cursor" needs the whole set)
    writers = set()
    for m_ in ctx.repo.all_modules("src/scinumtools/dip"):
        rel = m_.relpath
        for q_, f_ in _all_functions(m_.tree):
            if any(isinstance(x, ast.Attribute) and isinstance(x.ctx, ast.Store) and x.attr == "cursor" for x in ast.walk(f_)) \
                    or any(isinstance(x, ast.Call) and isinstance(x.func, ast.Name) and x.func.id == "setattr" and len(x.args) >= 2
                           and isinstance(x.args[1], ast.Constant) and x.args[1].value == "cursor" for x in ast.walk(f_)):
                writers.add(f"{rel}::{q_}")
    stores = [(i, x) for i, s_ in enumerate(body) for x in ast.walk(s_) if isinstance(x, ast.Assign) and any(
        isinstance(t, ast.Attribute) and t.attr == "cursor" for t in x.targets)]
    idx = {norm(x.slice) for s_ in body for x in ast.walk(s_) if isinstance(x, ast.Subscript) and norm(x.value) == "target.nodes"}
    # ... or the index of an enumerate over the node list whose element receives the modification
    for lp in [l for l in ast.walk(fn) if isinstance(l, ast.For)]:
        it = norm(lp.iter)
        if it in ("enumerate(target.nodes)", "enumerate(target.nodes.nodes)") and isinstance(lp.target, ast.Tuple) and len(lp.target.elts) == 2 \
                and all(isinstance(e_, ast.Name) for e_ in lp.target.elts) \
                and any(isinstance(c_, ast.Call) and norm(c_.func) == f"{lp.target.elts[1].id}.modify_value" for c_ in ast.walk(lp)):
            idx.add(lp.target.elts[0].id)
    if mi is None:
        ctx.form(False, DIP, "DIP.parse", what, detail="the modification call was not found in the branch of an existing node")
    elif stores:
        i, st_ = stores[-1]
        v = st_.value
        if isinstance(v, ast.Constant) or (isinstance(v, ast.UnaryOp) and isinstance(v.operand, ast.Constant)):
            ctx.violated(DIP, "DIP.parse", what, detail=f"the cursor is set to the constant {norm(v)}, not to the index of the modified node",
                         expected="the index of the node whose modify_value was called")
        elif i < mi and not any(j >= mi for j, _ in stores):
            ctx.form(False, DIP, "DIP.parse", what, detail="cursor store precedes the modification")
        else:
            ctx.form(norm(v) in idx, DIP, "DIP.parse", what, detail={"cursor": norm(v), "indices used for the modified node": sorted(idx)})
    elif writers <= {f"{DIP}::DIP.parse"}:
        ctx.violated(DIP, "DIP.parse", what, detail={"cursor stores in the branch of an existing node": 0, "functions of the DIP package that write a cursor": sorted(writers)},
                     expected="target.nodes.cursor = <index of the modified node>")
    else:
        ctx.form(False, DIP, "DIP.parse", what, detail={"cursor writers": sorted(writers)})
    o = [norm(s) for s in orelse]
    what2 = "after a definition the appended node becomes the property target"
    if "target.nodes.append(node)" in o:
        after = o[o.index("target.nodes.append(node)") + 1:]
        cur = [x for x in after if x.startswith("target.nodes.cursor = ")]
        if cur:
            ctx.check(cur[-1] in ("target.nodes.cursor = -1", "target.nodes.cursor = len(target.nodes) - 1"), DIP, "DIP.parse", what2, detail=cur)
        elif writers <= {f"{DIP}::DIP.parse"} and not any(x.startswith("target.nodes.cursor = ") for x in o):
            ctx.violated(DIP, "DIP.parse", what2, detail="no cursor store after the append although modifications move the cursor", expected="target.nodes.cursor = -1")
        else:
            ctx.form(False, DIP, "DIP.parse", what2, detail=o[-3:])
    else:
        ctx.form(False, DIP, "DIP.parse", what2, detail=o[-3:])
    nl = ctx.fn("src/scinumtools/dip/lists/list_nodes.py", "NodeList.current")
    ctx.form([norm(s) for s in K.body_nodoc(nl)] == ["return self.nodes[self.cursor]"], "src/scinumtools/dip/lists/list_nodes.py", "NodeList.current", "current() is the node at the cursor")


def r9_deep_copies(ctx):
    fn = ctx.fn(ND + "node.py", "Node.copy")
    b = [norm(s) for s in K.body_nodoc(fn)]
    if b == ["return copy.deepcopy(self)"]:
        ctx.holds(ND + "node.py", "Node.copy", "node copies are deep (option/tag lists are not shared between a node and its copies)")
    elif any("copy.copy(self)" in s for s in b):
        ctx.violated(ND + "node.py", "Node.copy", "node copies are deep (option/tag lists are not shared between a node and its copies)", detail=b,
                     expected="copy.deepcopy(self): an option added to an imported copy must not constrain the original")
    else:
        ctx.unrecognised(ND + "node.py", "Node.copy", "copy depth", str(b))


RULES = [
    ("C16.R1", "coverage matrix attach <= validate for options, condition, format; format matched against the final value; no guard truth-tests the value", r1_coverage),
    ("C16.R2", "single successful exit dominated by the validation loop; every failed check raises", r2_dominance),
    ("C16.R3", "int and float option registration are identical up to the type name; conversion into the node unit in data mode", r3_option_siblings),
    ("C16.R4", "condition results are dereferenced only under a type test; logical operators wrap bare booleans (computed from the comparison methods' return kinds)", r4_guarded_deref),
    ("C16.R5", "dimension bounds: < min and > max raise; modifications use the same caster", r5_dimension_bounds),
    ("C16.R6", "{?} bound before and cleared after each condition", r6_autoref),
    ("C16.R7", "option membership: first equal accepts, exhaustion raises, no options accept; equality is the tolerant, unit-aware comparison of C18.R8 (shared)", r7_membership),
    ("C16.R8", "property lines attach to the node defined or modified last (cursor written on both dispatch paths, read by all six property kinds)", r8_property_target),
    ("C16.R9", "node copies are deep", r9_deep_copies),
]
